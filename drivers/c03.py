"""Native driver for C03 (bounded; real code): each action logs exactly one start and one truthful end;
errors pass through.

Prints one JSON line: {cases, distinct, failures:[{signature, scenario, observed}], known:[...], bound, rule}.

What is run
-----------
A scenario is a list of steps sharing one freshly built exception hierarchy (R <- A, B <- C(A, B) <- D, rooted
at Exception / BaseException / KeyboardInterrupt / OSError / asyncio.CancelledError) and one logger (the default
logger with a list destination, or an explicit MemoryLogger):
  ["reg", cls, kind]   register an exception extractor of the given kind for a class of the hierarchy (or its
                       builtin root), via the public register_exception_extractor
  ["run", levels]      run a nest of actions, outermost..innermost; each level chooses how the action is made
                       (start_action/start_task/continue_task/ActionType/log_call), how it is scoped and finished
                       (with / context()+finish / run()+finish / bare finish / with inside a generator, a
                       hand-driven coroutine or a real asyncio task), how its body exits (fall off, return, break,
                       continue, raise-and-catch inside, raise any of ~25 exception classes, generator close,
                       task cancel), what happens to an escaping exception at the boundary to the parent (pass,
                       swallow, swallow+write_traceback, bare re-raise, translate with/without chaining), its start
                       and success field sets (incl. names colliding with eliot's own keys) and repeated finishing
  ["fail", cls, depth] shorthand for a run of `depth` nested with-blocks whose innermost raises an instance of cls
  ["tb", cls]          write_traceback() of an instance of cls inside an action (another route into the extractor
                       registry)
The oracle is independent of eliot: whether an exception escaped a body, and which object left the block, is
observed with try/except placed directly inside and directly outside the block; the expected extractor is found by
walking type(exc).__mro__ over the driver's own mirror of the registrations; expected end fields are computed from
the scenario.

KNOWN_ON_UNCHANGED_TREE (genuine violations on the unchanged tree; detected by the "odd" family, reported under
the JSON key "known" instead of "failures"):
  * {"kind": "extractor_non_dict", ...}: an extractor that returns something that is not a mutable dict (None, e.g.
    a forgotten return, or a read-only mapping such as types.MappingProxyType): Action.finish() does
    fields[EXCEPTION_FIELD] = ... on it, the TypeError escapes from __exit__ and REPLACES the application's
    exception (the original is only its __context__), and since _finished was already set no end message is ever
    written for the action (symptoms "exception_replaced", "no_end_message").
  * {"kind": "extractor_dict_mutated", ...}: finish() writes exception/reason/action_status/timestamp/task_uuid/
    action_type/task_level INTO the dict the extractor returned.  If that dict is shared (a module constant) or
    owned by the exception (lambda e: e.details) the application's object is altered ("owner": "shared" /
    "exception").  Consequences that are visible in the log:
      - symptom "traceback_carries_action_fields": a later write_traceback() of such an exception binds the
        polluted dict, so the eliot:traceback message carries action_status='failed' and the failed action's
        action_type: it looks like a second end message (of the wrong type) of the action it is logged in.
      - symptom "traceback_serialization_failure": with the default Logger the same polluted dict overrides the
        traceback message's 'exception' field with a string, its serializer fails and the traceback is replaced by
        an eliot:serialization_failure message.
      - symptom "memorylogger_end_aliased": MemoryLogger stores the very dict, so the next failure rewrites the
        previously stored end message (the first action ends up with no end message, the second with two).
"""
import argparse, asyncio, contextvars, copy, itertools, json, random, sys, time, types

ap = argparse.ArgumentParser(); ap.add_argument("--tier", default="quick"); ap.add_argument("--seed", type=int, default=0)
ap.add_argument("--scenario"); args = ap.parse_args()

from eliot import (start_action, start_task, current_action, log_message, add_destinations, remove_destination,
                   MemoryLogger, ActionType, Field, register_exception_extractor, write_traceback, log_call, Action)
try:  # only used to put the registry back the way it was found (there is no public unregister)
    from eliot._errors import _error_extraction as _EE
except Exception:  # pragma: no cover
    _EE = None

# The deepest legitimate stack here is ~120 frames; a lower limit only makes runaway recursion in a broken tree
# (which formats a traceback per frame) fail fast instead of taking tens of seconds.
sys.setrecursionlimit(320)
STR_FAILED = "eliot: unknown, str() raised exception"      # documented fallback text of a failing str()
RESERVED = ("action_status", "action_type", "task_uuid", "task_level", "timestamp")
KNOWN_SIGS = [
    {"kind": "extractor_non_dict", "symptom": "exception_replaced"},
    {"kind": "extractor_non_dict", "symptom": "no_end_message"},
    {"kind": "extractor_dict_mutated", "owner": "shared"},
    {"kind": "extractor_dict_mutated", "owner": "exception"},
    {"kind": "extractor_dict_mutated", "symptom": "traceback_carries_action_fields"},
    {"kind": "extractor_dict_mutated", "symptom": "memorylogger_end_aliased"},
    {"kind": "extractor_dict_mutated", "symptom": "traceback_serialization_failure"},
]


# ---------------------------------------------------------------------------------------------- exception zoo
class BadStr(Exception):
    def __str__(self): raise ValueError("no str for you")


class BadStrBase(BaseException):
    def __str__(self): raise KeyboardInterrupt("str interrupted")


class BadRepr(Exception):
    def __repr__(self): raise RuntimeError("no repr")


EXC = {
    "ValueError": lambda: ValueError("v msg"),
    "ValueErrorArgs": lambda: ValueError(1, "two"),
    "Unicode": lambda: ValueError("café ☃ \U0001F600"),
    "Empty": lambda: Exception(),
    "KeyError": lambda: KeyError("k"),
    "OSError": lambda: OSError(5, "io failed"),
    "FileNotFoundError": lambda: FileNotFoundError(2, "nf", "/x"),
    "OSErrorNoErrno": lambda: OSError("plain"),
    "StopIteration": lambda: StopIteration(3),
    "StopAsyncIteration": lambda: StopAsyncIteration(),
    "ZeroDivisionError": lambda: ZeroDivisionError("division by zero"),
    "AssertionError": lambda: AssertionError(),
    "KeyboardInterrupt": lambda: KeyboardInterrupt(),
    "SystemExit": lambda: SystemExit(3),
    "GeneratorExit": lambda: GeneratorExit(),
    "CancelledError": lambda: asyncio.CancelledError("cancelled!"),
    "BaseException": lambda: BaseException("bare base"),
    "ExceptionGroup": lambda: ExceptionGroup("eg", [ValueError("a"), KeyError("b")]),
    "BaseExceptionGroup": lambda: BaseExceptionGroup("beg", [KeyboardInterrupt()]),
    "BadStr": lambda: BadStr("x"),
    "BadStrBase": lambda: BadStrBase("y"),
    "BadRepr": lambda: BadRepr("z"),
}
EXC_KEYS = list(EXC)
H_KEYS = ["H:R", "H:A", "H:B", "H:C", "H:D"]
BASES = {"Exception": Exception, "BaseException": BaseException, "KeyboardInterrupt": KeyboardInterrupt,
         "OSError": OSError, "CancelledError": asyncio.CancelledError}
BASE_KEYS = list(BASES)
STYLES = ["with", "ctx_finish", "run_finish", "manual", "gen", "coro", "async_task"]
MKS = ["start_action", "start_task", "continue_task", "typed", "log_call"]
OK_HOWS = ["fall", "return", "break", "continue", "caught"]
OWN_ALL = [["ok", h] for h in OK_HOWS] + [["raise", k] for k in EXC_KEYS + H_KEYS] + [["close"], ["cancel"]]
BOUNDS = ["pass", "swallow", "swallow_tb", "reraise", "translate", "translate_nochain"]
REPS = ["finish", "finish_exc", "finish_base", "with_again", "with_again_raise"]
KINDS = ["fresh", "empty", "collide", "collide_ident", "raise_exc", "raise_base", "raise_self", "raise_badstr"]
RAISING = ("raise_exc", "raise_base", "raise_self", "raise_badstr")
REG_CLS = ["R", "A", "B", "C", "D", "base"]
SF = [{}, {"a": 1},
      {"x": [1, 2], "reason": "start-reason", "exception": "start.Exc", "y": {"k": "v"}},
      {"action_status": "succeeded", "task_level": [7], "task_uuid": "u", "timestamp": 0, "z": None}]
FF = [{}, {"r": 2},
      {"r": [1], "reason": "fine", "exception": "none", "s": "t"},
      {"action_status": "failed", "task_level": [8], "task_uuid": "v", "timestamp": 1, "action_type": "bogus", "w": 1.5}]


def make_hier(base):
    b = BASES[base]
    ns = lambda: {"__module__": "c03hier." + base.lower()}
    R = type("R", (b,), ns()); A = type("A", (R,), ns()); B = type("B", (R,), ns())
    C = type("C", (A, B), ns()); D = type("D", (C,), ns())
    return {"R": R, "A": A, "B": B, "C": C, "D": D, "base": b}


def make_extractor(kind, tag):
    if kind == "fresh": return lambda e: {"ex_tag": tag, "nargs": len(e.args)}
    if kind == "empty": return lambda e: {}
    if kind == "collide":
        return lambda e: {"reason": "EXTRACTOR-REASON", "exception": "extractor.Exc", "action_status": "succeeded", "extra": tag}
    if kind == "collide_ident":
        return lambda e: {"task_uuid": "bogus-uuid", "task_level": [9, 9], "timestamp": -1.0, "action_type": "bogus:type", "extra2": tag}
    if kind == "raise_exc":
        def x(e): raise RuntimeError("extractor %s broke" % tag)
        return x
    if kind == "raise_base":
        def x(e): raise KeyboardInterrupt("extractor %s interrupted" % tag)
        return x
    if kind == "raise_self":
        def x(e): raise type(e)(*e.args)
        return x
    if kind == "raise_badstr":
        def x(e): raise BadStr(tag)
        return x
    raise ValueError(kind)


def expected_extras(entry, exc):
    """entry: mirror value (kind, tag) or None -> (dict of extra fields expected on the failed end, raises?)"""
    if entry is None: return {}, False
    kind, tag = entry
    if kind == "errno": return {"errno": exc.errno}, False
    if kind == "fresh": return {"ex_tag": tag, "nargs": len(exc.args)}, False
    if kind == "empty": return {}, False
    if kind == "collide": return {"extra": tag}, False
    if kind == "collide_ident": return {"extra2": tag}, False
    return {}, True


def qualname(exc):
    return "%s.%s" % (type(exc).__module__, type(exc).__name__)


def text_of(exc):
    try:
        return str(exc)
    except BaseException:
        return STR_FAILED


def short(o, n=160):
    try:
        s = repr(o)
    except BaseException:
        s = "<unrepr-able %s>" % type(o).__name__
    return s if len(s) <= n else s[:n] + "..."


def snapshot(exc):
    try:
        d = {k: copy.deepcopy(v) for k, v in vars(exc).items()}
    except BaseException:
        d = None
    return (exc.args, d)


class _Park:
    def __await__(self):
        yield "parked"


_LOOP = [None]


def get_loop():
    if _LOOP[0] is None:
        _LOOP[0] = asyncio.new_event_loop()
    return _LOOP[0]


class Rec(object):
    def __init__(self, i, at, lv):
        self.i = i; self.at = at; self.lv = lv; self.act = None; self.inner = None; self.outer = None
        self.own_exc = None; self.own_snap = None; self.raised_own = False; self.sf = None; self.ff = None
        self.retval_ok = True


# ---------------------------------------------------------------------------------------------- scenario runner
class Runner(object):
    def __init__(self, sc):
        self.sc = sc
        self.problems = []          # (kind, text)
        self.mem = MemoryLogger() if sc["logger"] == "memory" else None
        self.logger = self.mem
        self.sink = []
        self.hier = make_hier(sc.get("base", "Exception"))
        self.base = sc.get("base", "Exception")
        self.mirror = {OSError: ("errno", None)}   # documented default: EnvironmentError -> errno
        self.nreg = 0
        self.ntask = 0

    def problem(self, kind, text):
        if len(self.problems) < 40:
            self.problems.append((kind, text))

    def msgs(self):
        return self.mem.messages if self.mem is not None else self.sink

    # -- helpers
    def new_exc(self, key):
        if key.startswith("H:"):
            cls = self.hier[key[2:]]
            e = cls(7, "h-" + key[2:]) if self.base == "OSError" else cls("h-" + key[2:])
            e.details = {"d": key}
            return e
        return EXC[key]()

    def resolve(self, exc):
        for k in type(exc).__mro__:
            if k in self.mirror:
                return self.mirror[k]
        return None

    def do_reg(self, clskey, kind):
        self.nreg += 1
        tag = "%s#%d" % (clskey, self.nreg)
        cls = self.hier[clskey]
        try:
            register_exception_extractor(cls, make_extractor(kind, tag))
        except BaseException as e:
            self.problem("api_raised", "register_exception_extractor raised %s" % short(e))
        self.mirror[cls] = (kind, tag)

    # -- making actions
    def make_action(self, rec):
        lv = rec.lv; mk = lv["mk"]; at = rec.at; lg = self.logger
        if mk == "typed":
            rec.sf = {"a": 1}; rec.ff = {"r": 2}
            AT = ActionType(at, [Field.for_types("a", [int], "")], [Field.for_types("r", [int], "")], "c03")
            return AT(lg, a=1) if rec.i % 2 == 0 else AT.as_task(lg, a=1)
        rec.sf = SF[lv["sf"]]; rec.ff = FF[lv["ff"]]
        sf = copy.deepcopy(rec.sf)
        if mk == "start_action":
            return start_action(lg, action_type=at, **sf)
        if mk == "start_task":
            return start_task(lg, action_type=at, **sf)
        if mk == "continue_task":
            cur = current_action()
            self.ntask += 1
            if cur is not None and self.ntask % 2:
                tid = cur.serialize_task_id()
                if self.ntask % 4 == 1: tid = tid.decode("ascii")
            else:
                tid = "c03-remote-%d@/%d/2" % (self.ntask, self.ntask)
                if self.ntask % 4 == 0: tid = tid.encode("ascii")
            return Action.continue_task(lg, task_id=tid, action_type=at, **sf)
        raise ValueError(mk)

    # -- the body of a level: messages, success fields, child, own exit
    def pre_child(self, rec):
        act = rec.act
        ff = copy.deepcopy(rec.ff)
        keys = sorted(ff)
        first = {k: ff[k] for k in keys[: len(keys) // 2]}; second = {k: ff[k] for k in keys[len(keys) // 2:]}
        if rec.lv["style"] != "manual":
            log_message(message_type="c03:msg", lvl=rec.i)
        else:
            act.log(message_type="c03:msg", lvl=rec.i)
        act.add_success_fields(**first)
        if rec.i + 1 < len(self.levels):
            self.run_boundary(rec.i + 1)
        act.addSuccessFields(**second)

    def prepare_own(self, rec):
        own = rec.lv["own"]
        if own[0] == "raise":
            rec.own_exc = self.new_exc(own[1])
        elif own[0] == "cancel" and rec.lv["style"] != "async_task":
            rec.own_exc = asyncio.CancelledError("thrown in")
        if rec.own_exc is not None:
            rec.own_snap = snapshot(rec.own_exc)

    def own_exit(self, rec):
        """the part of the body after the child: only for styles where the body raises by itself"""
        own = rec.lv["own"]
        if own[0] == "ok":
            if own[1] == "caught":
                try:
                    raise ValueError("caught inside the body")
                except ValueError:
                    pass
            return
        rec.raised_own = True
        raise rec.own_exc

    def body(self, rec):
        try:
            self.pre_child(rec)
            self.own_exit(rec)
        except BaseException as e:
            rec.inner = e
            raise

    # -- styles
    def run_level(self, i):
        lv = self.levels[i]
        rec = Rec(i, "c03:s%d:L%d" % (self.step, i), lv)
        self.recs.append(rec)
        self.prepare_own(rec)
        style = lv["style"]
        try:
            if lv["mk"] == "log_call":
                self.style_log_call(rec)
            else:
                getattr(self, "style_" + style)(rec)
        except BaseException:
            self.do_repeats(rec)
            raise
        self.do_repeats(rec)

    def style_with(self, rec):
        how = rec.lv["own"][1] if rec.lv["own"][0] == "ok" else "fall"
        try:
            if how == "return":
                def f():
                    with self.make_action(rec) as a:
                        rec.act = a
                        self.body(rec)
                        return 1
                    return 2
                if f() != 1: self.problem("control_flow", "return inside with did not return its value")
            elif how == "break":
                n = 0
                for _ in (1, 2):
                    n += 1
                    with self.make_action(rec) as a:
                        rec.act = a
                        self.body(rec)
                        break
                if n != 1: self.problem("control_flow", "break inside with did not leave the loop")
            elif how == "continue":
                n = 0
                for _ in (1,):
                    with self.make_action(rec) as a:
                        rec.act = a
                        self.body(rec)
                        continue
                    n += 1
                if n != 0: self.problem("control_flow", "continue inside with fell through")
            else:
                with self.make_action(rec) as a:
                    rec.act = a
                    self.body(rec)
        except BaseException as e:
            rec.outer = e
            raise

    def _finish_after(self, rec, fn):
        try:
            fn()
        except BaseException as e:
            try:
                rec.act.finish(e)
            except BaseException as e2:
                self.problem("api_raised", "finish(%s) raised %s" % (short(e), short(e2)))
            rec.outer = e
            raise
        else:
            try:
                rec.act.finish()
            except BaseException as e2:
                self.problem("api_raised", "finish() raised %s" % short(e2))

    def style_ctx_finish(self, rec):
        rec.act = self.make_action(rec)
        def fn():
            with rec.act.context():
                self.body(rec)
        self._finish_after(rec, fn)

    def style_run_finish(self, rec):
        rec.act = self.make_action(rec)
        self._finish_after(rec, lambda: rec.act.run(self.body, rec))

    def style_manual(self, rec):
        rec.act = self.make_action(rec)
        self._finish_after(rec, lambda: self.body(rec))

    def style_log_call(self, rec):
        lv = rec.lv
        rec.sf = {"p": 1, "q": "s"} if rec.i % 2 == 0 else {"p": 1}
        rec.ff = dict(FF[lv["ff"]]); rec.ff["result"] = 7
        runner = self

        @log_call(action_type=rec.at, include_args=(None if rec.i % 2 == 0 else ["p"]))
        def wrapped(p, q="s"):
            rec.act = current_action()
            saved = rec.ff
            rec.ff = {k: v for k, v in saved.items() if k != "result"}
            try:
                runner.body(rec)
            finally:
                rec.ff = saved
            return 7
        try:
            if wrapped(1, q="s") != 7:
                self.problem("control_flow", "log_call changed the return value")
        except BaseException as e:
            rec.outer = e
            raise

    def style_gen(self, rec):
        own = rec.lv["own"]
        def g():
            try:
                with self.make_action(rec) as a:
                    try:
                        rec.act = a
                        self.pre_child(rec)
                        yield "parked"
                    except BaseException as e:
                        rec.inner = e
                        raise
            except BaseException as e:
                rec.outer = e       # do not cross the generator boundary (StopIteration -> RuntimeError etc.)
        it = g()
        try:
            v = next(it)
        except StopIteration:
            v = None
        closed = False
        if v == "parked":
            try:
                if own[0] == "close":
                    closed = True; it.close()
                elif own[0] in ("raise", "cancel"):
                    rec.raised_own = True; it.throw(rec.own_exc)
                else:
                    next(it)
            except StopIteration:
                pass
        if rec.outer is not None and not closed:
            raise rec.outer

    def style_coro(self, rec):
        own = rec.lv["own"]
        async def co():
            try:
                with self.make_action(rec) as a:
                    try:
                        rec.act = a
                        self.pre_child(rec)
                        await _Park()
                    except BaseException as e:
                        rec.inner = e
                        raise
            except BaseException as e:
                rec.outer = e
        c = co()
        try:
            v = c.send(None)
        except StopIteration:
            v = None
        closed = False
        if v == "parked":
            try:
                if own[0] == "close":
                    closed = True; c.close()
                elif own[0] in ("raise", "cancel"):
                    rec.raised_own = True; c.throw(rec.own_exc)
                else:
                    c.send(None)
            except StopIteration:
                pass
        if rec.outer is not None and not closed:
            raise rec.outer

    def style_async_task(self, rec):
        own = rec.lv["own"]
        loop = get_loop()
        parked = loop.create_future(); release = loop.create_future()
        async def co():
            try:
                with self.make_action(rec) as a:
                    try:
                        rec.act = a
                        self.pre_child(rec)
                        parked.set_result(None)
                        await release
                        if own[0] == "raise":
                            rec.raised_own = True
                            raise rec.own_exc
                    except BaseException as e:
                        rec.inner = e
                        raise
            except BaseException as e:
                rec.outer = e
        task = loop.create_task(co())
        try:
            loop.run_until_complete(asyncio.wait([parked, task], return_when=asyncio.FIRST_COMPLETED))
            if not task.done():
                if own[0] == "cancel":
                    task.cancel("c03 cancel")      # a real cancellation delivered at the await
                else:
                    release.set_result(None)
                loop.run_until_complete(task)
        finally:
            for f in (parked, release):
                if not f.done(): f.cancel()
        if rec.outer is not None:
            raise rec.outer

    # -- after the end: finishing again must emit nothing
    def do_repeats(self, rec):
        act = rec.act
        if act is None:
            return
        for op in rec.lv["rep"]:
            n0 = len(self.msgs())
            try:
                if op == "finish": act.finish()
                elif op == "finish_exc": act.finish(ValueError("late"))
                elif op == "finish_base": act.finish(KeyboardInterrupt())
                elif op == "with_again":
                    with act: pass
                elif op == "with_again_raise":
                    marker = KeyError("again")
                    try:
                        with act: raise marker
                    except KeyError as e:
                        if e is not marker: self.problem("identity", "re-entered finished action changed the exception")
                    else:
                        self.problem("not_propagated", "re-entered finished action swallowed the exception")
            except BaseException as e:
                self.problem("api_raised", "repeat op %s raised %s" % (op, short(e)))
            if len(self.msgs()) != n0:
                self.problem("repeat_finish_emitted", "L%d: %s on an already finished action emitted %s" % (rec.i, op, short(self.msgs()[n0:])))

    # -- boundary between a level and its parent
    def run_boundary(self, i):
        lv = self.levels[i]; b = lv["b"]
        if b == "pass":
            return self.run_level(i)
        try:
            self.run_level(i)
        except BaseException as e:
            if b == "swallow":
                return
            if b == "swallow_tb":
                entry = self.resolve(e)
                if entry is not None and entry[0] == "collide":
                    return      # extractor keys colliding with the traceback message's own fields: not this property
                _, raising = expected_extras(entry, e)
                self.exp_tb += 2 if raising else 1
                try:
                    write_traceback(self.logger)
                except BaseException as e2:
                    self.problem("api_raised", "write_traceback raised %s" % short(e2))
                return
            if b == "reraise":
                raise
            new = self.new_exc(lv["texc"])
            if b == "translate":
                raise new from e
            raise new from None

    # -- steps
    def run_tree(self, levels):
        self.levels = levels; self.recs = []; self.exp_tb = 0
        n0 = len(self.msgs())
        try:
            self.run_boundary(0)
        except BaseException:
            pass
        # final sweep: finishing every action once more emits nothing
        n1 = len(self.msgs())
        for rec in self.recs:
            if rec.act is not None:
                try:
                    rec.act.finish()
                except BaseException as e:
                    self.problem("api_raised", "late finish() raised %s" % short(e))
        if len(self.msgs()) != n1:
            self.problem("repeat_finish_emitted", "finishing all actions again emitted %s" % short(self.msgs()[n1:]))
        self.check_step(n0)

    def run_tb(self, clskey):
        exc = self.new_exc("H:" + clskey)
        entry = self.resolve(exc)
        extras, raising = expected_extras(entry, exc)
        if entry is not None and entry[0] == "collide":
            return
        n0 = len(self.msgs())
        at = "c03:s%d:tb" % self.step
        try:
            with start_action(self.logger, action_type=at):
                try:
                    raise exc
                except BaseException:
                    write_traceback(self.logger)
        except BaseException as e:
            self.problem("api_raised", "write_traceback scenario raised %s" % short(e))
        m = self.msgs()[n0:]
        tbs = [x for x in m if x.get("message_type") == "eliot:traceback"]
        if len(tbs) != (2 if raising else 1):
            self.problem("traceback_count", "write_traceback step: %d traceback messages" % len(tbs))
        elif entry is not None and entry[0] == "fresh":
            got = {k: tbs[-1].get(k) for k in extras}
            if got != extras:
                self.problem("extractor_fields", "traceback message has %s, nearest extractor gives %s" % (short(got), short(extras)))
        elif entry is None and ("ex_tag" in tbs[-1] or "extra" in tbs[-1] or "extra2" in tbs[-1]):
            self.problem("extractor_fields", "traceback message has extractor fields but no class on the MRO has one: %s" % short(tbs[-1]))
        st = [x.get("action_status") for x in m if x.get("action_type") == at]
        if st != ["started", "succeeded"]:
            self.problem("end_count", "action around write_traceback logged statuses %s" % st)

    def run(self):
        snap = dict(_EE.registry) if _EE is not None and hasattr(_EE, "registry") else None
        if self.mem is None:
            add_destinations(self.sink.append)
        try:
            for n, step in enumerate(self.sc["steps"]):
                self.step = n
                if step[0] == "reg": self.do_reg(step[1], step[2])
                elif step[0] == "run": self.run_tree(step[1])
                elif step[0] == "fail": self.run_tree(fail_levels(step[1], step[2]))
                elif step[0] == "tb": self.run_tb(step[1])
                else: raise ValueError(step)
            if self.mem is not None:
                try:
                    self.mem.validate()
                except BaseException as e:
                    self.problem("memorylogger_validate", "MemoryLogger.validate() raised %s" % short(e))
        finally:
            if self.mem is None:
                remove_destination(self.sink.append)
            if snap is not None:
                _EE.registry.clear(); _EE.registry.update(snap)
                if hasattr(_EE, "_resolved"):
                    try: _EE._resolved.clear()
                    except Exception: pass
        return self.problems

    # -- the checks
    def check_step(self, n0):
        P = self.problem
        msgs = self.msgs()[n0:]
        types_ = {r.at: r for r in self.recs}
        starts = {r.at: [] for r in self.recs}; ends = {r.at: [] for r in self.recs}
        ntb = 0
        for idx, m in enumerate(msgs):
            if not isinstance(m, dict):
                P("unexpected_message", "non-dict message %s" % short(m)); continue
            at = m.get("action_type"); mt = m.get("message_type")
            if mt == "eliot:traceback":
                ntb += 1
            elif at in types_ and mt is None:
                st = m.get("action_status")
                if st == "started": starts[at].append(idx)
                elif st in ("succeeded", "failed"): ends[at].append(idx)
                else: P("status", "message of %s with action_status %s" % (at, short(st)))
            elif mt == "c03:msg" and at is None and "action_status" not in m:
                pass
            else:
                P("unexpected_message", short(m))
        exp_tb = self.exp_tb
        for r in self.recs:
            tag = "L%d(%s/%s/%s)" % (r.i, r.lv["mk"], r.lv["style"], "-".join(map(str, r.lv["own"])))
            si, ei = starts[r.at], ends[r.at]
            if len(si) != 1: P("start_count", "%s: %d start messages" % (tag, len(si)))
            if len(ei) != 1: P("end_count", "%s: %d end messages (body exception: %s)" % (tag, len(ei), short(r.inner)))
            # propagation / identity (independent of the log)
            if r.inner is None:
                if r.outer is not None:
                    P("spurious_exception", "%s: body exited normally but %s left the block" % (tag, short(r.outer)))
            else:
                if r.outer is None:
                    P("not_propagated", "%s: %s escaped the body but nothing left the block" % (tag, short(r.inner)))
                elif r.outer is not r.inner:
                    P("identity", "%s: %s escaped the body but %s left the block" % (tag, short(r.inner), short(r.outer)))
            if r.raised_own:
                if r.inner is not r.own_exc:
                    P("identity", "%s: raised %s but the body saw %s" % (tag, short(r.own_exc), short(r.inner)))
                if r.own_snap is not None and snapshot(r.own_exc) != r.own_snap:
                    P("exception_state_mutated", "%s: exception state changed from %s to %s" % (tag, short(r.own_snap), short(snapshot(r.own_exc))))
            if len(si) != 1 or len(ei) != 1:
                continue
            s = msgs[si[0]]; e = msgs[ei[0]]
            # structure
            try:
                ok = (isinstance(s["task_uuid"], str) and s["task_uuid"] == e["task_uuid"] and isinstance(s["task_level"], list)
                      and isinstance(e["task_level"], list) and s["task_level"][:-1] == e["task_level"][:-1]
                      and s["task_level"][-1] == 1 and e["task_level"][-1] >= 2 and si[0] < ei[0]
                      and isinstance(s["timestamp"], float) and isinstance(e["timestamp"], float) and s["timestamp"] <= e["timestamp"])
            except BaseException:
                ok = False
            if not ok:
                P("structure", "%s: start %s / end %s do not frame one action" % (tag, short(s), short(e)))
            else:
                pre = s["task_level"][:-1]; u = s["task_uuid"]; k = len(pre)
                for idx, m in enumerate(msgs):
                    if isinstance(m, dict) and m.get("task_uuid") == u and isinstance(m.get("task_level"), list) \
                            and len(m["task_level"]) > k and m["task_level"][:k] == pre and m is not e:
                        if m["task_level"][k] >= e["task_level"][-1] or idx > ei[0]:
                            P("order", "%s: message %s is not before the end message %s" % (tag, short(m), short(e["task_level"])))
                            break
            # start message: exactly the start fields plus eliot's own keys (which win)
            exp_s = {k_: v for k_, v in r.sf.items() if k_ not in RESERVED}
            got_s = {k_: v for k_, v in s.items() if k_ not in RESERVED}
            if got_s != exp_s or not all(k_ in s for k_ in RESERVED):
                P("start_fields", "%s: start message %s, expected extra fields %s" % (tag, short(s), short(exp_s)))
            got_e = {k_: v for k_, v in e.items() if k_ not in RESERVED}
            if not all(k_ in e for k_ in RESERVED):
                P("structure", "%s: end message lacks some of %s: %s" % (tag, RESERVED, short(e)))
            if r.inner is None:
                if e.get("action_status") != "succeeded":
                    P("status", "%s: body exited normally, end status %s" % (tag, short(e.get("action_status"))))
                exp_e = {k_: v for k_, v in r.ff.items() if k_ not in RESERVED}
                if got_e != exp_e:
                    P("success_fields", "%s: successful end has %s, expected %s" % (tag, short(got_e), short(exp_e)))
            else:
                exc = r.inner
                if e.get("action_status") != "failed":
                    P("status", "%s: %s escaped the body, end status %s" % (tag, qualname(exc), short(e.get("action_status"))))
                entry = self.resolve(exc)
                extras, raising = expected_extras(entry, exc)
                if e.get("exception") != qualname(exc):
                    P("exception_name", "%s: end exception=%s, expected %s" % (tag, short(e.get("exception")), qualname(exc)))
                if e.get("reason") != text_of(exc):
                    P("reason", "%s: end reason=%s, expected %s" % (tag, short(e.get("reason")), short(text_of(exc))))
                exp_e = dict(extras);
                got_x = {k_: v for k_, v in got_e.items() if k_ not in ("exception", "reason")}
                if got_x != exp_e:
                    kind = "extractor_fields"
                    if any(k_ in got_x and k_ not in exp_e for k_ in list(r.ff) + list(r.sf)): kind = "field_leak"
                    P(kind, "%s: failed end for %s has extra fields %s, expected %s (nearest extractor: %s)" % (tag, qualname(exc), short(got_x), short(exp_e), entry))
                if raising:
                    exp_tb += 1
                    if ei[0] == 0 or msgs[ei[0] - 1].get("message_type") != "eliot:traceback":
                        P("traceback_count", "%s: raising extractor, but no traceback message right before the end message" % tag)
        if ntb != exp_tb:
            P("traceback_count", "%d eliot:traceback messages, expected %d" % (ntb, exp_tb))


def fail_levels(clskey, depth):
    lv = []
    for d in range(depth):
        lv.append({"mk": "start_action", "style": "with", "own": ["ok", "fall"] if d < depth - 1 else ["raise", "H:" + clskey],
                   "b": "pass", "texc": "ValueError", "sf": 1 if d == 0 else 0, "ff": 1, "rep": []})
    return lv


# ---------------------------------------------------------------------------------------------- "odd" probes
def run_odd(sc):
    """corner probes around what the extractor returns; returns list of (signature, text)"""
    out = []
    probe = sc["probe"]; use_mem = sc.get("logger") == "memory"
    mem = MemoryLogger() if use_mem else None
    sink = []
    msgs = (lambda: mem.messages) if use_mem else (lambda: sink)
    hier = make_hier("Exception")
    R, D = hier["R"], hier["D"]
    snap = dict(_EE.registry) if _EE is not None and hasattr(_EE, "registry") else None
    if not use_mem: add_destinations(sink.append)
    try:
        if probe in ("nondict_none", "nondict_proxy", "nondict_list"):
            ret = {"nondict_none": None, "nondict_proxy": types.MappingProxyType({"m": 1}), "nondict_list": [("m", 1)]}[probe]
            register_exception_extractor(R, lambda e: ret)
            for depth in (1, 2):
                exc = D("boom"); seen = None; n0 = len(msgs())
                try:
                    with start_action(mem, action_type="c03:odd:o"):
                        if depth == 2:
                            with start_action(mem, action_type="c03:odd:i"):
                                raise exc
                        raise exc
                except BaseException as e:
                    seen = e
                if seen is not exc:
                    out.append(({"kind": "extractor_non_dict", "symptom": "exception_replaced"},
                                "extractor returned %s: raised %s, caller got %s" % (short(ret), short(exc), short(seen))))
                ends = [m for m in msgs()[n0:] if m.get("action_status") in ("failed", "succeeded")]
                if len(ends) != depth:
                    out.append(({"kind": "extractor_non_dict", "symptom": "no_end_message"},
                                "extractor returned %s: %d nested failing actions logged %d end messages" % (short(ret), depth, len(ends))))
                else:
                    for m in ends:
                        if m.get("action_status") != "failed" or m.get("exception") != qualname(exc) or m.get("reason") != "boom":
                            out.append(({"kind": "extractor_non_dict", "symptom": "wrong_end"}, short(m)))
        elif probe in ("shared_dict", "owned_dict"):
            shared = {"sh": 1}
            if probe == "shared_dict":
                register_exception_extractor(R, lambda e: shared)
            else:
                register_exception_extractor(R, lambda e: e.details)
            for rnd in range(2):
                exc = D("boom%d" % rnd); exc.details = {"sh": 1}; seen = None; n0 = len(msgs())
                try:
                    with start_action(mem, action_type="c03:odd:o%d" % rnd):
                        with start_action(mem, action_type="c03:odd:i%d" % rnd):
                            raise exc
                except BaseException as e:
                    seen = e
                if seen is not exc:
                    out.append(({"kind": "identity", "probe": probe}, "caller got %s" % short(seen)))
                if not use_mem:
                    ends = [dict(m) for m in msgs()[n0:] if m.get("action_status") == "failed"]
                    types_ = sorted(m.get("action_type") for m in ends)
                    if types_ != ["c03:odd:i%d" % rnd, "c03:odd:o%d" % rnd]:
                        out.append(({"kind": "end_count", "probe": probe}, "failed end messages for %s" % types_))
                    for m in ends:
                        x = {k: v for k, v in m.items() if k not in RESERVED}
                        if x != {"sh": 1, "exception": qualname(exc), "reason": "boom%d" % rnd}:
                            out.append(({"kind": "extractor_fields", "probe": probe}, short(m)))
                owner_dict = shared if probe == "shared_dict" else exc.details
                if owner_dict != {"sh": 1}:
                    out.append(({"kind": "extractor_dict_mutated", "owner": "shared" if probe == "shared_dict" else "exception"},
                                "dict returned by the extractor is now %s" % short(owner_dict)))
            if use_mem:
                # MemoryLogger keeps the very dict: count end messages per action type at the end
                all_ends = [m for m in msgs() if m.get("action_status") == "failed"]
                per = {}
                for m in all_ends: per[m.get("action_type")] = per.get(m.get("action_type"), 0) + 1
                want = {"c03:odd:%s%d" % (a, r): 1 for a in "io" for r in range(2)}
                if per != want:
                    out.append(({"kind": "extractor_dict_mutated", "symptom": "memorylogger_end_aliased"},
                                "stored failed end messages per action type: %s, expected one each of %s" % (per, sorted(want))))
        elif probe == "shared_dict_tb":
            shared = {"sh": 1}
            register_exception_extractor(R, lambda e: shared)
            with start_action(mem, action_type="c03:odd:outer"):
                try:
                    with start_action(mem, action_type="c03:odd:inner"):
                        raise D("boom")
                except D:
                    write_traceback(mem)
            bad = [m for m in msgs() if m.get("message_type") == "eliot:traceback" and ("action_status" in m or "action_type" in m)]
            if bad:
                out.append(({"kind": "extractor_dict_mutated", "symptom": "traceback_carries_action_fields"},
                            "traceback message logged inside c03:odd:outer has action_status=%r action_type=%r" % (bad[0].get("action_status"), bad[0].get("action_type"))))
            if any(m.get("message_type") == "eliot:serialization_failure" for m in msgs()):
                out.append(({"kind": "extractor_dict_mutated", "symptom": "traceback_serialization_failure"},
                            "write_traceback() after the failed action: the traceback message is replaced by eliot:serialization_failure "
                            "(polluted dict overrides its 'exception' field with a string)"))
            ends = [m.get("action_type") for m in msgs() if m.get("message_type") is None and m.get("action_status") in ("failed", "succeeded")]
            if sorted(ends) != ["c03:odd:inner", "c03:odd:outer"] and not use_mem:
                out.append(({"kind": "end_count", "probe": probe}, "end messages: %s" % ends))
        else:
            raise ValueError(probe)
    finally:
        if not use_mem: remove_destination(sink.append)
        if snap is not None:
            _EE.registry.clear(); _EE.registry.update(snap)
            if hasattr(_EE, "_resolved"):
                try: _EE._resolved.clear()
                except Exception: pass
    return out


ODD = [{"fam": "odd", "probe": p, "logger": lg} for p in ("nondict_none", "nondict_proxy", "nondict_list", "shared_dict", "owned_dict", "shared_dict_tb")
       for lg in ("default", "memory")]


# ---------------------------------------------------------------------------------------------- enumeration
def normalize(sc):
    if sc.get("fam") == "odd":
        return sc
    sc = json.loads(json.dumps(sc))
    for step in sc["steps"]:
        if step[0] != "run": continue
        in_async = False
        for lv in step[1]:
            if lv["mk"] == "log_call" and sc["logger"] == "memory": lv["mk"] = "start_action"
            if lv["mk"] == "log_call": lv["style"] = "with"
            if lv["style"] == "async_task":
                if in_async: lv["style"] = "coro"
                else: in_async = True
            st = lv["style"]; own = lv["own"]
            if own[0] == "close" and st not in ("gen", "coro"): own = ["raise", "GeneratorExit"]
            if own[0] == "cancel" and st not in ("gen", "coro", "async_task"): own = ["raise", "CancelledError"]
            if own[0] == "ok" and st in ("gen", "coro", "async_task"): own = ["ok", "fall"]
            if own[0] == "ok" and own[1] in ("return", "break", "continue") and st != "with": own = ["ok", "fall"]
            # thrown into a hand-driven coroutine it would cross the awaitable's generator frame (PEP 479)
            if own == ["raise", "StopIteration"] and st == "coro": own = ["raise", "StopAsyncIteration"]
            lv["own"] = own
            if lv["mk"] in ("typed", "log_call"): lv["sf"] = 0
            if lv["mk"] == "typed": lv["ff"] = 0
            if lv["b"] not in ("translate", "translate_nochain"): lv["texc"] = "ValueError"
    return sc


def rand_own(rng):
    r = rng.random()
    if r < 0.3: return ["ok", rng.choice(OK_HOWS)]
    if r < 0.9: return ["raise", rng.choice(H_KEYS) if rng.random() < 0.5 else rng.choice(EXC_KEYS)]
    return ["close"] if r < 0.95 else ["cancel"]


def rand_level(rng, **fixed):
    lv = {"mk": rng.choice(MKS), "style": rng.choice(STYLES), "own": rand_own(rng),
          "b": "pass" if rng.random() < 0.4 else rng.choice(BOUNDS), "texc": rng.choice(EXC_KEYS + H_KEYS),
          "sf": rng.randrange(len(SF)), "ff": rng.randrange(len(FF)),
          "rep": [rng.choice(REPS) for _ in range(rng.choice([0, 0, 1, 2, 3]))]}
    lv.update(fixed)
    return lv


def rand_regs(rng):
    return [["reg", rng.choice(REG_CLS), rng.choice(KINDS)] for _ in range(rng.choice([0, 1, 1, 2, 3]))]


def enumerate_scenarios(tier, seed):
    rng = random.Random(seed)
    quick = tier == "quick"
    # T1: every (maker, style, body exit incl. every exception class) at depth 1, both loggers
    for mk, st, own, lg in itertools.product(MKS, STYLES, OWN_ALL, ("default", "memory")):
        yield {"fam": "tree", "logger": lg, "base": rng.choice(BASE_KEYS),
               "steps": rand_regs(rng) + [["run", [rand_level(rng, mk=mk, style=st, own=list(own))]]]}
    # T1b: every exception class x every extractor kind registered on its nearest hierarchy class / root, depth 2
    for own, kind, where, base in itertools.product([o for o in OWN_ALL if o[0] == "raise"], KINDS, ("D", "A", "base"), BASE_KEYS):
        if quick and rng.random() < 0.6: continue
        yield {"fam": "tree", "logger": rng.choice(("default", "memory")), "base": base,
               "steps": [["reg", where, kind], ["run", [rand_level(rng, b=rng.choice(BOUNDS)), rand_level(rng, own=list(own), b="pass")]]]}
    # T2: exhaustive small alphabet at depth 2 (and sampled depth 3/4)
    small_styles = ["with", "ctx_finish", "gen", "async_task"]
    small_own = [["ok", "fall"], ["raise", "ValueError"], ["raise", "KeyboardInterrupt"], ["raise", "H:D"]]
    small_b = ["pass", "swallow", "translate"]
    alpha = list(itertools.product(small_styles, small_own, small_b))
    for depth, cap in ((2, None), (3, 1200 if quick else 40000), (4, 300 if quick else 30000)):
        combos = itertools.product(alpha, repeat=depth)
        if cap is not None:
            total = len(alpha) ** depth
            picks = set(rng.sample(range(total), min(cap, total)))
            combos = (c for n, c in enumerate(combos) if n in picks)
        for c in combos:
            yield {"fam": "tree", "logger": rng.choice(("default", "memory")), "base": rng.choice(BASE_KEYS), "steps": rand_regs(rng) + [
                ["run", [rand_level(rng, style=s, own=list(o), b=b, mk=rng.choice(MKS[:4])) for (s, o, b) in c]]]}
    # H: histories of registrations and failures over the hierarchy: exhaustive up to length 3 (4 in thorough)
    alpha_h = [["reg", c, "fresh"] for c in REG_CLS] + [["fail", c, 1] for c in "RABCD"]
    for n in range(1, 4 if quick else 5):
        for seq in itertools.product(alpha_h, repeat=n):
            if not any(s[0] == "fail" for s in seq): continue
            yield {"fam": "hist", "logger": rng.choice(("default", "memory")), "base": rng.choice(BASE_KEYS), "steps": [list(s) for s in seq]}
    # H random: longer histories, all extractor kinds, write_traceback steps, depth-2 failures
    for _ in range(1500 if quick else 60000):
        steps = []
        for _ in range(rng.randrange(3, 9)):
            r = rng.random()
            if r < 0.45: steps.append(["reg", rng.choice(REG_CLS), rng.choice(KINDS)])
            elif r < 0.9: steps.append(["fail", rng.choice("RABCD"), rng.choice((1, 2))])
            else: steps.append(["tb", rng.choice("RABCD")])
        yield {"fam": "hist", "logger": rng.choice(("default", "memory")), "base": rng.choice(BASE_KEYS), "steps": steps}
    # T3: random programs of depth 1..5, one or two runs with registrations in between
    for _ in range(4000 if quick else 150000):
        steps = rand_regs(rng) + [["run", [rand_level(rng) for _ in range(rng.randrange(1, 6))]]]
        if rng.random() < 0.3:
            steps += rand_regs(rng) + [["run", [rand_level(rng) for _ in range(rng.randrange(1, 4))]]]
        yield {"fam": "tree", "logger": rng.choice(("default", "memory")), "base": rng.choice(BASE_KEYS), "steps": steps}
    for sc in ODD:
        yield sc


def run_scenario(sc):
    """returns list of (signature dict, text)"""
    if sc.get("fam") == "odd":
        try:
            return contextvars.copy_context().run(run_odd, sc)
        except BaseException as e:
            return [({"kind": "harness_exception", "fam": "odd"}, "probe raised %s" % short(e))]
    r = Runner(sc)
    try:
        probs = contextvars.copy_context().run(r.run)
    except BaseException as e:
        import traceback as _tb
        sys.stderr.write("".join(_tb.format_exception(type(e), e, e.__traceback__)))
        probs = r.problems + [("harness_exception", "scenario raised %s" % short(e))]
    return [({"kind": k, "fam": sc.get("fam", "tree")}, t) for k, t in probs]



def handler_probes():
    """an action whose body completes normally *while the caller is handling another exception* (inside `except:` / a `finally:` during
    propagation) must still end 'succeeded' with its success fields: the end status is 'failed' exactly when an exception escaped the body
    (found missing by seeded change C03-4)"""
    from eliot import start_action, Logger
    import eliot._output as _o
    out = []; n = 0
    def collect(run):
        msgs = []
        saved = Logger._destinations
        Logger._destinations = d = _o.Destinations()
        try:
            d.add(msgs.append); run()
        finally:
            Logger._destinations = saved
        return msgs
    def with_style():
        with start_action(action_type="probe") as a:
            a.add_success_fields(done=1)
    def explicit_style():
        a = start_action(action_type="probe"); a.add_success_fields(done=1); a.finish()
    def run_style():
        a = start_action(action_type="probe"); a.run(lambda: a.add_success_fields(done=1)); a.finish()
    def in_except(body):
        try: raise KeyError("outer")
        except KeyError: body()
    def in_finally(body):
        try:
            try: raise KeyError("outer")
            finally: body()
        except KeyError: pass
    for sname, body in (("with", with_style), ("explicit-finish", explicit_style), ("run-then-finish", run_style)):
        for wname, where in (("except", in_except), ("finally-during-propagation", in_finally)):
            n += 1
            msgs = collect(lambda: where(body))
            ends = [m for m in msgs if m.get("action_type") == "probe" and m.get("action_status") != "started"]
            ok = len(ends) == 1 and ends[0].get("action_status") == "succeeded" and ends[0].get("done") == 1 and "exception" not in ends[0]
            if not ok:
                out.append(({"clause": "end-status-truthful", "family": "successful-action-inside-a-handler", "style": sname, "where": wname},
                            "end messages: %s" % short([{k: v for k, v in m.items() if k not in ("timestamp", "task_uuid")} for m in ends])))
    return n, out

def main():
    t0 = time.time()
    fails = {}; known = {}; cases = 0; seen = set(); nfailing = 0
    if args.scenario:
        scs = [json.loads(args.scenario)]
    else:
        scs = enumerate_scenarios(args.tier, args.seed)
    budget = 33 if args.tier == "quick" else 800
    truncated = False
    if not args.scenario:
        pn, pf = handler_probes()
        cases += pn
        for sig, text in pf:
            k = json.dumps(sig, sort_keys=True)
            if k not in fails and len(fails) < 5:
                fails[k] = {"signature": sig, "scenario": {"probe": "handler", "style": sig["style"], "where": sig["where"]}, "observed": [text]}
    for sc in scs:
        sc = normalize(sc)
        key = json.dumps(sc, sort_keys=True)
        if key in seen: continue
        seen.add(key); cases += 1
        res = run_scenario(sc)
        by_sig = {}
        for sig, text in res:
            by_sig.setdefault(json.dumps(sig, sort_keys=True), (sig, []))[1].append(text)
        first_unknown = True
        for k, (sig, texts) in by_sig.items():
            if sig in KNOWN_SIGS:
                if k not in known and len(known) < 8:
                    known[k] = {"signature": sig, "scenario": sc, "observed": texts[:3]}
            elif first_unknown:
                nfailing += 1
                # one failure entry per scenario, classified by its first problem; all problems listed
                first_unknown = False
                if k not in fails:
                    allt = [t for kk, (s2, tt) in by_sig.items() if s2 not in KNOWN_SIGS for t in tt]
                    fails[k] = {"signature": sig, "scenario": sc, "observed": allt[:4]}
        if len(fails) >= 5 or nfailing >= 30: break      # the tree is broken; no need to go on
        if not args.scenario and time.time() - t0 > budget:
            truncated = True; break
    if _LOOP[0] is not None:
        _LOOP[0].close()
    depth = "1..5"
    print(json.dumps({
        "cases": cases, "distinct": len(seen), "failures": list(fails.values())[:5], "known": list(known.values()),
        "bound": "6 probes of a successful action finished while the caller handles another exception; nests of depth %s (exhaustive at depth 1 over 5 ways to make x 7 ways to scope/finish x 31 body exits incl. 27 exception "
                 "classes, exhaustive at depth 2 over a 4x4x3 alphabet, sampled at depth 3-5); extractor histories over a 5-class diamond "
                 "hierarchy under 5 builtin roots, exhaustive up to length %d, random up to 8; 0-3 repeated finishes per action; tier=%s seed=%d%s"
                 % (depth, 3 if args.tier == "quick" else 4, args.tier, args.seed, " (stopped at the time budget)" if truncated else ""),
        "rule": "scenario = steps (register extractor | run a nest of actions | fail | write_traceback) on one logger; every level picks maker, "
                "scoping style, body exit, boundary handling, start/success field sets and repeated finishes; exhaustive blocks first, then "
                "seeded-random programs; distinct = distinct normalised scenario JSON; every scenario logs at least one action (non-trivial)"}))


main()
