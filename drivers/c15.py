"""Native driver for C15: decorated generators keep their own action context and stay transparent.

Real code under test: eliot._generators.eliot_friendly_generator_function and (through the Twisted stub in
/verif/stubs) eliot.twisted.inline_callbacks.

A scenario is {"gens": [{"kind": "gen"|"ic", "prog": <program>} ...], "steps": [<driver step> ...], "debug": bool}.
A program is a small tree of ops, compiled to the source of a real flat generator function (real with/try/yield/
yield from/return; generators with equal programs are instances of the same decorated function):
  ["log"] ["yield"] ["act", prog] ["try", prog, "except"|"finally", handler_prog] ["raise", "V"|"B"|"S"] ["return"]
  ["sub", "yf"|"list"|"spawn", prog]   start a nested decorated generator (yield from it / exhaust it / keep it)
  ["c", how, k, exc]                   resume kept child k (next/send/throw/close) from inside the body
Driver steps: ["enter"] ["exit"] ["log"] ["create", g] ["r", how, g, mode, exc] with mode in
  plain | copyctx | emptyctx | thread | freshtask (the context the resumption is issued from).

Every scenario is executed twice: once with the real decorators and real eliot actions ("real" run) and once with
the very same bodies undecorated and no eliot at all ("plain" run).  Oracles (all independent of eliot's helpers):
  gen-context     a model stack per generator (home = resumer's model action at first resumption, plus entered
                  actions) is compared by identity with current_action() at every op, handler, finally and unwind;
  driver-context  current_action() of whoever resumes (driver, helper thread, fresh task, parent generator body) is
                  compared before/after every resumption;
  transparency    the full event trace (yielded/sent/returned sentinels by identity, thrown/raised exceptions by
                  identity, outcomes of every next/send/throw/close, Deferred results) must equal the plain run's;
  log-tree        every logged message / action start / action end is attributed (task_uuid + task_level) to the
                  model's action, each action has exactly one start and one end with the model's status, task levels
                  are unique, contiguous and increasing; with debug on, each "yielded" message sits under the model's
                  action of the generator whose wrapper emitted it.

KNOWN_ON_UNCHANGED_TREE (reported under "known", signature {"clause": "transparency", "where": "throw-deprecation-warning-as-error"}):
  On Python >= 3.12 the wrapper forwards a thrown exception / close() with the 3-argument gen.throw(*exc_info()), which
  emits DeprecationWarning("the (type, exc, tb) signature of throw() is deprecated ...").  When warnings are errors
  (python -W error, pytest filterwarnings = error; scenarios with "werror": true) that warning is raised INSTEAD of
  delivering the exception: e.g. {"gens": [{"kind": "gen", "prog": [["act", [["yield"], ["log"], ["yield"]]], ["log"]]}],
  "steps": [["enter"], ["r", "next", 0, "plain", null], ["exit"], ["r", "throw", 0, "plain", "V"]], "werror": true}:
  throw(ValueError) (and likewise close()) comes back to the driver as DeprecationWarning, the body never sees the
  ValueError/GeneratorExit at its yield, the wrapper dies, and the body is then finalized by garbage collection in the
  DRIVER's context (its except/finally blocks and the exit of the action spanning the yield run under the wrong action;
  the action's end message is lost).  With default warning filters nothing is violated.
Not counted as a violation: "started" is taken to mean the first resumption, not the call that creates the generator
object (the wrapper copies the context at its first next()/send(None)).
"""
import argparse, contextlib, contextvars, gc, itertools, json, random, sys, threading, traceback, warnings

ap = argparse.ArgumentParser(); ap.add_argument("--tier", default="quick"); ap.add_argument("--seed", type=int, default=0)
ap.add_argument("--scenario"); args = ap.parse_args()
warnings.simplefilter("ignore")

from eliot import start_action, current_action, log_message, add_destinations, remove_destination
from eliot._generators import eliot_friendly_generator_function
try:
    import eliot.twisted as eliot_twisted
    from twisted.internet.defer import Deferred, inlineCallbacks
    from twisted.python.failure import Failure
    HAVE_IC = True
except Exception as _e:  # stub package missing: inline_callbacks part is skipped (stated in "bound")
    print("c15: eliot.twisted not importable (%r); inline_callbacks scenarios run as plain generators" % (_e,), file=sys.stderr)
    HAVE_IC = False

KNOWN_SIGNATURES = [{"clause": "transparency", "where": "throw-deprecation-warning-as-error"}]  # see KNOWN_ON_UNCHANGED_TREE


class Boom(BaseException):
    """Application-level stop signal: deliberately not an Exception subclass."""


class FinalExc(BaseException):
    """Used only to finish inline_callbacks generators at the end of a scenario."""


EXC = {"V": ValueError, "B": Boom, "S": StopIteration, "Vc": ValueError, "Bc": Boom, "G": GeneratorExit}
ALLOWED_NEW = (RuntimeError, TypeError, ValueError, Boom, GeneratorExit, StopIteration, FinalExc)
UNSET = object()


class Sentinel(object):
    def __init__(self, sid): self.sid = sid


class ActRec(object):
    def __init__(self, name, action, parent):
        self.name = name; self.action = action; self.parent = parent; self.status = None
        self.level = None; self.uuid = None


class Handle(object):
    """One generator instance (decorated in the real run, undecorated in the plain run)."""

    def __init__(self, world, gid, kind, prog, parent):
        self.world = world; self.gid = gid; self.kind = kind; self.parent = parent
        self.interp = Interp(world, self, prog)
        self.obj = None; self.func = None; self.called = False; self.result_d = None; self.final = UNSET
        self.home_candidate = None; self.home = None; self.yf_parent = None; self.resumes = 0; self.closing_token = None

    def ensure_obj(self):
        if self.func is None:
            w = self.world
            body = self.interp.make_body()
            key = (self.kind, id(body))
            # one decorated function per (flavour, program) and world: generators with the same program are
            # instances of the SAME decorated function, as in real code
            self.func = w.funcs.get(key)
            if self.func is None:
                if self.kind == "ic":
                    self.func = eliot_twisted.inline_callbacks(body, debug=w.debug) if w.real else inlineCallbacks(body)
                elif w.real:
                    self.func = eliot_friendly_generator_function(body)
                    if w.debug: self.func.debug = True  # otherwise the default (off) is what is tested
                else:
                    self.func = body
                w.funcs[key] = self.func
                if w.real and (getattr(self.func, "__name__", None) != body.__name__ or getattr(self.func, "__doc__", None) != body.__doc__):
                    w.problem("transparency", "metadata", "decorated function lost __name__/__doc__ of the original")
            self.args = (w.sentinel(), w.sentinel())
            if self.kind == "gen":
                self.obj = self.func(self.interp, self.args[0], kw=self.args[1])

    def _record_final(self, r):
        self.final = r
        return r

    def state(self):
        w = self.world
        if self.final is UNSET: return ("waiting",)
        if isinstance(self.final, Failure): return ("failed", w.desc(self.final.value))
        return ("done", w.desc(self.final))

    def _do(self, how, payload):
        w = self.world
        if self.kind == "gen":
            try:
                if how == "next": v = next(self.obj)
                elif how == "send": v = self.obj.send(payload)
                elif how == "throw": v = self.obj.throw(payload)
                else:
                    v = self.obj.close()
                    return ("closed", w.desc(v))
                return ("yield", w.desc(v))
            except StopIteration as e:
                return ("return", w.desc(e.value))
            except BaseException as e:
                return ("raise", w.desc(e))
        # inline_callbacks flavour: "resume" = call the function, later fire the Deferred the body waits on
        if not self.called:
            self.called = True
            self.result_d = self.func(self.interp, self.args[0], kw=self.args[1])
            self.result_d.addBoth(self._record_final)
            return self.state()
        if how == "close": return ("skip",)
        d = self.interp.pending
        if d is None or d.called: return ("nothing-pending",) + self.state()
        if how == "next": d.callback(None)
        elif how == "send": d.callback(payload)
        else:
            exc = payload
            if isinstance(exc, type):
                exc = w.new_exc_obj(exc, "inst-of-class")
            d.errback(Failure(exc))
        return self.state()

    def resume(self, how, payload, resumer_rec, who):
        """Resume from code whose model action is resumer_rec; checks the resumer's side."""
        w = self.world
        self.ensure_obj()
        if w.real:
            before = current_action()
            exp = resumer_rec.action if resumer_rec is not None else None
            if before is not exp:
                w.problem("driver-context", "before-resume", "%s before %s of g%d: current action %s, model says %s" % (who, how, self.gid, w.aname(before), w.aname(exp)))
        if not self.interp.begun:
            self.home_candidate = resumer_rec
        elif resumer_rec is not self.home:
            w.foreign += 1
        self.resumes += 1
        w.ev("resume", self.gid, how, w.desc(payload) if not isinstance(payload, type) else payload.__name__)
        w.ntoken += 1
        w.chain.append((self, how, w.ntoken))
        try:
            out = self._do(how, payload)
        finally:
            w.chain.pop()
        if w.real:
            after = current_action()
            if after is not before:
                w.problem("driver-context", "after-" + how, "%s after %s of g%d: resumer's current action became %s, was %s" % (who, how, self.gid, w.aname(after), w.aname(before)))
        w.ev("out", self.gid, how, out)
        return out

    def finished(self):
        if self.kind == "gen":
            return self.obj is None or self.obj.gi_frame is None
        return (not self.called) or self.final is not UNSET


class Interp(object):
    """Body of one generator: the program is compiled to the source of a real, flat generator function (real `with`,
    `try`, `yield`, `yield from`, `return`) whose statements call back into this object, which keeps the model stack."""

    _cache = {}

    def __init__(self, world, handle, prog):
        self.world = world; self.handle = handle; self.prog = prog; self.gid = handle.gid
        self.stack = [None]; self.children = []; self.begun = False; self.pending = None; self.subprogs = []

    def top(self): return self.stack[-1]

    def obs(self, where):
        w = self.world
        if not w.real: return
        cur = current_action(); exp = self.top(); expa = exp.action if exp is not None else None
        if cur is not expa:
            w.problem("gen-context", where, "g%d (%s) at %s: current action %s, own context says %s" % (self.gid, self.handle.kind, where, w.aname(cur), w.aname(expa)))

    # -- compilation
    def make_body(self):
        key = (self.handle.kind, json.dumps(self.prog))
        ent = Interp._cache.get(key)
        if ent is None:
            subprogs = []; counter = [0]
            lines = ["def body(I, *a, **kw):", "    'body doc'", "    I.begin(a, kw)"]
            lines += self._compile(self.prog, 1, subprogs, counter)
            lines += ["    I.obs('end')", "    if False: yield"]
            src = "\n".join(lines) + "\n"
            ns = {}
            exec(compile(src, "<c15 body %d>" % len(Interp._cache), "exec"), ns)
            ent = (ns["body"], subprogs)
            if len(Interp._cache) < 20000: Interp._cache[key] = ent
        self.subprogs = ent[1]
        return ent[0]

    def _compile(self, ops, ind, subprogs, counter):
        pad = "    " * ind; out = []
        ic = self.handle.kind == "ic"

        def emit(s, extra=0): out.append(pad + "    " * extra + s)

        def block(sub, extra):
            got = self._compile(sub, ind + extra, subprogs, counter)
            out.extend(got if got else [pad + "    " * extra + "pass"])

        def emit_yield(vexpr):
            emit("v = %s" % vexpr)
            emit("try:"); emit("got = yield v", 1)
            emit("except BaseException as e:"); emit("I.exc_at_yield(e)", 1); emit("raise", 1)
            emit("I.post_yield(got)")
        for op in ops:
            k = op[0]
            counter[0] += 1; n = counter[0]
            if k == "log":
                emit("I.op_log()")
            elif k == "yield":
                emit_yield("I.pre_yield()")
            elif k == "act":
                emit("rec%d = I.pre_act()" % n)
                emit("try:")
                emit("with I.ctx(rec%d):" % n, 1)
                emit("I.stack.append(rec%d)" % n, 2)
                emit("try:", 2)
                emit("I.obs('in-act')", 3)
                block(op[1], 3)
                emit("I.act_ok(rec%d)" % n, 3)
                emit("except BaseException:", 2); emit("I.act_fail(rec%d)" % n, 3); emit("raise", 3)
                emit("finally:", 2); emit("I.stack.pop()", 3)
                emit("finally:"); emit("I.obs('post-act')", 1)
            elif k == "try":
                emit("try:"); block(op[1], 1)
                if op[2] == "except":
                    emit("except BaseException as e:"); emit("I.caught(e)", 1)
                else:
                    emit("finally:"); emit("I.in_finally()", 1)
                got = self._compile(op[3], ind + 1, subprogs, counter); out.extend(got)
            elif k == "raise":
                emit("raise I.mk_raise(%r)" % op[1])
            elif k == "return":
                emit("return I.mk_return()")
            elif k == "sub":
                subprogs.append(op[2]); si = len(subprogs) - 1
                emit("c%d = I.sub_spawn(%d)" % (n, si))
                if ic:
                    emit("I.sub_call(c%d)" % n)
                    emit_yield("I.pre_yield_d(c%d)" % n)
                elif op[1] == "yf":
                    emit("I.pre_yf(c%d)" % n)
                    emit("try:"); emit("r = yield from c%d.obj" % n, 1)
                    emit("except BaseException:"); emit("I.obs('yf-exc')", 1); emit("raise", 1)
                    emit("finally:"); emit("c%d.yf_parent = None" % n, 1)
                    emit("I.post_yf(r)")
                elif op[1] == "list":
                    emit("I.sub_list(c%d)" % n)
            elif k == "c":
                emit("I.cresume(%r, %r, %r)" % (op[1], op[2], op[3]))
            else:
                raise AssertionError("bad op %r" % (op,))
        return out

    # -- callbacks used by the compiled body
    def begin(self, a, kw):
        h = self.handle; w = self.world
        self.begun = True; h.home = h.home_candidate; self.stack = [h.home]
        w.ev("begin", self.gid, [w.desc(x) for x in a], sorted((k, w.desc(v)) for k, v in kw.items())); self.obs("start")

    def op_log(self):
        self.obs("log"); self.world.log(self.top(), "g%d" % self.gid)

    def pre_yield(self):
        w = self.world
        if self.handle.kind == "ic": self.pending = v = Deferred()
        else: v = w.sentinel()
        return self._pre_yield(v)

    def pre_yield_d(self, child): return self._pre_yield(child.result_d)

    def _pre_yield(self, v):
        w = self.world
        self.obs("pre-yield"); w.ev("yield", self.gid, w.desc(v))
        if w.debug and w.real: w.expect_yielded(self)
        return v

    def exc_at_yield(self, e):
        if isinstance(e, GeneratorExit): self.world.note_generator_exit(self)
        self.obs("exc-at-yield"); self.world.ev("thrown-in", self.gid, self.world.desc(e))

    def post_yield(self, got):
        self.obs("post-yield"); self.world.ev("got", self.gid, self.world.desc(got))

    def pre_act(self):
        self.obs("pre-act")
        return self.world.open_action(self.top(), "g%d_" % self.gid) if self.world.real else None

    def ctx(self, rec): return rec.action if rec is not None else contextlib.nullcontext()

    def act_ok(self, rec):
        self.obs("act-end")
        if rec is not None: rec.status = "succeeded"

    def act_fail(self, rec):
        if rec is not None: rec.status = "failed"
        self.obs("act-unwind")

    def caught(self, e):
        self.obs("except"); self.world.ev("caught", self.gid, self.world.desc(e))

    def in_finally(self):
        self.obs("finally"); self.world.ev("finally", self.gid)

    def mk_raise(self, code):
        w = self.world
        e = w.new_exc(code, "raised-by-g%d" % self.gid)
        self.obs("raise"); w.ev("raise", self.gid, w.desc(e))
        return e

    def mk_return(self):
        w = self.world
        v = w.sentinel(); self.obs("return"); w.ev("return", self.gid, w.desc(v))
        return v

    def sub_spawn(self, si):
        child = self.world.spawn(self.handle.kind, self.subprogs[si], self.handle)
        self.children.append(child); child.ensure_obj()
        return child

    def sub_call(self, child):
        child.resume("next", None, self.top(), "body of g%d" % self.gid)
        self.obs("after-sub-call")

    def pre_yf(self, child):
        child.home_candidate = self.top(); child.yf_parent = self.handle
        self.obs("pre-yf")

    def post_yf(self, r):
        self.obs("post-yf"); self.world.ev("yf-result", self.gid, self.world.desc(r))

    def sub_list(self, child):
        for _ in range(20):
            out = child.resume("next", None, self.top(), "body of g%d" % self.gid)
            self.obs("after-cresume")
            if out[0] != "yield": break

    def cresume(self, how, k, exc):
        if self.children:
            w = self.world
            child = self.children[k % len(self.children)]
            child.resume(how, w.payload(how, exc), self.top(), "body of g%d" % self.gid)
            self.obs("after-cresume")


class World(object):
    def __init__(self, sc, real):
        self.sc = sc; self.real = real; self.debug = bool(sc.get("debug"))
        self.trace = []; self.problems = []; self.keep = []; self.exc_tags = {}
        self.nsent = 0; self.nexc = 0; self.nlog = 0; self.nact = 0
        self.handles = []; self.msgs = []; self.actions = []; self.logexp = {}; self.anames = {}
        self.saw_throw_deprecation = False; self.chain = []; self.ntoken = 0; self.yield_expect = []; self.foreign = 0; self.dstack = []; self.funcs = {}
        self.dest = self.msgs.append

    # -- bookkeeping
    def ev(self, *a): self.trace.append(a)

    def problem(self, cat, where, text):
        if len(self.problems) < 40: self.problems.append((cat, where, text))

    def aname(self, a):
        if a is None: return "None"
        return self.anames.get(id(a), "<unknown action>")

    def sentinel(self):
        s = Sentinel(self.nsent); self.nsent += 1; self.keep.append(s); return s

    def new_exc_obj(self, cls, label):
        e = cls(self.sentinel()) if cls is StopIteration else cls("x%d" % self.nexc)
        self.keep.append(e); self.exc_tags[id(e)] = "E%d:%s:%s" % (self.nexc, cls.__name__, label); self.nexc += 1
        return e

    def new_exc(self, code, label): return self.new_exc_obj(EXC[code], label)

    def payload(self, how, exc):
        if how == "send":
            # an exception *instance* sent as an ordinary value must arrive as the value of the yield, not be raised (seeded change C15-4)
            return self.new_exc(exc, "sent-as-value") if exc else self.sentinel()
        if how == "throw":
            if exc in ("Vc", "Bc", "G"): return EXC[exc]
            return self.new_exc(exc, "thrown")
        return None

    def desc(self, v):
        if v is None: return "None"
        if isinstance(v, Sentinel): return "S%d" % v.sid
        if isinstance(v, BaseException):
            tag = self.exc_tags.get(id(v))
            if tag is not None: return tag
            if isinstance(v, DeprecationWarning) and "signature of throw() is deprecated" in str(v):
                self.saw_throw_deprecation = True
            if not isinstance(v, ALLOWED_NEW) or (type(v) not in ALLOWED_NEW):
                tb = "".join(traceback.format_exception(type(v), v, v.__traceback__))[-600:]
                self.problem("transparency" if self.real else "crash", "unexpected-exception", "unexpected %s: %s\n%s" % (type(v).__name__, v, tb))
            s = "new:%s:%s" % (type(v).__name__, str(v)[:60])
            if v.__cause__ is not None: s += "<-" + self.desc(v.__cause__)
            return s
        if HAVE_IC and isinstance(v, Deferred): return "Deferred"
        return "obj:%s" % type(v).__name__

    def open_action(self, parent_rec, prefix):
        name = "%s%d" % (prefix, self.nact); self.nact += 1
        a = start_action(action_type=name)
        rec = ActRec(name, a, parent_rec); self.actions.append(rec); self.anames[id(a)] = name
        return rec

    def log(self, parent_rec, who):
        key = self.nlog; self.nlog += 1
        self.ev("log", who)
        if self.real:
            self.logexp[key] = parent_rec
            log_message(message_type="m", k=key)

    def expect_yielded(self, interp):
        """Which wrappers will log a debug 'yielded' message for the yield the body of interp is about to make."""
        h = interp.handle
        if h.kind == "ic":
            self.yield_expect.append(interp.top()); return
        top, how, token = self.chain[-1] if self.chain else (None, None, None)
        for _ in range(50):
            self.yield_expect.append(h.interp.top())
            # a wrapper that is being close()d logs and then dies with RuntimeError: the value goes no further
            if h.closing_token == token or h is top or h.yf_parent is None: break
            h = h.yf_parent

    def note_generator_exit(self, interp):
        """GeneratorExit arrived at a yield of interp's body: every wrapper it was delegated through by `yield from`
        (which uses close()) is being closed; the outermost one only if it was resumed with close()."""
        if not self.chain: return
        top, how, token = self.chain[-1]
        h = interp.handle
        for _ in range(50):
            if h is top:
                if how == "close": h.closing_token = token
                break
            h.closing_token = token
            if h.yf_parent is None: break
            h = h.yf_parent

    def spawn(self, kind, prog, parent):
        h = Handle(self, len(self.handles), kind, prog, parent); self.handles.append(h); return h

    # -- the driver
    def dtop(self): return self.dstack[-1] if self.dstack else None

    def obs_driver(self, where):
        if not self.real: return
        cur = current_action(); exp = self.dtop(); expa = exp.action if exp is not None else None
        if cur is not expa:
            self.problem("driver-context", "driver-step", "driver %s: current action %s, model says %s" % (where, self.aname(cur), self.aname(expa)))

    def do_resume(self, how, g, mode, exc, label):
        h = self.handles[g % len(self.handles)]
        payload = self.payload(how, exc)
        if not self.real:
            mode = "thread" if mode == "thread" else "plain"

        def core(rec):
            h.resume(how, payload, rec, "driver[%s] %s" % (mode, label))

        if mode == "plain":
            core(self.dtop())
        elif mode == "copyctx":
            contextvars.copy_context().run(core, self.dtop())
        elif mode == "emptyctx":
            contextvars.Context().run(core, None)
        elif mode == "thread":
            err = []

            def tmain():
                try: core(None)
                except BaseException as e: err.append(e)
            t = threading.Thread(target=tmain); t.start(); t.join()
            if err: raise err[0]
        elif mode == "freshtask":
            def f():
                rec = self.open_action(None, "ft")
                with rec.action:
                    try: core(rec)
                    finally: rec.status = "succeeded"
            contextvars.Context().run(f)
        else:
            raise AssertionError("bad mode %r" % (mode,))

    def execute(self):
        sc = self.sc
        for g in sc["gens"]:
            kind = g["kind"] if HAVE_IC else "gen"
            self.spawn(kind, g["prog"], None)
        for i, st in enumerate(sc["steps"]):
            self.ev("step", i)
            k = st[0]
            if k == "enter":
                if self.real:
                    rec = self.open_action(self.dtop(), "d"); rec.action.__enter__(); self.dstack.append(rec)
            elif k == "exit":
                if self.real and self.dstack:
                    rec = self.dstack.pop(); rec.action.__exit__(None, None, None); rec.status = "succeeded"
            elif k == "log":
                self.log(self.dtop(), "drv")
            elif k == "create":
                self.handles[st[1] % len(self.handles)].ensure_obj()
            elif k == "r":
                self.do_resume(st[1], st[2], st[3], st[4] if len(st) > 4 else None, "step %d" % i)
                if st[3] == "plain": self.log(self.dtop(), "drv-after")
            else:
                raise AssertionError("bad step %r" % (st,))
            self.obs_driver("after step %d %r" % (i, st))
        # finish everything that is still suspended, from the driver's (foreign) context; children first
        self.ev("finalize")
        for _ in range(80):
            progress = False
            for h in reversed(list(self.handles)):
                if h.finished(): continue
                if h.kind == "gen":
                    h.resume("close", None, self.dtop(), "driver[final]"); progress = True
                else:
                    d = h.interp.pending
                    if d is not None and not d.called:
                        h.resume("throw", self.new_exc_obj(FinalExc, "final"), self.dtop(), "driver[final]"); progress = True
            if not progress: break
        for h in self.handles:
            if not h.finished():
                self.problem("transparency" if self.real else "crash", "not-finishable", "g%d still suspended after finalization" % h.gid)
        self.obs_driver("after finalization")
        while self.real and self.dstack:
            rec = self.dstack.pop(); rec.action.__exit__(None, None, None); rec.status = "succeeded"
        self.obs_driver("at end")

    # -- the log oracle
    def check_messages(self):
        P = lambda where, text: self.problem("log-tree", where, text)
        starts = {}; ends = {}
        for m in self.msgs:
            at = m.get("action_type")
            if at is not None:
                (starts if m.get("action_status") == "started" else ends).setdefault(at, []).append(m)
        for rec in self.actions:
            s = starts.get(rec.name, []); e = ends.get(rec.name, [])
            if len(s) != 1:
                P("start-count", "action %s has %d start messages" % (rec.name, len(s))); continue
            lvl = s[0]["task_level"]; rec.level = lvl[:-1]; rec.uuid = s[0]["task_uuid"]
            if lvl[-1] != 1: P("start-level", "action %s start message has task_level %r" % (rec.name, lvl))
            if rec.parent is None:
                if rec.level != []: P("start-parent", "action %s should begin a new task, has level %r" % (rec.name, rec.level))
            elif rec.parent.level is not None:
                if rec.uuid != rec.parent.uuid or rec.level[:-1] != rec.parent.level:
                    P("start-parent", "action %s (level %r) is not a child of %s (level %r)" % (rec.name, rec.level, rec.parent.name, rec.parent.level))
            if len(e) != 1:
                P("end-count", "action %s has %d end messages, expected exactly one" % (rec.name, len(e))); continue
            if e[0]["task_uuid"] != rec.uuid or e[0]["task_level"][:-1] != rec.level:
                P("end-level", "action %s end message at %r not under its own level %r" % (rec.name, e[0]["task_level"], rec.level))
            if rec.status is not None and e[0].get("action_status") != rec.status:
                P("end-status", "action %s ended %s, model says %s" % (rec.name, e[0].get("action_status"), rec.status))

        def under(m, rec, what):
            lvl = m["task_level"]
            if rec is None:
                if len(lvl) != 1: P("attribution", "%s should be context-less, has task_level %r" % (what, lvl))
            elif rec.level is not None and (m["task_uuid"] != rec.uuid or lvl[:-1] != rec.level):
                P("attribution", "%s at %r is not directly under %s (level %r)" % (what, lvl, rec.name, rec.level))
        seen_keys = set(); yielded = []
        for m in self.msgs:
            mt = m.get("message_type")
            if mt == "m":
                k = m["k"]
                if k in seen_keys: P("duplicate", "message %d delivered twice" % k)
                seen_keys.add(k); under(m, self.logexp.get(k), "message %d" % k)
            elif mt == "yielded":
                yielded.append(m)
            elif m.get("action_type") is None:
                P("stray", "unexpected message %r" % ({k: v for k, v in m.items() if k != "timestamp"},))
        if len(seen_keys) != self.nlog: P("lost", "%d of %d logged messages reached the destination" % (len(seen_keys), self.nlog))
        if self.debug:
            if len(yielded) != len(self.yield_expect):
                P("yielded-count", "%d 'yielded' messages, model expects %d" % (len(yielded), len(self.yield_expect)))
            for i, (m, rec) in enumerate(zip(yielded, self.yield_expect)):
                under(m, rec, "'yielded' message #%d" % i)
        elif yielded:
            P("yielded-count", "'yielded' messages logged although debug is off")
        # generic well-formedness: unique, contiguous, increasing task levels
        nodes = set(); last = {}
        for m in self.msgs:
            u = m["task_uuid"]; lvl = m["task_level"]
            for j in range(1, len(lvl) + 1):
                node = (u, tuple(lvl[:j]))
                if node in nodes:
                    if j == len(lvl): P("level-dup", "task_level %r used twice in task" % (lvl,))
                    continue
                parent = (u, tuple(lvl[:j - 1])); idx = lvl[j - 1]
                if idx != last.get(parent, 0) + 1:
                    P("level-gap", "task_level %r: child index %d after %d under %r" % (lvl, idx, last.get(parent, 0), list(parent[1])))
                last[parent] = max(idx, last.get(parent, 0)); nodes.add(node)


def _execute_checked(w):
    w.execute()
    if w.real and current_action() is not None:
        w.problem("driver-context", "leak", "after the scenario current_action() is %s, not None" % w.aname(current_action()))


def run_world(sc, real):
    if not sc.get("werror"):
        return _run_world(sc, real)
    # "werror": the application runs with warnings turned into errors (python -W error, pytest filterwarnings=error)
    with warnings.catch_warnings():
        warnings.simplefilter("error")
        return _run_world(sc, real)


def _run_world(sc, real):
    w = World(sc, real)
    if real: add_destinations(w.dest)
    try:
        try:
            # the real run gets a fresh contextvars.Context so that a leak cannot pollute later scenarios
            (contextvars.Context().run if real else (lambda f: f()))(lambda: _execute_checked(w))
        except BaseException as e:
            if isinstance(e, KeyboardInterrupt): raise
            w.problem("crash", "driver", "scenario execution raised %s" % "".join(traceback.format_exception(type(e), e, e.__traceback__))[-900:])
    finally:
        if real: remove_destination(w.dest)
    if real:
        try:
            w.check_messages()
        except Exception as e:
            w.problem("crash", "log-oracle", "log oracle raised %s" % "".join(traceback.format_exception(type(e), e, e.__traceback__))[-600:])
    return w


def run_scenario(sc):
    """-> (problems [(cat, where, text)], nontrivial bool)"""
    if not sc.get("werror"):
        return _run_scenario(sc)
    hook = sys.unraisablehook
    sys.unraisablehook = lambda u: None  # the known corner case leaves generators to the garbage collector: keep stderr quiet
    try:
        return _run_scenario(sc)
    finally:
        gc.collect(); sys.unraisablehook = hook


def _run_scenario(sc):
    ref = run_world(sc, False)
    real = run_world(sc, True)
    problems = list(real.problems)
    for p in ref.problems:
        problems.append(("crash", "plain-run:" + p[1], p[2]))
    if real.trace != ref.trace:
        n = min(len(real.trace), len(ref.trace)); i = 0
        while i < n and real.trace[i] == ref.trace[i]: i += 1
        a = real.trace[i] if i < len(real.trace) else "<end of trace>"
        b = ref.trace[i] if i < len(ref.trace) else "<end of trace>"
        kind = a[0] if isinstance(a, tuple) else "end"
        lastres = [t for t in real.trace[:i + 1] if t[0] == "resume"]
        problems.append(("transparency", "%s/%s" % (kind, lastres[-1][2] if lastres else "-"),
                         "event #%d differs: decorated %r vs undecorated %r (last resumption %r)" % (i, a, b, lastres[-1] if lastres else None)))
    if real.saw_throw_deprecation and sc.get("werror") and problems:
        # consequences of the known corner case below all collapse into its one signature
        problems.insert(0, ("transparency", "throw-deprecation-warning-as-error",
                            "with warnings as errors the wrapper's gen.throw(*exc_info()) raises DeprecationWarning instead of delivering the exception/close"))
    nontrivial = real.foreign > 0 and any(h.interp.begun and h.resumes >= 2 for h in real.handles)
    return problems, nontrivial


# ---------------------------------------------------------------------------------------------- enumeration
HOWS = [("next", None), ("send", None), ("send", "V"), ("send", "B"), ("throw", "V"), ("throw", "B"), ("throw", "G"), ("throw", "S"), ("close", None)]
Y = ["yield"]; L = ["log"]
FIXED_PROGS = [
    [Y, L, Y],
    [["act", [Y, L, Y]], L],
    [["try", [["act", [Y, ["try", [Y], "finally", [L]]]]], "finally", [L]], L, ["return"]],
    [["act", [["try", [Y], "except", [L, Y, L]], ["return"]]]],
    [L, ["act", [Y, ["act", [L, Y]], L]], Y, ["return"]],
    [["act", [["try", [Y, ["raise", "V"]], "except", [Y]], L]], Y],
    [["try", [["act", [Y]]], "except", [["act", [L, Y]], ["return"]]]],
    [["act", [["try", [Y, Y], "finally", [Y, L]]]], L],
    [["act", [Y, ["raise", "B"]]]],
    [["sub", "yf", [["act", [Y, L, Y]], ["return"]]], L, Y],
    [["act", [["sub", "yf", [L, ["try", [["act", [Y]]], "finally", [L]], Y]], L]], ["return"]],
    [["act", [["sub", "list", [L, ["act", [Y, L]], Y]], L, Y]]],
    [["act", [["sub", "spawn", [["act", [Y, L, Y]], ["return"]]], ["sub", "spawn", [["act", [Y, Y]]]],
              ["c", "next", 0, None], L, ["c", "next", 1, None], L, Y, ["c", "send", 0, None], L, ["c", "send", 1, None], L, Y,
              ["c", "close", 0, None], L]], L],
    [["sub", "spawn", [["try", [["act", [Y, Y]]], "finally", [L]]]], ["c", "next", 0, None], ["act", [Y, ["c", "throw", 0, "B"], L]], Y],
]
CTX_PATTERNS = ["alt", "modes", "nest"]


def steps_for(seq, pattern, gsel=None):
    """Driver steps for a sequence of (how, exc) under a context pattern."""
    steps = []
    modes = ["freshtask", "thread", "plain", "emptyctx", "copyctx"]
    inside = False
    for i, (how, exc) in enumerate(seq):
        g = gsel[i] if gsel else 0
        if pattern == "alt":
            if inside: steps.append(["exit"])
            else: steps.append(["enter"])
            inside = not inside
            steps.append(["r", how, g, "plain", exc])
        elif pattern == "nest":
            steps.append(["enter"]); steps.append(["r", how, g, "plain", exc])
        else:
            if i == 0: steps.append(["enter"])
            steps.append(["r", how, g, modes[i % len(modes)], exc])
    return steps


def enumerate_scenarios(tier, seed):
    quick = tier == "quick"
    rng = random.Random(seed)
    # family A: fixed single-generator bodies x (0..2 advancing resumptions, then every resumption sequence) x context pattern
    LA = 2 if quick else 3
    ADV = [[], [("next", None)], [("next", None), ("send", None)], [("next", None), ("send", None), ("next", None)]]
    for pi, prog in enumerate(FIXED_PROGS):
        for adv in (ADV[:3] if quick else ADV):
            for seq in itertools.product(HOWS, repeat=LA):
                for pat in CTX_PATTERNS:
                    if rng.random() > (0.5 if quick else 0.8): continue
                    kind = "ic" if rng.random() < 0.15 else "gen"
                    yield {"gens": [{"kind": kind, "prog": prog}], "steps": steps_for(list(adv) + list(seq), pat), "debug": rng.random() < 0.2}
    # family B: two generators with actions spanning yields, every interleaving of who is resumed how
    LB = 3 if quick else 4
    HB = [("next", None), ("send", None), ("send", "V"), ("throw", "B"), ("close", None)]
    progsB = [[["act", [Y, L, Y]], L, ["return"]], [L, ["act", [["try", [Y, Y], "finally", [L]]]], Y]]
    for started in (0, 1, 2):
        pre = [("next", None)] * started; gpre = [0, 1][:started]
        for seq in itertools.product(HB, repeat=LB):
            for gsel in itertools.product([0, 1], repeat=LB):
                if rng.random() > (0.5 if quick else 0.9): continue
                pat = rng.choice(CTX_PATTERNS)
                kinds = ["ic" if rng.random() < 0.15 else "gen" for _ in range(2)]
                same = rng.random() < 0.4  # two instances of one decorated function
                if same: kinds[1] = kinds[0]
                yield {"gens": [{"kind": kinds[0], "prog": progsB[0]}, {"kind": kinds[1], "prog": progsB[0 if same else 1]}],
                            "steps": [["create", 0], ["create", 1]] + steps_for(pre + list(seq), pat, gpre + list(gsel)), "debug": rng.random() < 0.2}
    # family W: the same kind of thing with warnings turned into errors (known corner case on Python >= 3.12)
    for prog in FIXED_PROGS[:4]:
        for seq in ([("next", None), ("throw", "V")], [("next", None), ("send", None), ("close", None)], [("next", None), ("next", None)]):
            yield {"gens": [{"kind": "gen", "prog": prog}], "steps": steps_for(seq, "alt"), "debug": False, "werror": True}
    # family C: seeded random programs and drivers
    NC = 3000 if quick else 60000
    for _ in range(NC):
        yield random_scenario(rng)


def random_prog(rng, depth, subdepth, top=False):
    ops = []
    for _ in range(rng.randint(1, 4)):
        r = rng.random()
        if r < 0.32: ops.append(["yield"])
        elif r < 0.44: ops.append(["log"])
        elif r < 0.64:
            if depth > 0: ops.append(["act", random_prog(rng, depth - 1, subdepth)])
        elif r < 0.78:
            if depth > 0:
                handler = random_prog(rng, depth - 1, subdepth) if rng.random() < 0.7 else []
                ops.append(["try", random_prog(rng, depth - 1, subdepth), rng.choice(["except", "finally"]), handler])
        elif r < 0.82: ops.append(["raise", rng.choice(["V", "B", "S"])])
        elif r < 0.86: ops.append(["return"])
        elif r < 0.94:
            if subdepth > 0:
                ops.append(["sub", rng.choice(["yf", "list", "spawn", "spawn"]), random_prog(rng, min(depth, 2), subdepth - 1, True)])
        else:
            how = rng.choice(["next", "next", "next", "send", "send", "throw", "close"])
            ops.append(["c", how, rng.randint(0, 2), rng.choice(["V", "B", "G", "S", "Vc"]) if how == "throw" else None])
    if top and not any(o[0] in ("yield", "act", "try", "sub") for o in ops):
        ops.insert(rng.randint(0, len(ops)), ["act", [["yield"], ["log"], ["yield"]]])
    return ops


def random_scenario(rng):
    gens = [{"kind": "ic" if rng.random() < 0.2 else "gen", "prog": random_prog(rng, 3, 2, True)} for _ in range(rng.randint(1, 3))]
    for g in gens[1:]:
        if rng.random() < 0.35: g["kind"] = gens[0]["kind"]; g["prog"] = gens[0]["prog"]  # instances of one decorated function
    steps = []; depth = 0
    for _ in range(rng.randint(3, 14)):
        r = rng.random()
        if r < 0.12: steps.append(["enter"]); depth += 1
        elif r < 0.22:
            if depth: steps.append(["exit"]); depth -= 1
        elif r < 0.26: steps.append(["log"])
        elif r < 0.32: steps.append(["create", rng.randint(0, 2)])
        else:
            how = rng.choice(["next"] * 8 + ["send"] * 6 + ["throw"] * 4 + ["close"] * 2)
            exc = rng.choice(["V", "B", "G", "S", "Vc", "Bc"]) if how == "throw" else None
            mode = rng.choice(["plain", "plain", "plain", "plain", "copyctx", "emptyctx", "thread", "freshtask", "freshtask"])
            steps.append(["r", how, rng.randint(0, 5), mode, exc])
    return {"gens": gens, "steps": steps, "debug": rng.random() < 0.25}


def main():
    fails = []; known = []; cases = 0; seen = set(); sigs = set(); nfail = 0; nknown = 0
    if args.scenario:
        scs = [json.loads(args.scenario)]
    else:
        scs = enumerate_scenarios(args.tier, args.seed)
    for sc in scs:
        cases += 1
        problems, nontrivial = run_scenario(sc)
        if nontrivial or args.scenario: seen.add(json.dumps(sc, sort_keys=True))
        if problems:
            nfail += 1
            if nfail <= 200: gc.collect()
            cat, where, _ = problems[0]
            sig = {"clause": cat, "where": where}
            rec = {"signature": sig, "scenario": sc, "observed": [("%s: %s" % (p[0], p[2]))[:400] for p in problems[:4]]}
            key = json.dumps(sig, sort_keys=True)
            if sig in KNOWN_SIGNATURES:
                nknown += 1
                if len(known) < 5 and key not in sigs: known.append(rec)
            elif len(fails) < 5 and key not in sigs:
                fails.append(rec)
            sigs.add(key)
            if len(fails) >= 5 or nfail - nknown >= 150:
                print("c15: stopping early after %d scenarios" % cases, file=sys.stderr); break
    if nfail: print("c15: %d scenarios with problems, %d distinct signatures" % (nfail, len(sigs)), file=sys.stderr)
    quick = args.tier == "quick"
    res = {"cases": cases, "distinct": len(seen), "failures": fails,
           "bound": ("14 fixed bodies (actions spanning yields, try/except/finally around yields, yield-from / exhausted / manually interleaved nested "
                     "decorated generators) x (0..%d advancing resumptions then) sampled resumption sequences of length %d over {next, send, throw ValueError/BaseException subclass/GeneratorExit/"
                     "StopIteration, close} x 3 driver-context patterns; 2 generators (0, 1 or both already started) x sampled interleavings of length %d; %d seeded random scenarios "
                     "(<=3 top-level generators, body depth <=3, nesting of decorated generators <=2, <=14 driver steps, resumptions issued from the "
                     "driver's action stack, a copied context, an empty context, another thread or a fresh task); generator and %s flavours; "
                     "every scenario ends by closing all suspended generators from a foreign context")
                    % (2 if quick else 3, 2 if quick else 3, 3 if quick else 4, 3000 if quick else 60000,
                       "eliot.twisted.inline_callbacks (over a stub Deferred/inlineCallbacks)" if HAVE_IC else "NO inline_callbacks (stub missing)"),
           "rule": ("families A/B: itertools.product over resumption sequences (and over which generator is resumed), thinned with the seeded RNG; family C: "
                    "seeded random programs and driver steps. Each scenario runs decorated+real actions and undecorated+no eliot, traces compared. "
                    "distinct = distinct scenario JSON in which some generator body was resumed at least twice and at least one resumption came from a "
                    "context whose current action differs from the generator's home action")}
    if known: res["known"] = known
    print(json.dumps(res))


main()
