"""Native driver for C09 (bounded; real code): parsing is order-independent and detects task completeness exactly.

This driver is also the labelled BOUNDED STAND-IN for the global order-independence claim of C09
(DESIGN.md, "C09"): it decides the claim by small-scope exhaustive enumeration on the real eliot.parse
code found on PYTHONPATH; the exact scope explored by a run is reported in the "bound" key.

What is enumerated
  shape     a well-formed task = a lone message (one-message task, level [1]) or a root action whose body
            is any sequence of {message, nested action, remote sub-task}.  Every action carries a
            decoration of three independent bits: place l/r (local `with start_action` / remote hand-over
            via Action.serialize_task_id + Action.continue_task, written to a second logger), name n/u
            (named / the default empty action_type ""), outcome o/f (succeeded / failed by an exception).
            Structures are enumerated exhaustively by number of messages; decorations exhaustively (full
            product) up to a stated size and by a stated covering set above it.
  emission  the messages are produced by the real eliot API (start_action, log_message,
            serialize_task_id, continue_task, exceptions through `with`), JSON round-tripped, and checked
            against the driver's own numbering of levels before any parsing happens.
  arrival   a depth-first walk over the permutation tree of the messages of one task, or of the union of
            the messages of two / three tasks, with the (persistent) Parser as the walk state.  A node of
            that tree is one ordered arrival of one subset, so the walk visits EVERY arrival order of EVERY
            subset and, for several tasks, EVERY interleaving of every order of every subset.
  checks at every node (i.e. after every single Parser.add)
            no exception; Parser.add reports a task complete iff that message was the last outstanding one
            of its task (never earlier, never later), exactly one task, discarded from the parser (so it
            cannot be yielded again), equal to the full expected tree; Parser._tasks / incomplete_tasks()
            hold exactly the tasks that have some but not all messages; the touched task equals the
            independently computed partial tree for that subset (flat `_nodes` map, every node's deep
            sub-tree as reachable through children, `_completed` = exactly the levels whose whole sub-tree
            has arrived, root(), is_complete(), derived properties status/action_type/times/uuid, message
            contents); untouched tasks are unchanged; and the whole Parser value is `==` (eliot's own
            equality) to the value obtained by feeding the same subset in ascending order.
  parse_stream  for every subset (one seeded order each, all orders for small sizes, seeded orders of the
            full set otherwise): completed tasks are yielded once, at the message that completed them and
            before the next message is pulled from the input; the incomplete rest once each, only after the
            input is exhausted; every yielded tree equals the expected (partial) tree.

The oracle (levels, expected partial trees, expected completion) is computed from the abstract shape only;
nothing from eliot.testing or eliot's own tests is used.

Tiers (the "bound" key states the scope actually run; if the time budget cuts a run short, it says what was cut):
  quick     single task: <= 5 messages x full decoration product, 6 messages x 2 decorations; pairs <= 6 and triples <= 5
            messages in total; seeded samples at 7 and 8 messages.                      (~135 k scenarios, 16 processes)
  thorough  single task: <= 6 messages x full decoration product, 7 messages x 4 and 8 messages x 1 decorations (nesting
            depth <= 4); pairs <= 7 and triples <= 6 messages in total; seeded samples at 9 and 10 messages.  (~9.1 M scenarios)

Prints one JSON line: {cases, distinct, failures, known, bound, rule}.

KNOWN_ON_UNCHANGED_TREE
  (none: within the explored bound the unchanged tree satisfies every clause; the `known` list is empty)
"""
import argparse, itertools, json, os, random, sys, time

ap = argparse.ArgumentParser(); ap.add_argument("--tier", default="quick"); ap.add_argument("--seed", type=int, default=0)
ap.add_argument("--scenario"); args = ap.parse_args()
T0 = time.time()
DEADLINE = T0 + (30 if args.tier == "quick" else 720)

from eliot import start_action, log_message, add_destinations, remove_destination, current_action, Action, MemoryLogger
from eliot.parse import Parser, Task
from eliot._action import WrittenAction, TaskLevel
from eliot._message import WrittenMessage

KNOWN_SIGNATURES = []          # signature dicts of genuine violations on the unchanged tree (none for C09)
MAX_BAD_NODES_PER_UNIT = 10    # a unit (one walk) gives up after this many failing nodes


class Boom(Exception):
    pass


# ----------------------------------------------------------------------------------------------- shapes
def forests(m):
    """All sequences of children (undecorated) that consist of exactly m messages."""
    if m == 0:
        yield []
        return
    for rest in forests(m - 1):
        yield [["M"]] + rest
    for k in range(2, m + 1):
        for inner in forests(k - 2):
            for rest in forests(m - k):
                yield [["A", None, inner]] + rest


def structures(n):
    """All undecorated well-formed tasks with exactly n messages."""
    out = []
    if n == 1:
        out.append(["M"])
    if n >= 2:
        for f in forests(n - 2):
            out.append(["A", None, f])
    return out


def count_actions(shape):
    return 0 if shape[0] == "M" else 1 + sum(count_actions(c) for c in shape[2])


def depth(shape):
    return 0 if shape[0] == "M" else 1 + max([depth(c) for c in shape[2]] + [0])


def decorate(shape, decos):
    """decos: list of 3-letter decorations, consumed in pre-order."""
    it = iter(decos)

    def go(s):
        if s[0] == "M":
            return ["M"]
        d = next(it)
        return ["A", d, [go(c) for c in s[2]]]
    return go(shape)


ROOT_DECOS = ["l" + n + o for n in "nu" for o in "of"]
INNER_DECOS = [p + n + o for p in "lr" for n in "nu" for o in "of"]


def all_decorations(shape):
    a = count_actions(shape)
    if a == 0:
        return [[]]
    return [[r] + list(rest) for r in ROOT_DECOS for rest in itertools.product(INNER_DECOS, repeat=a - 1)]


def covering_decorations(shape, k, rng):
    """k decorations out of: plain, all-unnamed-failed-remote, two alternating mixes, then seeded random ones;
    k == 1 means one seeded random decoration."""
    a = count_actions(shape)
    if a == 0:
        return [[]]
    rnd = lambda: [rng.choice(ROOT_DECOS)] + [rng.choice(INNER_DECOS) for _ in range(a - 1)]
    if k == 1:
        return [rnd()]
    out = [["lno"] * a, ["luf"] + ["ruf"] * (a - 1), ["lnf"] + [["rno", "luo", "rnf", "lnf"][i % 4] for i in range(a - 1)],
           ["luo"] + [["lno", "ruo", "luf", "rnf"][i % 4] for i in range(a - 1)]]
    while len(out) < k:
        out.append(rnd())
    res = []
    for d in out[:k]:
        if d not in res:
            res.append(d)
    return res


# ------------------------------------------------------------------------------------- oracle (abstract)
class TaskInfo(object):
    """Everything the oracle knows about one task, computed from the shape alone."""

    def __init__(self, shape):
        self.shape = shape
        self.expected_msgs = []     # in emission order: (level tuple, kind, action_type or None, status or None)
        self.actions = {}           # level tuple -> dict(start=i, end=i, kids=[("M", i) | ("A", level)], below=mask, type=, status=)
        self.lone = shape[0] == "M"
        if self.lone:
            self.expected_msgs.append(((1,), "msg", None, None))
        else:
            self._walk(shape, (), 0)
        self.n = len(self.expected_msgs)
        self.full = (1 << self.n) - 1
        self.index_by_level = {m[0]: i for i, m in enumerate(self.expected_msgs)}
        self._cache = {}

    @staticmethod
    def type_of(deco, depth_):
        if deco[1] == "u":
            return ""
        return "eliot:remote_task" if deco[0] == "r" else "app:act%d" % depth_

    def _walk(self, shape, level, depth_):
        deco = shape[1]
        atype = self.type_of(deco, depth_)
        status = "succeeded" if deco[2] == "o" else "failed"
        info = {"kids": [], "type": atype, "status": status}
        self.actions[level] = info
        info["start"] = len(self.expected_msgs)
        self.expected_msgs.append((level + (1,), "start", atype, "started"))
        below = 1 << info["start"]
        pos = 2
        for c in shape[2]:
            if c[0] == "M":
                i = len(self.expected_msgs)
                self.expected_msgs.append((level + (pos,), "msg", None, None))
                info["kids"].append(("M", i)); below |= 1 << i
            else:
                cl = level + (pos,)
                self._walk(c, cl, depth_ + 1)
                info["kids"].append(("A", cl)); below |= self.actions[cl]["below"]
            pos += 1
        info["end"] = len(self.expected_msgs)
        self.expected_msgs.append((level + (pos,), "end", atype, status))
        below |= 1 << info["end"]
        info["below"] = below

    def _build(self, level, mask):
        a = self.actions[level]
        kids = []
        for kind, x in a["kids"]:
            if kind == "M":
                if mask >> x & 1:
                    kids.append(("M", self.expected_msgs[x][0], x))
            elif self.actions[x]["below"] & mask:
                kids.append(self._build(x, mask))
        s = a["start"] if mask >> a["start"] & 1 else None
        e = a["end"] if mask >> a["end"] & 1 else None
        return ("A", level, s, e, tuple(kids))

    def expected(self, mask):
        """(nodes: level -> projection, completed: set of levels) for the subset `mask` of this task's messages."""
        r = self._cache.get(mask)
        if r is None:
            if self.lone:
                r = ({(): ("M", (1,), 0)}, {()}) if mask else ({}, set())
            else:
                nodes = {}; comp = set()
                for level, a in self.actions.items():
                    if a["below"] & mask:
                        nodes[level] = self._build(level, mask)
                        if a["below"] & mask == a["below"]:
                            comp.add(level)
                r = (nodes, comp)
            self._cache[mask] = r
        return r


# ---------------------------------------------------------------------------------- emission (real API)
def emit_task(shape, info):
    """Run the real API for one task; return its messages as JSON-round-tripped dicts ordered like
    info.expected_msgs, or raise AssertionError describing how the emission differs from the oracle."""
    assert current_action() is None, "emission must start outside any action"
    main = []; remotes = []
    add_destinations(main.append)
    try:
        def do(s, depth_):
            if s[0] == "M":
                log_message(message_type="m%d" % len(main), k=len(main), v=[1, {"x": None}])
                return
            deco = s[1]
            atype = TaskInfo.type_of(deco, depth_)
            if deco[0] == "l":
                if deco[1] == "u":
                    act = start_action(f=depth_)                   # default action_type == ""
                else:
                    act = start_action(action_type=atype, f=depth_)
            else:
                parent = current_action()
                assert parent is not None, "remote sub-task needs a parent action"
                task_id = parent.serialize_task_id()
                if len(remotes) % 2:
                    task_id = task_id.decode("ascii")              # both bytes and str ids are accepted
                rl = MemoryLogger(); remotes.append(rl)
                if deco[1] == "u":
                    act = Action.continue_task(rl, task_id, action_type="")
                else:
                    act = Action.continue_task(rl, task_id)         # default "eliot:remote_task"
            try:
                with act:
                    for c in s[2]:
                        do(c, depth_ + 1)
                    if deco[2] == "f":
                        raise Boom("failed on purpose")
            except Boom:
                pass
        do(shape, 0)
    finally:
        remove_destination(main.append)
    assert current_action() is None, "emission left a current action behind"
    raw = list(main)
    for rl in remotes:
        raw.extend(rl.messages)
    msgs = [json.loads(json.dumps(m)) for m in raw]
    msgs.sort(key=lambda m: m["task_level"])
    got = []
    for m in msgs:
        if "action_type" in m:
            got.append((tuple(m["task_level"]), "start" if m.get("action_status") == "started" else "end", m["action_type"], m.get("action_status")))
        else:
            got.append((tuple(m["task_level"]), "msg", None, None))
    assert got == info.expected_msgs, "emitted messages %r differ from the oracle's %r" % (got, info.expected_msgs)
    assert len(set(m["task_uuid"] for m in msgs)) == 1, "one task produced several task_uuids"
    return msgs


class World(object):
    """A set of tasks: shapes, oracle infos, emitted messages, global message indices."""

    def __init__(self, shapes):
        self.shapes = shapes
        self.infos = [TaskInfo(s) for s in shapes]
        self.msgs = []; self.owner = []      # global index -> message dict / (task number, local index)
        self.uuids = []
        for t, (s, info) in enumerate(zip(shapes, self.infos)):
            ms = emit_task(s, info)
            self.uuids.append(ms[0]["task_uuid"])
            for i, m in enumerate(ms):
                self.msgs.append(m); self.owner.append((t, i))
        assert len(set(self.uuids)) == len(self.uuids), "two tasks share a task_uuid"
        self.n = len(self.msgs)
        self.task_of_uuid = {u: t for t, u in enumerate(self.uuids)}
        self.base = []                       # first global index of each task
        b = 0
        for info in self.infos:
            self.base.append(b); b += info.n
        self._canon = {0: (Parser(), None)}; self._full = {}; self._pmemo = {}

    def full_task(self, t):
        """The completed Task of task t as reported when its messages are fed alone, in ascending order."""
        if t not in self._full:
            r = None
            try:
                p = Parser()
                for i in range(self.infos[t].n):
                    done, p = p.add(self.msgs[self.base[t] + i])
                r = done[0] if done else None
            except Exception:
                r = None
            self._full[t] = r
        return self._full[t]

    def split(self, gmask):
        return [(gmask >> self.base[t]) & info.full for t, info in enumerate(self.infos)]

    def canon(self, gmask):
        """Parser obtained by feeding the subset in ascending index order (None if that raises)."""
        r = self._canon.get(gmask)
        if r is None:
            hi = gmask.bit_length() - 1
            prev = self.canon(gmask & ~(1 << hi))[0]
            if prev is None:
                r = (None, None)
            else:
                try:
                    done, p = prev.add(self.msgs[hi])
                    r = (p, done)
                except Exception:
                    r = (None, None)
            self._canon[gmask] = r
        return r


# --------------------------------------------------------------------------- projection of the real value
def project(node, world, t, problems):
    """Plain-tuple rendering of a WrittenAction / WrittenMessage, validated against the fed messages.
    Results are memoised per object identity (the values are immutable; the memo keeps the object alive so an
    id cannot be recycled; the `==` comparison against the ascending-order Parser does not use the memo)."""
    info = world.infos[t]; uuid = world.uuids[t]; memo = world._pmemo

    def msg_index(wm, what):
        try:
            lvl = tuple(wm.task_level.level)
        except Exception as e:
            problems.append("%s: task_level unreadable (%s)" % (what, type(e).__name__)); return "?"
        i = info.index_by_level.get(lvl)
        if i is None:
            problems.append("%s: level %r is not a level of this task" % (what, lvl)); return "?"
        if dict(wm.as_dict()) != world.msgs[world.base[t] + i]:
            problems.append("%s at %r: contents differ from the message that was fed" % (what, lvl)); return "?"
        if wm.task_uuid != uuid:
            problems.append("%s at %r: wrong task_uuid" % (what, lvl))
        return i

    def go(nd):
        hit = memo.get(id(nd))
        if hit is not None and hit[0] is nd:
            problems.extend(hit[2])
            return hit[1]
        n0 = len(problems)
        r = go_(nd)
        memo[id(nd)] = (nd, r, problems[n0:])
        return r

    def go_(nd):
        if isinstance(nd, WrittenMessage):
            i = msg_index(nd, "message")
            return ("M", tuple(nd.task_level.level), i)
        if not isinstance(nd, WrittenAction):
            problems.append("node of unexpected type %s" % type(nd).__name__)
            return ("?",)
        lvl = tuple(nd.task_level.level)
        s = msg_index(nd.start_message, "start message") if nd.start_message is not None else None
        e = msg_index(nd.end_message, "end message") if nd.end_message is not None else None
        if nd.task_uuid != uuid:
            problems.append("action %r: wrong task_uuid" % (lvl,))
        a = info.actions.get(lvl)
        if a is not None:
            want_type = a["type"] if (s is not None or e is not None) else None
            want_status = a["status"] if e is not None else ("started" if s is not None else None)
            if nd.action_type != want_type:
                problems.append("action %r: action_type %r, expected %r" % (lvl, nd.action_type, want_type))
            if nd.status != want_status:
                problems.append("action %r: status %r, expected %r" % (lvl, nd.status, want_status))
            st = world.msgs[world.base[t] + a["start"]]["timestamp"] if s is not None else None
            et = world.msgs[world.base[t] + a["end"]]["timestamp"] if e is not None else None
            if nd.start_time != st or nd.end_time != et:
                problems.append("action %r: start_time/end_time wrong" % (lvl,))
            if (nd.exception is not None) != (e is not None and a["status"] == "failed"):
                problems.append("action %r: exception property %r" % (lvl, nd.exception))
        kids = list(nd.children)
        if len(kids) != len(nd._children):
            problems.append("action %r: children/_children sizes differ" % (lvl,))
        for k, v in nd._children.items():
            if k != v.task_level:
                problems.append("action %r: child stored under key %r has level %r" % (lvl, k.as_list(), v.task_level.as_list()))
        return ("A", lvl, s, e, tuple(go(c) for c in kids))
    return go(node)


def check_task(task, world, t, mask, problems, clause_of):
    """Compare a real Task with the oracle's partial tree for subset `mask` of task t."""
    info = world.infos[t]
    exp_nodes, exp_comp = info.expected(mask)
    p = []
    if not isinstance(task, Task):
        problems.append("not a Task: %r" % type(task).__name__); clause_of.append("partial_tree"); return
    try:
        got_keys = set(tuple(k.level) for k in task._nodes.keys())
        if got_keys != set(exp_nodes):
            p.append("_nodes has levels %s, expected %s" % (sorted(got_keys), sorted(exp_nodes)))
        for k, nd in task._nodes.items():
            lvl = tuple(k.level)
            pr = project(nd, world, t, p)
            if lvl in exp_nodes and pr != exp_nodes[lvl]:
                p.append("sub-tree at %r is %s, expected %s" % (list(lvl), short(pr), short(exp_nodes[lvl])))
            if isinstance(nd, WrittenAction) and tuple(nd.task_level.level) != lvl:
                p.append("node stored under %r has level %r" % (lvl, nd.task_level.as_list()))
        if exp_nodes:
            r = task.root()
            if r is not task._nodes[TaskLevel(level=[])] and r != task._nodes[TaskLevel(level=[])]:
                p.append("root() is not the node at level []")
        if p:
            clause_of.append("partial_tree")
        got_comp = set(tuple(k.level) for k in task._completed)
        if got_comp != exp_comp:
            p.append("_completed is %s, expected %s" % (sorted(got_comp), sorted(exp_comp)))
            clause_of.append("complete_exactly")
        if task.is_complete() != (mask == info.full):
            p.append("is_complete() is %r with %d of %d messages present" % (task.is_complete(), bin(mask).count("1"), info.n))
            clause_of.append("complete_exactly")
    except Exception as e:
        p.append("inspecting the Task raised %s: %s" % (type(e).__name__, str(e)[:80])); clause_of.append("partial_tree")
    problems.extend(p)


def short(pr):
    """Compact rendering of a projection: A[level](start?,end?){kids} / M[level]."""
    if pr[0] == "M":
        return "M%s" % (list(pr[1]),)
    if pr[0] != "A":
        return "?"
    return "A%s(%s%s){%s}" % (list(pr[1]), "s" if pr[2] is not None else "-", "e" if pr[3] is not None else "-", ",".join(short(c) for c in pr[4]))


# ------------------------------------------------------------------------------- one Parser.add, checked
def check_step(world, old, new, done, g, gmask, problems, clauses):
    """old --add(msgs[g])--> (done, new); gmask includes g."""
    t, _ = world.owner[g]
    masks = world.split(gmask)
    info = world.infos[t]; uuid = world.uuids[t]
    full = masks[t] == info.full
    if not isinstance(done, list):
        problems.append("Parser.add returned %r as the completed list" % type(done).__name__); clauses.append("yield_once"); done = list(done)
    if full:
        if len(done) == 0:
            problems.append("last message of task %d arrived but no task was reported complete" % t); clauses.append("complete_exactly")
        elif len(done) > 1:
            problems.append("%d tasks reported complete by one message" % len(done)); clauses.append("yield_once")
        for d in done[:1]:
            check_task(d, world, t, masks[t], problems, clauses)
        if uuid in new._tasks:
            problems.append("completed task %d is still held by the parser (would be yielded again)" % t); clauses.append("yield_once")
    else:
        if done:
            problems.append("task %d reported complete with %d of %d messages present" % (t, bin(masks[t]).count("1"), info.n)); clauses.append("complete_exactly")
        cur = new._tasks.get(uuid)
        if cur is None:
            problems.append("incomplete task %d is not held by the parser" % t); clauses.append("end_of_stream")
        else:
            check_task(cur, world, t, masks[t], problems, clauses)
    want = set(world.uuids[s] for s, m in enumerate(masks) if m and m != world.infos[s].full)
    have = set(new._tasks.keys())
    if have != want:
        problems.append("parser holds tasks %s, expected %s" % (sorted(world.task_of_uuid.get(u, u) for u in have), sorted(world.task_of_uuid[u] for u in want)))
        clauses.append("end_of_stream")
    for u in have:
        if u != uuid and not (new._tasks[u] is old._tasks.get(u) or new._tasks[u] == old._tasks.get(u)):
            problems.append("message of task %d changed the state of task %s" % (t, world.task_of_uuid.get(u, u))); clauses.append("order_independent")
    inc = new.incomplete_tasks()
    if len(inc) != len(have) or any(x.is_complete() for x in inc) or any(not any(x is y for y in new._tasks.values()) for x in inc):
        problems.append("incomplete_tasks() does not list exactly the held tasks"); clauses.append("end_of_stream")
    cp, cdone = world.canon(gmask)
    if cp is not None:
        if not (new == cp) or (new != cp):
            problems.append("Parser value differs (==) from the one built from the same messages in ascending order"); clauses.append("order_independent")
    if full and done:
        ft = world.full_task(t)
        if ft is not None and (not (done[0] == ft) or (done[0] != ft)):
            problems.append("completed Task differs (==) from the one built from the same messages in ascending order"); clauses.append("order_independent")


def check_stream(world, seq, problems, clauses):
    """Parser.parse_stream over the arrival `seq` (global indices)."""
    consumed = [0]; exhausted = [False]

    def feed():
        for g in seq:
            consumed[0] += 1
            yield world.msgs[g]
        exhausted[0] = True
    gmask = 0; last_pos = {}
    for pos, g in enumerate(seq, 1):
        gmask |= 1 << g; last_pos[world.owner[g][0]] = pos
    masks = world.split(gmask)
    got = []
    try:
        for task in Parser.parse_stream(feed()):
            got.append((consumed[0], exhausted[0], task))
    except Exception as e:
        problems.append("parse_stream raised %s: %s" % (type(e).__name__, str(e)[:80])); clauses.append("no_error"); return
    seen = {}; order = []
    for at, exh, task in got:
        try:
            u = task.root().task_uuid
        except Exception as e:
            problems.append("yielded task has no usable root (%s)" % type(e).__name__); clauses.append("partial_tree"); continue
        t = world.task_of_uuid.get(u)
        if t is None:
            problems.append("yielded task with unknown uuid"); clauses.append("partial_tree"); continue
        seen[t] = seen.get(t, 0) + 1
        if not exh:
            order.append(t)
        full = masks[t] == world.infos[t].full
        if full and (exh or at != last_pos[t]):
            problems.append("complete task %d yielded after %d messages%s, its last message was number %d" % (t, at, " (end of stream)" if exh else "", last_pos[t])); clauses.append("complete_exactly")
        if not full and not exh:
            problems.append("incomplete task %d yielded after %d messages, before the end of the stream" % (t, at)); clauses.append("complete_exactly")
        check_task(task, world, t, masks[t], problems, clauses)
    for t, m in enumerate(masks):
        c = seen.get(t, 0)
        if m and c == 0:
            problems.append("task %d was never yielded (%s)" % (t, "complete" if m == world.infos[t].full else "incomplete")); clauses.append("end_of_stream" if m != world.infos[t].full else "complete_exactly")
        if c > 1:
            problems.append("task %d yielded %d times" % (t, c)); clauses.append("yield_once")
        if not m and c:
            problems.append("task %d yielded without any message" % t); clauses.append("yield_once")
    want_order = [t for t, _ in sorted(((t, p) for t, p in last_pos.items() if masks[t] == world.infos[t].full), key=lambda x: x[1])]
    if not problems and order != want_order:
        problems.append("completed tasks yielded in order %r, completion order was %r" % (order, want_order)); clauses.append("complete_exactly")


# ------------------------------------------------------------------------------------------- unit runner
class Collector(object):
    def __init__(self, shapes):
        self.shapes = shapes; self.cases = 0; self.distinct = 0; self.bad = 0; self.fails = []

    def record(self, entry, seq, problems, clauses, exc=None):
        self.bad += 1
        sig = {"clause": first_clause(clauses), "entry": entry}
        if exc:
            sig["exc"] = exc
        if not any(f["signature"] == sig for f in self.fails) and len(self.fails) < 5:
            self.fails.append({"signature": sig, "scenario": {"tasks": self.shapes, "entry": entry, "order": list(seq)}, "observed": [s[:300] for s in problems[:4]]})


CLAUSE_ORDER = ["emission", "no_error", "complete_exactly", "yield_once", "partial_tree", "end_of_stream", "order_independent"]


def first_clause(clauses):
    for c in CLAUSE_ORDER:
        if c in clauses:
            return c
    return "other"


def walk(world, col, first=None):
    """Depth-first walk over all ordered arrivals of all subsets (optionally only those starting with `first`)."""
    n = world.n; msgs = world.msgs
    seq = []

    def rec(parser, gmask, choices):
        for g in choices:
            if col.bad >= MAX_BAD_NODES_PER_UNIT:
                return
            seq.append(g); col.cases += 1
            if len(seq) > 1:
                col.distinct += 1
            m2 = gmask | (1 << g)
            problems = []; clauses = []
            try:
                done, new = parser.add(msgs[g])
            except Exception as e:
                col.record("add", seq, ["Parser.add raised %s: %s" % (type(e).__name__, str(e)[:120])], ["no_error"], type(e).__name__)
                seq.pop(); continue
            try:
                check_step(world, parser, new, done, g, m2, problems, clauses)
            except Exception as e:
                problems.append("checking the result raised %s: %s" % (type(e).__name__, str(e)[:120])); clauses.append("partial_tree")
            if problems:
                col.record("add", seq, problems, clauses)
            rec(new, m2, [h for h in range(n) if not (m2 >> h) & 1])
            seq.pop()
    rec(Parser(), 0, range(n) if first is None else [first])


def streams(world, col, rng, all_perms_upto, n_random_full):
    """parse_stream runs: every non-empty subset in one seeded order; the full set in all / seeded orders."""
    n = world.n
    seqs = []
    for gmask in range(1, 1 << n):
        s = [g for g in range(n) if gmask >> g & 1]
        rng.shuffle(s); seqs.append(s)
    if n <= all_perms_upto:
        seqs.extend(list(p) for p in itertools.permutations(range(n)))
    else:
        for _ in range(n_random_full):
            s = list(range(n)); rng.shuffle(s); seqs.append(s)
    seen = set()
    for s in seqs:
        if col.bad >= MAX_BAD_NODES_PER_UNIT:
            return
        col.cases += 1
        if len(s) > 1 and tuple(s) not in seen:
            col.distinct += 1; seen.add(tuple(s))
        problems = []; clauses = []
        try:
            check_stream(world, s, problems, clauses)
        except Exception as e:
            problems.append("checking parse_stream raised %s: %s" % (type(e).__name__, str(e)[:120])); clauses.append("partial_tree")
        if problems:
            exc = None
            if clauses and clauses[0] == "no_error":
                exc = problems[0].split()[2].rstrip(":")
            col.record("stream", s, problems, clauses, exc)


def sampled(world, col, rng, k):
    """k seeded random full arrival orders, every prefix checked (for sizes beyond the exhaustive bound)."""
    seen = set()
    for _ in range(k):
        if col.bad >= MAX_BAD_NODES_PER_UNIT:
            return
        order = list(range(world.n)); rng.shuffle(order)
        run_order(world, col, order, seen)


def run_order(world, col, order, seen=None):
    parser = Parser(); gmask = 0; seq = []
    for g in order:
        seq.append(g); col.cases += 1
        if len(seq) > 1 and (seen is None or tuple(seq) not in seen):
            col.distinct += 1
            if seen is not None:
                seen.add(tuple(seq))
        gmask |= 1 << g
        problems = []; clauses = []
        try:
            done, new = parser.add(world.msgs[g])
        except Exception as e:
            col.record("add", seq, ["Parser.add raised %s: %s" % (type(e).__name__, str(e)[:120])], ["no_error"], type(e).__name__)
            return
        try:
            check_step(world, parser, new, done, g, gmask, problems, clauses)
        except Exception as e:
            problems.append("checking the result raised %s: %s" % (type(e).__name__, str(e)[:120])); clauses.append("partial_tree")
        if problems:
            col.record("add", seq, problems, clauses)
        parser = new


def run_unit(unit):
    """unit: dict(shapes=[...], mode="walk"|"sample", first=None|int, streams=bool, seed=int, k=int)."""
    col = Collector(unit["shapes"])
    if time.time() > DEADLINE:
        return {"cases": 0, "distinct": 0, "fails": [], "skipped": 1}
    rng = random.Random(unit["seed"])
    try:
        world = World(unit["shapes"])
    except Exception as e:
        col.cases += 1
        col.record("emit", [], ["emission: %s: %s" % (type(e).__name__, str(e)[:300])], ["emission"], type(e).__name__)
        return {"cases": col.cases, "distinct": col.distinct, "fails": col.fails, "skipped": 0}
    if unit["mode"] == "walk":
        walk(world, col, unit.get("first"))
    else:
        sampled(world, col, rng, unit["k"])
    if unit.get("streams"):
        streams(world, col, rng, unit.get("all_perms_upto", 5), unit.get("n_random_full", 40))
    return {"cases": col.cases, "distinct": col.distinct, "fails": col.fails, "skipped": 0}


# ------------------------------------------------------------------------------------------------- plan
def multisets(sizes_total_max, k):
    """All non-decreasing k-tuples of sizes >= 1 with sum <= sizes_total_max."""
    out = []

    def go(prefix, lo, left):
        if len(prefix) == k:
            out.append(tuple(prefix)); return
        for s in range(lo, left - (k - len(prefix) - 1) + 1):
            go(prefix + [s], s, left - s)
    go([], 1, sizes_total_max)
    return out


def plan(tier, seed):
    quick = tier == "quick"
    P = dict(
        full_deco_upto=5 if quick else 6,          # single task: all structures x ALL decorations up to this many messages
        cover_upto=6 if quick else 8,              # single task: all structures x covering decorations up to this many messages
        cover_k={6: 2, 7: 4, 8: 1},                # number of covering decorations per structure, by size
        sample_sizes=[7, 8] if quick else [9, 10], # structures of these sizes: seeded random full orders, all prefixes checked
        sample_k=24 if quick else 60,
        sample_structs=None if quick else 150,     # cap on sampled structures per size (seeded choice) ; None = all
        pair_total=6 if quick else 7,              # two tasks: all structure pairs with this many messages in total
        pair_k=2 if quick else 3,
        triple_total=5 if quick else 6,
        split_from=7,                              # walks over >= this many messages are split by first message
    )
    rng = random.Random(seed)
    units = []

    def add_walk(shapes, nmsgs, streams=True):
        s = rng.randrange(1 << 30)
        if nmsgs >= P["split_from"]:
            for f in range(nmsgs):
                units.append(dict(shapes=shapes, mode="walk", first=f, streams=streams and f == 0, seed=s, n=nmsgs))
        else:
            units.append(dict(shapes=shapes, mode="walk", first=None, streams=streams, seed=s, n=nmsgs))
    # single task, full decoration product
    for n in range(1, P["full_deco_upto"] + 1):
        for st in structures(n):
            for d in all_decorations(st):
                add_walk([decorate(st, d)], n)
    # single task, covering decorations
    for n in range(P["full_deco_upto"] + 1, P["cover_upto"] + 1):
        for st in structures(n):
            for d in covering_decorations(st, P["cover_k"][n], rng):
                add_walk([decorate(st, d)], n)
    # several tasks
    for k, total, nd in ((2, P["pair_total"], P["pair_k"]), (3, P["triple_total"], 1)):
        for sizes in multisets(total, k):
            for combo in itertools.product(*[list(enumerate(structures(s))) for s in sizes]):
                idx = [(sizes[i], combo[i][0]) for i in range(k)]
                if idx != sorted(idx):
                    continue                       # unordered: same multiset of structures once
                for j in range(nd):
                    shapes = []
                    for _, st in combo:
                        ds = covering_decorations(st, 4, rng)
                        shapes.append(decorate(st, ds[(j + len(shapes)) % len(ds)]))
                    add_walk(shapes, sum(sizes))
    # beyond the exhaustive bound: seeded sampling
    for n in P["sample_sizes"]:
        sts = structures(n)
        if P["sample_structs"] and len(sts) > P["sample_structs"]:
            sts = rng.sample(sts, P["sample_structs"])
        for st in sts:
            d = covering_decorations(st, 1, rng)[0]
            units.append(dict(shapes=[decorate(st, d)], mode="sample", k=P["sample_k"], streams=False, seed=rng.randrange(1 << 30), n=n))
    # stable order: exhaustive walks by size, the seeded samples before the largest walks, so that the time budget
    # can only cut the largest exhaustive walks (reported in "bound" if it happens)
    units.sort(key=lambda u: (u["n"] if u["mode"] == "walk" and u["n"] <= 7 else (7.5 if u["mode"] == "sample" else u["n"])))
    return P, units


def describe_bound(P, skipped, units):
    maxdepth = 0
    for u in units:
        if u["mode"] == "walk":
            for s in u["shapes"]:
                maxdepth = max(maxdepth, depth(s))
    s = ("EXHAUSTIVE over arrival: every arrival order of every subset of the messages (all nodes of the permutation tree), for "
         "(a) every single well-formed task with <= %d messages: all structures (one-message task; root action with any sequence of messages / nested actions / "
         "remote sub-tasks) x the full product of per-action decorations {local | remote via serialize_task_id+continue_task} x {named | default empty action_type} x {succeeded | failed}; "
         "(b) every task structure with %d..%d messages (nesting depth <= %d) x a covering set of decorations (%s per structure, taken in order from: plain local+named+succeeded, all remote+unnamed+failed, two alternating mixes; a single one is drawn at random from the seed); "
         "(c) every unordered pair of task structures with <= %d messages in total (%d decoration assignments each) and every unordered triple with <= %d messages in total: all interleavings of all orders of all subsets of the union. "
         "SEEDED SAMPLE beyond that: task structures with %s messages (%s, one seeded decoration each), %d random full arrival orders each, every prefix checked. "
         "parse_stream: every subset in one seeded order, plus all orders of the full set up to 5 messages and 40 seeded orders above."
         % (P["full_deco_upto"], P["full_deco_upto"] + 1, P["cover_upto"], maxdepth,
            ", ".join("%d at %d messages" % (P["cover_k"][n], n) for n in range(P["full_deco_upto"] + 1, P["cover_upto"] + 1)),
            P["pair_total"], P["pair_k"], P["triple_total"], " and ".join(map(str, P["sample_sizes"])),
            "all structures" if not P["sample_structs"] else "all structures of a size, or a seeded choice of %d of them where there are more" % P["sample_structs"], P["sample_k"]))
    if skipped:
        cats = {}
        for u, sk in zip(units, skipped):
            key = ("exhaustive walk" if u["mode"] == "walk" else "seeded sample", len(u["shapes"]), u["n"])
            c = cats.setdefault(key, [0, 0]); c[1] += 1; c[0] += sk
        s += (" TRUNCATED BY THE TIME BUDGET (machine load): not run were " +
              "; ".join("%d of the %d work units '%s, %d task(s), %d messages'" % (c[0], c[1], k[0], k[1], k[2]) for k, c in sorted(cats.items()) if c[0]) +
              " (a walk over >= %d messages is %s work units, one per first message); everything else stated above was run in full." % (P["split_from"], "that many"))
    return s


RULE = ("a scenario is (set of decorated task shapes, ordered arrival of a subset of their messages); shapes are enumerated exhaustively by message count, "
        "arrivals as the nodes of the permutation tree (prefix-sharing walk on the persistent Parser) and as parse_stream inputs; every scenario is checked after its last message "
        "against an oracle computed from the shapes alone; cases = scenarios run (one per walk node / sampled prefix / parse_stream input), distinct = pairwise different scenarios (per entry point) with at least two messages")


def emit_result(cases, distinct, fails, bound):
    failures = []; known = []
    for f in fails:
        (known if f["signature"] in KNOWN_SIGNATURES else failures).append(f)
    out = []
    for f in failures:
        if not any(o["signature"] == f["signature"] for o in out):
            out.append(f)
    for f in failures:                      # fill up with repeats of a signature only if there is room
        if len(out) < 5 and f not in out:
            out.append(f)
    kn = []
    for f in known:
        if not any(o["signature"] == f["signature"] for o in kn):
            kn.append(f)
    print(json.dumps({"cases": cases, "distinct": distinct, "failures": out[:5], "known": kn[:5], "bound": bound, "rule": RULE}))


def main():
    if args.scenario:
        sc = json.loads(args.scenario)
        shapes = sc["tasks"]
        col = Collector(shapes)
        try:
            world = World(shapes)
        except Exception as e:
            col.cases += 1
            col.record("emit", [], ["emission: %s: %s" % (type(e).__name__, str(e)[:300])], ["emission"], type(e).__name__)
            emit_result(col.cases, col.distinct, col.fails, "the given scenario only")
            return
        order = sc.get("order")
        if order:
            run_order(world, col, order)
            col.cases += 1; col.distinct += 1
            problems = []; clauses = []
            check_stream(world, order, problems, clauses)
            if problems:
                col.record("stream", order, problems, clauses, problems[0].split()[2].rstrip(":") if clauses[0] == "no_error" else None)
            bound = "the given scenario only: one arrival order, every prefix checked through Parser.add, the whole through parse_stream"
        else:
            walk(world, col)
            streams(world, col, random.Random(args.seed), 5, 40)
            bound = "the given task shapes only: every arrival order of every subset of their messages"
        emit_result(col.cases, col.distinct, col.fails, bound)
        return
    P, units = plan(args.tier, args.seed)
    nproc = max(1, min(16, os.cpu_count() or 1))
    results = []
    if nproc > 1:
        import multiprocessing
        ctx = multiprocessing.get_context("fork")
        pool = ctx.Pool(nproc)
        try:
            results.extend(pool.imap(run_unit, units, chunksize=1))      # ordered results keep the run deterministic
        finally:
            pool.terminate(); pool.join()
    else:
        results = [run_unit(u) for u in units]
    cases = sum(r["cases"] for r in results); distinct = sum(r["distinct"] for r in results)
    skipped = [r["skipped"] for r in results]
    fails = [f for r in results for f in r["fails"]]
    sys.stderr.write("c09: %d units, %d cases, %.1fs, %d processes, %d skipped\n" % (len(units), cases, time.time() - T0, nproc, sum(skipped)))
    emit_result(cases, distinct, fails, describe_bound(P, skipped if any(skipped) else None, units))


main()
