"""Native driver for C13 (bounded; real code): typed fields are serialized exactly once, caller data is never
modified, serializer failures are contained and reported (one eliot:traceback + one eliot:serialization_failure
in the current context) for stand-alone, start, success and failure messages.

Prints one JSON line: {cases, distinct, failures:[{signature, scenario, observed}], known:[...], bound, rule}.

KNOWN_ON_UNCHANGED_TREE (kept detected, reported under "known", excluded from "failures"):
  signature {"clause": "caller_unmodified", "logger": "MemoryLogger", "trigger": "validate"}
    d = {"message_type": "c13:mem", "k0": [1, 2], "task_uuid": "u", "task_level": [1], "timestamp": 1.0}
    ml = MemoryLogger(); ml.write(d, MessageType("c13:mem", [Field("k0", lambda v: ["w", v])])._serializer)
    ml.validate()   ->  d["k0"] is now ["w", [1, 2]]  (a second validate() gives ["w", ["w", [1, 2]]]).
    MemoryLogger.write stores the caller's own dictionary and validate() serializes the stored dictionaries in
    place (this side effect is documented for ml.messages, but the object mutated is the caller's dictionary,
    which ILogger.write promises "will not be mutated").  MemoryLogger.write() and .serialize() themselves are clean.

How it works: every scenario builds real Field/MessageType/ActionType objects whose serializers are driver
functions that record every application (argument object, output object or raised exception) and fail on demand.
The oracle is a small independent model of eliot's causal positions (task uuid symbol + level counters) plus the
call log: a delivered declared field must be *the very object* returned by the *single* application, made during
that logging call, of that field's serializer to *the very object* that was logged.
"""
import argparse, hashlib, itertools, json, random, sys, warnings

ap = argparse.ArgumentParser(); ap.add_argument("--tier", default="quick"); ap.add_argument("--seed", type=int, default=0)
ap.add_argument("--scenario"); args = ap.parse_args()
warnings.simplefilter("ignore")

from eliot import (Field, MessageType, ActionType, Logger, MemoryLogger, ValidationError, add_destinations,
                   remove_destination, add_global_fields, current_action, log_message, start_action, start_task,
                   register_exception_extractor)
from eliot import _output, _validation, _errors


def err(*a):
    print(*a, file=sys.stderr)


# ---------------------------------------------------------------- exceptions, values
class Boom(BaseException): pass
class BadStr(Exception):
    def __str__(self): raise RuntimeError("no str for you")
class XErr(Exception):
    def __init__(self, info): Exception.__init__(self, "xerr"); self.info = info
class AppError(Exception):
    def __init__(self, code, data): Exception.__init__(self, "app failed"); self.code = code; self.data = data

SER_EXC = {
    "value": lambda: ValueError("bad value"), "key": lambda: KeyError("zzz"), "valid": lambda: ValidationError("v", "nope"),
    "base": lambda: Boom("boom"), "kbd": lambda: KeyboardInterrupt(), "exit": lambda: SystemExit(3),
    "stop": lambda: StopIteration("s"), "badstr": lambda: BadStr(), "xerr": lambda: XErr([1, 2]),
    "assertion": lambda: AssertionError(), "genexit": lambda: GeneratorExit(),
}
SER_EXC_KINDS = sorted(SER_EXC)
RAISE_KINDS = ["app", "value", "base", "oserr"]


class Obj(object):
    def __init__(self, name): self.name = name; self.state = "s0"; self.items = []
class Eq(object):
    """all instances equal and hash-equal, but distinguishable"""
    def __init__(self, p): self.p = p
    def __eq__(self, o): return isinstance(o, Eq)
    def __hash__(self): return 7
class BadRepr(object):
    def __repr__(self): raise RuntimeError("no repr for you")


def make_values():
    return {"i1": 1, "b1": True, "f1": 1.0, "i0": 0, "b0": False, "f0": 0.0, "s": "abc", "s2": "".join(["a", "bc"]),
            "es": "", "t": (1, 2), "l": [1, 2], "l2": [1, 2], "d": {"a": [1]}, "n": None, "o": Obj("o"), "e1": Eq(1),
            "e2": Eq(2), "by": b"x", "big": 2 ** 70, "nan": float("nan"), "br": BadRepr()}
VALUE_NAMES = sorted(make_values())
# groups of values that compare/hash equal although they are different things
EQUAL_GROUPS = [["i1", "b1", "f1"], ["i0", "b0", "f0"], ["s", "s2"], ["e1", "e2"], ["o", "o"], ["l", "l2"]]


def snap(v):
    if isinstance(v, (list, tuple)): return (type(v).__name__, tuple((id(x), snap(x)) for x in v))
    if isinstance(v, dict): return ("dict", tuple((k, id(x), snap(x)) for k, x in v.items()))
    if isinstance(v, Obj): return ("Obj", v.name, v.state, snap(v.items))
    if isinstance(v, Eq): return ("Eq", v.p)
    if isinstance(v, float): return ("float", repr(v))
    if isinstance(v, (int, bool, str, bytes, type(None))): return (type(v).__name__, v)
    return ("id", id(v))


def short(x, n=90):
    try: s = repr(x)
    except BaseException: s = "<unreprable %s>" % type(x).__name__
    return s if len(s) <= n else s[:n] + "..."


def fq(t): return "%s.%s" % (t.__module__, t.__name__)

RECORDED = ("wrap", "count", "len", "state", "ident")
ALL_KINDS = RECORDED + ("types", "const")


class Ctx(object):
    """model of one action: task symbol, level, message counter"""
    def __init__(self, sym, level, tag): self.sym = sym; self.level = level; self.tag = tag; self.n = 0; self.real = None
    def next(self): self.n += 1; return self.level + [self.n]


class Run(object):
    def __init__(self, sc):
        self.sc = sc
        self.problems = []          # (clause, kind, text)
        self.calls = []             # (idx, arg, out, exc)
        self.plan = {}
        self.counters = {}
        self.vals = make_values()
        self.out = {"G": [], "P": []}
        self.records = []
        self.bind = {}; self.seen_uuids = set(); self.nsym = 0
        self.directs = []
        self.mutn = 0
        self.variant = sc["logger"]
        self.gl = {"G": {}, "P": {}}

    # -------------------------------------------------------------- setup
    def problem(self, clause, kind, text):
        self.problems.append((clause, kind, text))

    def make_ser(self, idx, kind):
        run = self
        def ser(v):
            p = run.plan.get(idx)
            if p is not None:
                e = SER_EXC[p](); run.calls.append((idx, v, None, e)); raise e
            try:
                if kind == "wrap": out = ["w", v]
                elif kind == "count":
                    run.counters[idx] = run.counters.get(idx, 0) + 1; out = {"n": run.counters[idx], "v": v}
                elif kind == "len": out = len(v)
                elif kind == "state": out = {"type": type(v).__name__, "state": getattr(v, "state", None)}
                else: out = v
            except Exception as e:
                run.calls.append((idx, v, None, e)); raise
            run.calls.append((idx, v, out, None)); return out
        return ser

    def build(self):
        sc = self.sc
        self.fields = []
        for idx, (key, kind) in enumerate(sc["fields"]):
            if kind in RECORDED: f = Field(key, self.make_ser(idx, kind), "field %d" % idx)
            elif kind == "types": f = Field.for_types(key, [int, float, bool, str, list, dict, None, bytes], "")
            else: f = Field.for_value(key, "CONST-" + key, "")
            self.fields.append(f)
        self.mtypes = []
        for i, idxs in enumerate(sc["mtypes"]):
            self.mtypes.append(MessageType("c13:m%d" % i, [self.fields[j] for j in idxs], "m"))
        self.atypes = []
        for i, a in enumerate(sc["atypes"]):
            at = ActionType("c13:a%d" % i, [self.fields[j] for j in a["start"]], [self.fields[j] for j in a["success"]], "a")
            if a.get("failure") is not None:
                extra = [Field.for_value("action_type", "c13:a%d" % i, ""), Field.for_value("action_status", "failed", "")]
                ser = _validation._MessageSerializer([self.fields[j] for j in a["failure"]] + extra, allow_additional_fields=True)
                at._serializers = at._serializers.set(failure=ser)
            self.atypes.append(at)
        # loggers / destinations
        self.cG = lambda m: self.out["G"].append((m, dict(m)))
        self.cP = lambda m: self.out["P"].append((m, dict(m)))
        self.gdest = Logger._destinations
        self.saved_globals = dict(self.gdest._globalFields)
        add_destinations(self.cG)
        del self.out["G"][:]
        v = self.variant
        if v == "default": self.lg = None; self.direct_lg = _output._DEFAULT_LOGGER; self.lgtag = "G"
        elif v == "own": self.lg = Logger(); self.direct_lg = self.lg; self.lgtag = "G"
        else:
            self.lg = Logger(); self.lg._destinations = _output.Destinations(); self.direct_lg = self.lg; self.lgtag = "P"
            if v == "private": self.lg._destinations.add(self.cP)
        if sc.get("globals"):
            self.gl["G"] = {"g_host": ["host"], "g_pid": 4242}
            add_global_fields(**self.gl["G"])
            if self.lgtag == "P":
                self.gl["P"] = {"g_host": ["phost"], "g_pid": 777}
                self.lg._destinations.addGlobalFields(**self.gl["P"])

    def teardown(self):
        try: remove_destination(self.cG)
        except Exception as e: err("teardown: remove_destination failed", e)
        try:
            self.gdest._globalFields.clear(); self.gdest._globalFields.update(self.saved_globals)
        except Exception as e: err("teardown: restoring global fields failed", e)

    # -------------------------------------------------------------- bookkeeping around one logging call
    def snapshot_all(self):
        s = {}
        for name, v in self.vals.items(): s["val:" + name] = (v, snap(v))
        for i, d in enumerate(self.directs): s["direct-dict#%d" % i] = (d, snap(d))
        return s

    def compare_snap(self, before, kind, label):
        for name, (obj, s) in before.items():
            if snap(obj) != s:
                self.problem("caller_unmodified", kind, "%s: caller's %s was modified: now %s" % (label, name, short(obj, 140)))

    def begin(self, label, kind, exp, plan=None):
        self.plan = dict(plan or {})
        return {"label": label, "kind": kind, "exp": exp, "m0": {t: len(self.out[t]) for t in self.out},
                "c0": len(self.calls), "snap": self.snapshot_all()}

    def end(self, tok, raised, expect_raise):
        self.plan = {}
        if tok is None: return
        label, kind = tok["label"], tok["kind"]
        if expect_raise is None and raised is not None:
            self.problem("returns_normally", kind, "%s: logging call raised %s" % (label, short(raised)))
        if expect_raise is not None and raised is not expect_raise:
            self.problem("app_exception", kind, "%s: expected the application's exception %s to propagate, got %s" % (label, short(expect_raise), short(raised)))
        self.compare_snap(tok["snap"], kind, label)
        tok["m1"] = {t: len(self.out[t]) for t in self.out}
        tok["calls"] = self.calls[tok["c0"]:]
        self.records.append(tok)

    def call(self, label, kind, fn, exp, plan=None, expect_raise=None):
        tok = self.begin(label, kind, exp, plan); raised = None
        try: fn()
        except BaseException as e: raised = e
        self.end(tok, raised, expect_raise)

    # -------------------------------------------------------------- oracle: what one typed/untyped write must produce
    def newsym(self):
        self.nsym += 1; return "T%d" % self.nsym

    def report_pos(self, rctx):
        return ("ctx", rctx.sym, rctx.next()) if rctx is not None else ("fresh",)

    def expect_write(self, tag, pos, rctx, decl, logged, plan):
        """decl: [(key, idx)] declared fields with pool index; logged: {key: (obj, 'is'|'eq')} every logged field."""
        bad = []
        for key, idx in decl:
            kind = self.sc["fields"][idx][1]
            if key not in logged: bad.append(("missing", key))
            elif kind in RECORDED and idx in plan: bad.append(("raise", key))
            elif kind == "len" and not hasattr(type(logged[key][0]), "__len__"): bad.append(("natural", key))
        declared = dict(decl)
        if not bad:
            fields = {}
            for key, (obj, mode) in logged.items():
                if key in declared:
                    kind = self.sc["fields"][declared[key]][1]
                    if kind in RECORDED: fields[key] = ("ser", declared[key], obj, mode)
                    elif kind == "const": fields[key] = ("eq", "CONST-" + key)
                    else: fields[key] = (mode, obj)
                else: fields[key] = (mode, obj)
            return [{"what": "msg", "tag": tag, "pos": pos, "fields": fields, "declared": declared}]
        return [{"what": "tb", "tag": tag, "pos": self.report_pos(rctx), "bad": bad, "declared": declared, "logged": logged},
                {"what": "sf", "tag": tag, "pos": self.report_pos(rctx), "keys": list(logged), "declared": declared, "logged": logged}]

    # -------------------------------------------------------------- running ops
    def kw(self, d): return dict((k, self.vals[v]) for k, v in (d or {}).items())
    def planof(self, decl, fail):
        m = dict(decl); return dict((m[k], e) for k, e in (fail or {}).items() if k in m)

    def run_ops(self, ops, cur):
        for op in ops:
            o = op["o"]
            if o == "msg": self.op_msg(op, cur)
            elif o == "untyped": self.op_untyped(op, cur)
            elif o == "direct": self.op_direct(op, cur)
            elif o == "mutate": self.op_mutate(op)
            elif o == "action": self.op_action(op, cur)
            else: raise ValueError("unknown op %r" % (o,))

    def op_mutate(self, op):
        v = self.vals[op["v"]]; self.mutn += 1
        if isinstance(v, Obj): v.state = "s%d" % self.mutn; v.items.append(self.mutn)
        elif isinstance(v, list): v.append(self.mutn)
        elif isinstance(v, dict): v["m%d" % self.mutn] = self.mutn

    def mdecl(self, t):
        return [(self.sc["fields"][j][0], j) for j in self.sc["mtypes"][t]]

    def op_msg(self, op, cur):
        t = op["t"]; mt = self.mtypes[t]; name = "c13:m%d" % t; decl = self.mdecl(t); via = op["via"]
        kw = self.kw(op.get("vals")); kw.update(self.kw(op.get("extra")))
        plan = self.planof(decl, op.get("fail"))
        if via == "write_action" and cur is None: via = "log"
        explicit = via in ("write", "bind", "write2") and self.lg is not None
        tag = self.lgtag if explicit else (cur.tag if cur is not None else "G")
        lg = self.lg
        reps = 2 if via == "write2" else 1
        msgobj = []
        for r in range(reps):
            logged = dict((k, (v, "is")) for k, v in kw.items()); logged["message_type"] = (name, "eq")
            pos = ("ctx", cur.sym, cur.next()) if cur is not None else ("fresh",)
            exp = self.expect_write(tag, pos, cur, decl, logged, plan)
            if via == "log": fn = lambda: mt.log(**kw)
            elif via == "write": fn = lambda: mt(**kw).write(lg)
            elif via == "bind": fn = lambda: mt().bind(**kw).write(lg)
            elif via == "write_action": fn = lambda: mt(**kw).write(action=cur.real)
            else:
                if not msgobj: msgobj.append(mt(**kw))
                fn = lambda: msgobj[0].write(lg)
            self.call("msg/%s m%d" % (via, t), "standalone", fn, exp, plan)
        if msgobj:
            c = msgobj[0].contents()
            if set(c) != set(kw) | {"message_type"} or any(c.get(k) is not v for k, v in kw.items()):
                self.problem("caller_unmodified", "standalone", "Message object changed by write(): contents are now %s" % short(c, 160))

    def op_untyped(self, op, cur):
        kw = self.kw(op.get("vals"))
        logged = dict((k, (v, "is")) for k, v in kw.items()); logged["message_type"] = ("c13:untyped", "eq")
        if cur is not None:
            pos = ("ctx", cur.sym, cur.next()); tag = cur.tag; a = cur.real
            fn = (lambda: a.log("c13:untyped", **kw)) if op.get("via") == "action" else (lambda: log_message("c13:untyped", **kw))
        else:
            pos = ("fresh",); tag = "G"; fn = lambda: log_message("c13:untyped", **kw)
        self.call("untyped", "untyped", fn, self.expect_write(tag, pos, cur, [], logged, {}))

    def op_direct(self, op, cur):
        t = op.get("t")
        if t is None: name = "c13:raw"; decl = []; ser = None
        else: name = "c13:m%d" % t; decl = self.mdecl(t); ser = self.mtypes[t]._serializer
        d = {"message_type": name, "task_uuid": "direct-%d" % len(self.directs), "task_level": [3, 1], "timestamp": 12.5}
        d.update(self.kw(op.get("vals"))); d.update(self.kw(op.get("extra")))
        self.directs.append(d)
        plan = self.planof(decl, op.get("fail"))
        logged = dict((k, (v, "is")) for k, v in d.items())
        if ser is not None: logged["message_type"] = (name, "eq")   # declared (constant-valued) field of every MessageType
        exp = self.expect_write(self.lgtag, ("asis",), cur, decl, logged, plan)
        if exp[0]["what"] == "msg": exp[0]["not_same_dict"] = d
        lg = self.direct_lg
        fn = (lambda: lg.write(d)) if (ser is None and op.get("omit_ser")) else (lambda: lg.write(d, ser))
        self.call("direct m%s" % (t,), "direct" if ser is not None else "direct_untyped", fn, exp, plan)

    def op_action(self, op, cur):
        t = op.get("t"); typed = t is not None; lg = self.lg; tag = self.lgtag; via = op["via"]
        name = "c13:a%d" % t if typed else "c13:plain"
        a_sc = self.sc["atypes"][t] if typed else {"start": [], "success": [], "failure": None}
        dk = lambda idxs: [(self.sc["fields"][j][0], j) for j in idxs]
        if cur is None or op.get("task"): sym = self.newsym(); level = []
        else: sym = cur.sym; level = cur.next()
        actx = Ctx(sym, level, tag)
        # ---- start message
        kw = self.kw(op.get("vals")); kw.update(self.kw(op.get("extra")))
        logged = dict((k, (v, "is")) for k, v in kw.items())
        logged["action_type"] = (name, "eq"); logged["action_status"] = ("started", "eq")
        decl = dk(a_sc["start"]); plan = self.planof(decl, op.get("fail"))
        exp = self.expect_write(tag, ("ctx", sym, actx.next()), cur, decl, logged, plan)
        holder = {}
        if typed:
            at = self.atypes[t]
            if op.get("task"): fn = lambda: holder.setdefault("a", at.as_task(lg, **kw))
            else: fn = lambda: holder.setdefault("a", at(lg, **kw))
        else:
            if op.get("task"): fn = lambda: holder.setdefault("a", start_task(lg, "c13:plain", **kw))
            else: fn = lambda: holder.setdefault("a", start_action(lg, "c13:plain", **kw))
        before = current_action()
        self.call("start %s" % name, "start", fn, exp, plan)
        a = holder.get("a")
        if a is None: return
        actx.real = a
        if sym not in self.bind:
            self.bind[sym] = a.task_uuid; self.seen_uuids.add(a.task_uuid)
        elif self.bind[sym] != a.task_uuid:
            self.problem("context", "start", "child action has task_uuid %r, parent task is %r" % (a.task_uuid, self.bind[sym]))
        # ---- body and end message
        rk = op.get("raise"); exc = None
        if rk == "app": exc = AppError(self.vals[op.get("xcode", "i1")], self.vals[op.get("xdata", "l")])
        elif rk == "value": exc = ValueError("oops")
        elif rk == "base": exc = Boom("stop it")
        elif rk == "oserr": exc = OSError(5, "io broke")
        skw = self.kw(op.get("svals")); skw.update(self.kw(op.get("sextra")))

        def body():
            if current_action() is not a: self.problem("context", "start", "action %s is not current inside its block" % name)
            items = list(skw.items())
            if items: a.add_success_fields(**dict(items[:1]))
            self.run_ops(op.get("body") or [], actx)
            if items[1:]: a.addSuccessFields(**dict(items[1:]))

        def pre_end(rctx):
            if exc is None:
                lgd = dict((k, (v, "is")) for k, v in skw.items())
                lgd["action_status"] = ("succeeded", "eq"); d2 = dk(a_sc["success"]); pl = self.planof(d2, op.get("sfail")); kind = "success"
            else:
                lgd = {"exception": (fq(type(exc)), "eq"), "reason": (str(exc), "eq"), "action_status": ("failed", "eq")}
                if isinstance(exc, AppError): lgd["xcode"] = (exc.code, "is"); lgd["xdata"] = (exc.data, "is")
                if isinstance(exc, OSError): lgd["errno"] = (5, "eq")
                d2 = dk(a_sc["failure"] or []); pl = self.planof(d2, op.get("ffail")); kind = "failure"
            lgd["action_type"] = (name, "eq")
            e = self.expect_write(tag, ("ctx", sym, actx.next()), rctx, d2, lgd, pl)
            return self.begin("%s %s via %s" % (kind, name, via), kind, e, pl)

        tok = None; raised = None
        if via == "with":
            try:
                with a:
                    body(); tok = pre_end(cur)
                    if exc is not None: raise exc
            except BaseException as e: raised = e
            self.end(tok, raised, exc)
        elif via == "ctx_in":
            with a.context():
                body(); tok = pre_end(actx)
                try: a.finish(exc)
                except BaseException as e: raised = e
                self.end(tok, raised, None)
        else:
            if via == "run": a.run(body)
            else:
                with a.context(): body()
            tok = pre_end(cur)
            try: a.finish(exc)
            except BaseException as e: raised = e
            self.end(tok, raised, None)
        if op.get("refinish"):
            self.call("second finish() of %s" % name, "refinish", lambda: a.finish(), [])
        if current_action() is not before:
            self.problem("context", "start", "current action not restored after %s" % name)

    # -------------------------------------------------------------- verification of the delivered streams
    def check_pos(self, m, e, kind, label):
        pos = e["pos"]
        if pos[0] == "asis": return
        u = m.get("task_uuid"); lv = m.get("task_level")
        if not isinstance(m.get("timestamp"), float):
            self.problem("keys", kind, "%s: %s timestamp is %s" % (label, e["what"], short(m.get("timestamp"))))
        if pos[0] == "fresh":
            if not isinstance(u, str) or u in self.seen_uuids or lv != [1]:
                self.problem("context", kind, "%s: %s logged outside any action should start a new task at [1]; got uuid %s (already used: %s) level %s" % (label, e["what"], short(u), u in self.seen_uuids, lv))
            self.seen_uuids.add(u)
        else:
            sym, level = pos[1], pos[2]
            if sym not in self.bind:
                if u in self.seen_uuids:
                    self.problem("context", kind, "%s: %s reuses task uuid of another task" % (label, e["what"]))
                self.bind[sym] = u; self.seen_uuids.add(u)
            if u != self.bind[sym] or lv != level:
                self.problem("context", kind, "%s: %s expected in task %s at level %s; got uuid-match=%s level %s" % (label, e["what"], sym, level, u == self.bind[sym], lv))

    def check_keys(self, m, e, expected, kind, label):
        exp = set(expected) | set(self.gl[e["tag"]])
        if e["pos"][0] != "asis": exp |= {"task_uuid", "task_level", "timestamp"}
        if set(m) != exp:
            self.problem("keys", kind, "%s: %s has keys %s; missing %s unexpected %s" % (label, e["what"], sorted(m), sorted(exp - set(m)), sorted(set(m) - exp)))
        for k, v in self.gl[e["tag"]].items():
            if k in m and m[k] is not v: self.problem("other_fields_untouched", kind, "%s: global field %s is %s" % (label, k, short(m[k])))

    def check_entry(self, pair, e, calls, kind, label):
        m, at_receipt = pair
        if not isinstance(m, dict):
            self.problem("keys", kind, "%s: destination received %s" % (label, short(m))); return
        if set(m) != set(at_receipt) or any(m[k] is not at_receipt[k] for k in m):
            self.problem("delivered_then_changed", kind, "%s: delivered message changed after delivery: %s -> %s" % (label, short(at_receipt, 120), short(m, 120)))
        what = e["what"]
        if what == "msg":
            if m.get("message_type") in ("eliot:traceback", "eliot:serialization_failure"):
                self.problem("spurious_failure_report", kind, "%s: expected the message itself, got %s: %s" % (label, m.get("message_type"), short(m.get("reason", m.get("message")), 160)))
                return
            self.check_pos(m, e, kind, label)
            self.check_keys(m, e, e["fields"], kind, label)
            if e.get("not_same_dict") is not None and m is e["not_same_dict"]:
                self.problem("aliased", kind, "%s: destination received the caller's own dictionary object" % label)
            for key, spec in e["fields"].items():
                if key not in m: continue
                got = m[key]
                if spec[0] == "ser":
                    idx, obj, mode = spec[1], spec[2], spec[3]
                    cs = [c for c in calls if c[0] == idx]
                    if len(cs) != 1:
                        self.problem("exactly_once", kind, "%s: serializer of declared field %s (%s) applied %d times during the call; delivered %s for logged %s" % (label, key, self.sc["fields"][idx][1], len(cs), short(got), short(obj)))
                        continue
                    c = cs[0]
                    same = (c[1] is obj) if mode == "is" else (type(c[1]) is type(obj) and c[1] == obj)
                    if not same:
                        self.problem("declared_value", kind, "%s: serializer of %s applied to %s, not to the logged value %s" % (label, key, short(c[1]), short(obj)))
                    if c[3] is not None or got is not c[2]:
                        self.problem("declared_value", kind, "%s: delivered %s=%s is not the serializer's output %s" % (label, key, short(got), short(c[2])))
                elif spec[0] == "is":
                    if got is not spec[1]:
                        clause = "declared_value" if key in e["declared"] else "other_fields_untouched"
                        self.problem(clause, kind, "%s: field %s logged as %s (%s) delivered as %s (%s)" % (label, key, short(spec[1]), type(spec[1]).__name__, short(got), type(got).__name__))
                else:
                    if type(got) is not type(spec[1]) or got != spec[1]:
                        clause = "declared_value" if key in e["declared"] else "other_fields_untouched"
                        self.problem(clause, kind, "%s: field %s expected %s delivered %s" % (label, key, short(spec[1]), short(got)))
            rec_decl = set(i for i in e["declared"].values() if self.sc["fields"][i][1] in RECORDED)
            stray = [c for c in calls if c[0] not in rec_decl]
            if stray:
                self.problem("exactly_once", kind, "%s: serializers of fields not declared for this message were applied: %s" % (label, sorted(set(self.sc["fields"][c[0]][0] for c in stray))))
            return
        # failure reports
        self.check_pos(m, e, kind, label)
        declared = e["declared"]; logged = e["logged"]
        for idx in set(c[0] for c in calls):
            cs = [c for c in calls if c[0] == idx]
            key = self.sc["fields"][idx][0]
            if idx not in declared.values():
                self.problem("exactly_once", kind, "%s: serializer of undeclared field %s applied" % (label, key))
            elif len(cs) > 1:
                self.problem("exactly_once", kind, "%s: serializer of %s applied %d times to a failing message" % (label, key, len(cs)))
            elif key in logged and logged[key][1] == "is" and cs[0][1] is not logged[key][0]:
                self.problem("declared_value", kind, "%s: serializer of %s applied to %s, not the logged value" % (label, key, short(cs[0][1])))
        if what == "tb":
            if m.get("message_type") != "eliot:traceback":
                self.problem("traceback", kind, "%s: expected eliot:traceback (bad fields %s), got %s" % (label, e["bad"], short(dict((k, m[k]) for k in m if k not in ("timestamp", "task_uuid")), 200)))
                return
            raised = [c[3] for c in calls if c[3] is not None]
            cands = []
            for x in raised:
                try: r = str(x)
                except BaseException: r = None
                cands.append((fq(type(x)), r, x))
            for b in e["bad"]:
                if b[0] == "missing": cands.append(("builtins.KeyError", repr(b[1]), None))
            hit = [c for c in cands if m.get("exception") == c[0] and isinstance(m.get("reason"), str) and (c[1] is None or m.get("reason") == c[1])]
            if not hit:
                self.problem("traceback", kind, "%s: traceback reports exception=%s reason=%s; expected one of %s" % (label, short(m.get("exception")), short(m.get("reason")), [(c[0], c[1]) for c in cands]))
            tb = m.get("traceback")
            if not isinstance(tb, str) or "Traceback" not in tb or (hit and hit[0][0].split(".")[-1] not in tb):
                self.problem("traceback", kind, "%s: traceback text is %s" % (label, short(tb, 80)))
            keys = {"message_type", "reason", "traceback", "exception"}
            if hit and isinstance(hit[0][2], XErr):
                keys.add("xinfo")
                if m.get("xinfo") is not hit[0][2].info: self.problem("traceback", kind, "%s: extracted field xinfo is %s" % (label, short(m.get("xinfo"))))
            self.check_keys(m, e, keys, kind, label)
        else:
            if m.get("message_type") != "eliot:serialization_failure":
                self.problem("serialization_failure", kind, "%s: expected eliot:serialization_failure, got %s" % (label, short(m.get("message_type")))); return
            self.check_keys(m, e, {"message_type", "message"}, kind, label)
            s = m.get("message")
            if not isinstance(s, str) or any(repr(k) not in s for k in e["keys"]):
                self.problem("serialization_failure", kind, "%s: 'message' does not describe the failed message (fields %s): %s" % (label, sorted(e["keys"]), short(s, 160)))

    def verify(self):
        buffered = self.variant == "buffered"
        if buffered:
            try: self.lg._destinations.add(self.cP)
            except BaseException as x: self.problem("returns_normally", "flush", "adding a destination raised %s" % short(x))
        cursor = {"G": 0, "P": 0}
        for rec in self.records:
            label, kind = rec["label"], rec["kind"]
            ok = True
            for tag in ("G", "P"):
                exp = [e for e in rec["exp"] if e["tag"] == tag]
                if buffered and tag == "P":
                    got = self.out[tag][cursor[tag]:cursor[tag] + len(exp)]
                    if len(got) != len(exp):
                        self.problem("count", kind, "%s: buffered stream ended early" % label); ok = False
                else:
                    got = self.out[tag][rec["m0"][tag]:rec["m1"][tag]]
                    if len(got) != len(exp):
                        desc = [(g[0].get("message_type") or g[0].get("action_status")) if isinstance(g[0], dict) else short(g[0]) for g in got]
                        exp_failed = any(e["what"] == "tb" for e in rec["exp"])
                        clause = "not_delivered_on_failure" if exp_failed else "count"
                        where = "global destinations" if tag == "G" else "the logger's own destinations"
                        self.problem(clause, kind, "%s: expected %s to reach %s during the call, got %s" % (label, [e["what"] for e in exp], where, desc)); ok = False
                cursor[tag] += len(exp)
                if ok:
                    for pair, e in zip(got, exp): self.check_entry(pair, e, rec["calls"], kind, label)
            if not exp_any(rec) and rec["calls"]:
                self.problem("exactly_once", kind, "%s: serializers applied although nothing is logged" % label)
            if not ok: break
        else:
            for tag in ("G", "P"):
                # nothing may be delivered outside the logging calls
                n_exp = sum(len([e for e in r["exp"] if e["tag"] == tag]) for r in self.records)
                if len(self.out[tag]) != n_exp and not self.problems:
                    self.problem("count", "any", "%d messages delivered in total to stream %s, expected %d" % (len(self.out[tag]), tag, n_exp))
        # the caller can go on using its dictionaries without affecting what was delivered
        for d in self.directs:
            for tag in ("G", "P"):
                for m, _ in self.out[tag]:
                    if m is d: self.problem("aliased", "direct", "a destination holds the caller's own dictionary object")


def exp_any(rec): return bool(rec["exp"])


def run_scenario(sc):
    r = Run(sc)
    try:
        r.build()
        try:
            r.run_ops(sc["ops"], None)
            if current_action() is not None: r.problem("context", "any", "an action is still current after the scenario")
            r.verify()
        finally:
            r.teardown()
    except Exception as e:
        import traceback; err(traceback.format_exc())
        r.problem("driver_or_library_error", "any", "scenario aborted: %s" % short(e, 200))
    return r.problems


# ---------------------------------------------------------------- MemoryLogger: write()/serialize() must not touch the caller's dict
def run_memory(sc):
    """sc: {"mem": 1, "kinds": [kind...], "vals": [valname...]}"""
    problems = []
    calls = []
    fields = []
    for i, kind in enumerate(sc["kinds"]):
        if kind == "wrap": f = Field("k%d" % i, lambda v: ["w", v], "")
        elif kind == "state": f = Field("k%d" % i, lambda v: {"type": type(v).__name__}, "")
        else: f = Field.for_types("k%d" % i, [int, float, bool, str, list, dict, None], "")
        fields.append(f)
    mt = MessageType("c13:mem", fields, "")
    vals = make_values()
    d = {"message_type": "c13:mem", "task_uuid": "u", "task_level": [1], "timestamp": 1.0}
    for i, v in enumerate(sc["vals"][:len(fields)]): d["k%d" % i] = vals[v]
    s0 = snap(d); ml = MemoryLogger()
    try:
        ml.write(d, mt._serializer)
        if snap(d) != s0: problems.append(("caller_unmodified", "MemoryLogger.write", "MemoryLogger.write modified the caller's dictionary: %s" % short(d, 160)))
        ser = ml.serialize()
        if snap(d) != s0: problems.append(("caller_unmodified", "MemoryLogger.serialize", "MemoryLogger.serialize modified the caller's dictionary: %s" % short(d, 160)))
        for i, kind in enumerate(sc["kinds"]):
            k = "k%d" % i; v = d[k]
            want = ["w", v] if kind == "wrap" else ({"type": type(v).__name__} if kind == "state" else v)
            if len(ser) != 1 or type(ser[0].get(k)) is not type(want) or (ser[0].get(k) != want and want == want):
                problems.append(("exactly_once", "MemoryLogger.serialize", "MemoryLogger.serialize gave %s for %s, expected %s" % (short(ser[0].get(k) if ser else None), k, short(want))))
        try: ml.validate()
        except Exception: pass
        if snap(d) != s0: problems.append(("caller_unmodified", "MemoryLogger.validate", "MemoryLogger.validate() modified the dictionary the caller passed to write(): %s" % short(d, 160)))
    except Exception as e:
        problems.append(("driver_or_library_error", "MemoryLogger", "aborted: %s" % short(e)))
    return problems


# ---------------------------------------------------------------- scenario generation
def pick_values(rng, keys):
    return dict((k, rng.choice(VALUE_NAMES)) for k in keys)


def wrap_ctx(ops, ctx, rng, pool_has_typed):
    if ctx == "none": return ops
    inner = {"o": "action", "t": None, "via": rng.choice(["with", "ctx_in", "ctx_out", "run"]), "vals": {"p": rng.choice(VALUE_NAMES)}, "body": ops}
    if ctx == "in": return [inner]
    return [{"o": "action", "t": None, "via": "with", "body": [{"o": "untyped", "vals": {"u": "l"}}, inner, {"o": "untyped", "via": "action", "vals": {}}]}]


def gen_grid(tier, seed):
    rng = random.Random(seed * 7919 + 13)
    nmax = 2 if tier == "quick" else 3
    kinds = ["log", "write", "bind", "write2", "direct", "start", "success", "failure"]
    out = []
    statuses = []
    for n in range(1, nmax + 1): statuses += list(itertools.product(["ok", "fail", "missing"], repeat=n))
    for kind, st, ctx, lgv, gl in itertools.product(kinds, statuses, ["none", "in", "nested"], ["default", "own", "private", "buffered"], [0, 1]):
        n = len(st)
        if kind == "failure":
            keys = [["reason", "exception", "xcode"][i] if st[i] != "missing" else "absent%d" % i for i in range(n)]
        else:
            keys = ["k%d" % i for i in range(n)]
        fields = [[keys[i], rng.choice(["wrap", "count", "state", "ident"]) if st[i] == "fail" else rng.choice(["wrap", "count", "state", "ident", "wrap", "types"])] for i in range(n)]
        idxs = list(range(n))
        vals = dict((keys[i], rng.choice(VALUE_NAMES)) for i in range(n) if st[i] != "missing")
        fail = dict((keys[i], rng.choice(SER_EXC_KINDS)) for i in range(n) if st[i] == "fail")
        extra = {"x_extra": rng.choice(VALUE_NAMES)} if rng.random() < 0.6 else {}
        sc = {"logger": lgv, "globals": gl, "fields": fields, "mtypes": [idxs], "atypes": [{"start": [], "success": [], "failure": None}]}
        allok = all(s == "ok" for s in st)
        if kind in ("log", "write", "bind", "write2"):
            ops = [{"o": "msg", "t": 0, "via": kind, "vals": vals, "extra": extra, "fail": fail}]
            if allok:  # log equal-but-different values through the same Fields afterwards
                ops.append({"o": "mutate", "v": "o"})
                ops.append({"o": "msg", "t": 0, "via": kind, "vals": twin(vals), "extra": extra, "fail": {}})
        elif kind == "direct":
            ops = [{"o": "direct", "t": 0, "vals": vals, "extra": extra, "fail": fail},
                   {"o": "direct", "t": None, "vals": pick_values(rng, ["q0", "q1"]), "omit_ser": rng.randrange(2)}]
        else:
            via = rng.choice(["with", "ctx_in", "ctx_out", "run"])
            a = {"o": "action", "t": 0, "via": via, "task": int(rng.random() < 0.2), "refinish": int(rng.random() < 0.3),
                 "body": [{"o": "untyped", "vals": {"b": "d"}}]}
            sc["mtypes"] = []
            if kind == "start":
                sc["atypes"] = [{"start": idxs, "success": [], "failure": None}]
                a.update({"vals": vals, "extra": extra, "fail": fail})
                if rng.random() < 0.3: a["raise"] = rng.choice(RAISE_KINDS)
            elif kind == "success":
                sc["atypes"] = [{"start": [], "success": idxs, "failure": None}]
                a.update({"svals": vals, "sextra": extra, "sfail": fail})
            else:
                sc["atypes"] = [{"start": [], "success": [], "failure": idxs}]
                a.update({"raise": "app", "xcode": rng.choice(VALUE_NAMES), "xdata": rng.choice(VALUE_NAMES), "ffail": fail})
            ops = [a]
            if allok and kind != "failure":
                b = json.loads(json.dumps(a)); ops.append({"o": "mutate", "v": "o"})
                if kind == "start": b["vals"] = twin(vals)
                else: b["svals"] = twin(vals)
                ops.append(b)
        sc["ops"] = wrap_ctx(ops, ctx, rng, True)
        out.append(sc)
    return out


def twin(vals):
    """same keys, values replaced by an equal-but-different value where one exists"""
    out = {}
    for k, v in vals.items():
        out[k] = v
        for g in EQUAL_GROUPS:
            if v in g: out[k] = g[(g.index(v) + 1) % len(g)]
    return out


def gen_random(rng):
    nf = rng.randint(2, 6)
    keys = ["k0", "k1", "k2", "k3"]
    fields = [[rng.choice(keys), rng.choice(["wrap", "count", "len", "state", "ident", "types", "const", "wrap", "count"])] for _ in range(nf)]
    if rng.random() < 0.5:
        fields.append([rng.choice(["reason", "exception", "xcode", "xdata", "nosuch"]), rng.choice(RECORDED[:2] + RECORDED[3:])])

    def subset(allowed_keys=None, pmax=3):
        idxs = list(range(len(fields))); rng.shuffle(idxs); seen = set(); res = []
        for j in idxs:
            k = fields[j][0]
            if k in seen or len(res) >= pmax: continue
            if allowed_keys is None and not k.startswith("k"): continue
            if allowed_keys is not None and k not in allowed_keys: continue
            if rng.random() < 0.7: seen.add(k); res.append(j)
        return res
    mtypes = [subset() for _ in range(rng.randint(1, 2))]
    atypes = []
    for _ in range(rng.randint(1, 2)):
        fl = None
        if rng.random() < 0.35: fl = subset(("reason", "exception", "xcode", "xdata", "nosuch", "k0"))
        atypes.append({"start": subset(), "success": subset(), "failure": fl})
    sc = {"logger": rng.choice(["default", "own", "private", "buffered"]), "globals": int(rng.random() < 0.4),
          "fields": fields, "mtypes": mtypes, "atypes": atypes}
    pref = rng.choice(EQUAL_GROUPS + [VALUE_NAMES, VALUE_NAMES])   # bias toward a group of equal values

    def val(): return rng.choice(pref) if rng.random() < 0.6 else rng.choice(VALUE_NAMES)

    def typed_vals(idxs):
        vals = {}; fail = {}
        for j in idxs:
            k, kind = fields[j]
            if rng.random() < 0.08: continue          # missing
            vals[k] = val()
            if kind in RECORDED and rng.random() < 0.15: fail[k] = rng.choice(SER_EXC_KINDS)
        extra = {}
        if rng.random() < 0.4: extra["x_extra"] = val()
        if rng.random() < 0.15:
            other = [k for k in keys if k not in vals and k not in [fields[j][0] for j in idxs]]
            if other: extra[other[0]] = val()
        return vals, extra, fail

    def gen_ops(depth, n):
        ops = []
        for _ in range(n):
            r = rng.random()
            if r < 0.40:
                t = rng.randrange(len(mtypes)); vals, extra, fail = typed_vals(mtypes[t])
                ops.append({"o": "msg", "t": t, "via": rng.choice(["log", "log", "write", "bind", "write2", "write_action"]), "vals": vals, "extra": extra, "fail": fail})
            elif r < 0.48:
                ops.append({"o": "untyped", "via": rng.choice(["action", "func"]), "vals": {"u0": val(), "k0": val()}})
            elif r < 0.60:
                if rng.random() < 0.6:
                    t = rng.randrange(len(mtypes)); vals, extra, fail = typed_vals(mtypes[t])
                    ops.append({"o": "direct", "t": t, "vals": vals, "extra": extra, "fail": fail})
                else:
                    ops.append({"o": "direct", "t": None, "vals": {"q0": val(), "k1": val()}, "omit_ser": rng.randrange(2)})
            elif r < 0.70:
                ops.append({"o": "mutate", "v": rng.choice(["o", "l", "d", "l2"])})
            elif depth < 3:
                t = rng.randrange(len(atypes)); a = atypes[t]
                vals, extra, fail = typed_vals(a["start"]); svals, sextra, sfail = typed_vals(a["success"])
                op = {"o": "action", "t": t, "via": rng.choice(["with", "with", "ctx_in", "ctx_out", "run"]), "task": int(rng.random() < 0.15),
                      "vals": vals, "extra": extra, "fail": fail, "svals": svals, "sextra": sextra, "sfail": sfail,
                      "refinish": int(rng.random() < 0.15), "body": gen_ops(depth + 1, rng.randint(0, 3))}
                if rng.random() < 0.3:
                    op["raise"] = rng.choice(RAISE_KINDS); op["xcode"] = val(); op["xdata"] = val()
                    if a["failure"]:
                        op["ffail"] = dict((fields[j][0], rng.choice(SER_EXC_KINDS)) for j in a["failure"] if fields[j][1] in RECORDED and rng.random() < 0.2)
                ops.append(op)
            else:
                ops.append({"o": "untyped", "vals": {"u1": val()}})
        return ops
    sc["ops"] = gen_ops(0, rng.randint(2, 6))
    return sc


def gen_memory():
    out = []
    for kinds in [["wrap"], ["types"], ["wrap", "state"], ["state", "types", "wrap"]]:
        for vals in [["l", "o", "i1"], ["b1", "d", "l2"], ["n", "s", "t"]]:
            out.append({"mem": 1, "kinds": kinds, "vals": vals})
    return out


KNOWN_SIGNATURES = [{"clause": "caller_unmodified", "logger": "MemoryLogger", "trigger": "validate"}]


def signature(sc, p):
    clause, kind, text = p
    if sc.get("mem"):
        return {"clause": clause, "logger": "MemoryLogger", "trigger": kind.split(".")[-1]}
    return {"clause": clause, "message": kind, "logger": sc.get("logger")}


def main():
    registry = _errors._error_extraction.registry
    saved_registry = dict(registry)
    register_exception_extractor(XErr, lambda e: {"xinfo": e.info})
    register_exception_extractor(AppError, lambda e: {"xcode": e.code, "xdata": e.data})
    fails = []; known = []; cases = 0; seen = set(); sigs_seen = set()
    try:
        if args.scenario:
            scs = [json.loads(args.scenario)]
            bound = "one given scenario"
        else:
            quick = args.tier == "quick"
            grid = gen_grid(args.tier, args.seed)
            rng = random.Random(args.seed * 104729 + 1)
            nrand = 4000 if quick else 120000
            scs = itertools.chain(gen_memory(), grid, (gen_random(rng) for _ in range(nrand)))
            bound = ("grid: 8 message kinds (log/write/bind/rewrite/direct write/start/success/failure) x every ok|raises|missing vector over 1..%d declared fields "
                     "x 3 contexts (none, in action, nested) x 4 logger set-ups (default, own Logger, Logger with private destinations, same but buffered) x global fields on/off = %d scenarios; "
                     "plus %d seeded-random scenarios (2-7 shared Fields, 1-2 message types, 1-2 action types incl. custom failure serializers, 2-6 ops nested to depth 3, 21 values incl. equal-but-different ones, 11 exception classes incl. BaseException); "
                     "plus %d MemoryLogger non-mutation checks") % (2 if quick else 3, len(grid), nrand, len(gen_memory()))
        for sc in scs:
            cases += 1
            key = json.dumps(sc, sort_keys=True)
            seen.add(hashlib.md5(key.encode("utf-8")).digest())
            probs = run_memory(sc) if sc.get("mem") else run_scenario(sc)
            if not probs: continue
            by_sig = {}
            for p in probs:
                s = signature(sc, p); by_sig.setdefault(json.dumps(s, sort_keys=True), (s, []))[1].append(p[2])
            for sk, (s, texts) in by_sig.items():
                entry = {"signature": s, "scenario": sc, "observed": texts[:3]}
                if s in KNOWN_SIGNATURES:
                    if sk not in sigs_seen and len(known) < 5: known.append(entry)
                    sigs_seen.add(sk)
                else:
                    # keep at most 5, prefer distinct signatures
                    if sk not in sigs_seen and len(fails) < 5:
                        fails.append(entry); sigs_seen.add(sk)
            if len(fails) >= 5: break
    finally:
        registry.clear(); registry.update(saved_registry)
    print(json.dumps({"cases": cases, "distinct": len(seen), "failures": fails, "known": known, "bound": bound,
                      "rule": "a scenario = shared Field pool with recording (non-idempotent/stateful/failing-on-demand) serializers + type definitions + a tree of logging operations; "
                              "every logging call is checked for: exact delivered key set, declared field IS the output of the single application of its serializer to the logged object, other fields identical objects, "
                              "caller values/dicts structurally unchanged and not aliased, on failure exactly traceback+serialization_failure at the modelled (task, level) of the current action and on the writing logger's destinations, call returns normally; "
                              "distinct = distinct scenario JSON; all scenarios have >=1 typed or direct write (non-trivial)"}))
main()
