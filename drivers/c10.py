"""Native driver for C10 (bounded; real code): the JSON log file holds one valid, faithful line per message.

Every scenario offers a short sequence of messages to eliot.FileDestination objects wrapped around several kinds of
binary and text files (call-recording fakes, io.BytesIO / io.StringIO, real temp files: buffered, unbuffered, text) and
checks, clause by clause, with an oracle written here (strict JSON parser + type-strict comparison + hand-written
encodings of the documented rich types):
  one_write      exactly one non-empty write() per message, followed by a flush()
  partial_line   after every write() the file holds complete lines only (tailing reader / concurrent writer view)
  one_line       the written payload is exactly one '\n'-terminated line (no raw newline inside), right str/bytes type
  no_line        a serializable message produced no line / raised
  utf8_json      the line is strict UTF-8 and strict JSON (no NaN/Infinity literals, no raw control chars, no dup keys), an object
  faithful       decoding gives back the message (type-strict: int/float/bool distinct, -0.0 sign, 64-bit ints exact,
                 NaN/inf -> null, rich types in their documented encoding, caller's json_default honoured)
  same_content   every binary and text file received byte-identical (UTF-8) content
  reader_view    a second handle on the real file sees all complete lines right after each call (flush really happened)
  interleave     two threads through one destination, A paused after each of its write() calls while B logs: 2 intact lines
  unser_partial  a message that cannot be serialized leaves no partial output behind and does not break later lines
  logger         via to_file() + log_message()/start_action(): one faithful line per emitted message

Prints one JSON line: {cases, distinct, failures:[{signature, scenario, observed}], known:[...], rule, bound}.

KNOWN_ON_UNCHANGED_TREE (detected by dedicated probe scenarios, reported under "known", never under "failures"):
  * {"clause":"no_line","exc":"TypeError","input":"lone_surrogate"}: a text value or key containing an unpaired
    surrogate code point (e.g. {"v": "\ud800"}, {"a\udc80": 1}; os.fsdecode() of undecodable file names gives these)
    makes orjson raise TypeError("str is not valid UTF-8: surrogates not allowed"); FileDestination.__call__ raises
    and nothing is written for that message (binary and text alike).
  * {"clause":"no_line","exc":"TypeError","input":"deep_nesting"}: a message whose value nests lists >= 254 deep
    (dicts: message nested >= 255 deep) makes orjson raise TypeError("Recursion limit reached"); no line is written.
  * {"clause":"no_line","exc":"TypeError","input":"aware_time"}: a datetime.time with tzinfo set makes orjson raise
    TypeError("datetime.time must not have tzinfo set") before eliot's json_default (which has a time branch using
    isoformat()) is consulted; no line is written.
  * {"clause":"faithful","input":"time_us_5digit"}: a naive datetime.time whose microsecond is in 10000..99999, e.g.
    datetime.time(7, 36, 20, 30429), is written as "07:36:20.30429" (leading zero of the 6-digit fraction dropped by the
    installed orjson 3.12.0; isoformat()/documented encoding is "07:36:20.030429", and the written text reads back as
    a different time, .304290).  datetime.datetime values with the same microsecond are written correctly.
"""
import argparse, datetime, io, itertools, json, math, os, pathlib, random, re, struct, sys, tempfile, threading, time as _time, warnings

ap = argparse.ArgumentParser(); ap.add_argument("--tier", default="quick"); ap.add_argument("--seed", type=int, default=0)
ap.add_argument("--scenario"); args = ap.parse_args()
sys.setrecursionlimit(20000)
import eliot
from eliot import FileDestination, to_file, log_message, start_action, add_destinations, remove_destination
from eliot._output import Logger
from eliot.json import json_default as eliot_json_default

def err(*a):
    print(*a, file=sys.stderr)

# ---------------------------------------------------------------------------------------------------------------
# caller-defined types handled only by the caller's json_default extension
class Point(object):
    def __init__(self, x, y): self.x = x; self.y = y
class Wrapper(object):
    def __init__(self, inner): self.inner = inner
class Tag(object):
    def __init__(self, name): self.name = name
    def __hash__(self): return hash(("Tag", self.name))
    def __eq__(self, o): return isinstance(o, Tag) and o.name == self.name

def custom_default(o):
    """Documented pattern: handle own types, call eliot's json_default last."""
    if isinstance(o, Point): return {"x": o.x, "y": o.y}
    if isinstance(o, Wrapper): return o.inner
    if isinstance(o, Tag): return "tag:" + o.name
    return eliot_json_default(o)

def override_default(o):
    """A caller's default that re-defines the encoding of two types eliot also knows."""
    if isinstance(o, complex): return [o.real, o.imag]
    if isinstance(o, pathlib.Path): return {"path": str(o)}
    return custom_default(o)

class CustomEncoder(json.JSONEncoder):
    def default(self, o): return custom_default(o)

CFGS = ["default", "custom", "override", "encoder"]

def make_destination(f, cfg):
    if cfg == "default": return FileDestination(file=f)
    if cfg == "custom": return FileDestination(file=f, json_default=custom_default)
    if cfg == "override": return FileDestination(file=f, json_default=override_default)
    if cfg == "encoder":
        with warnings.catch_warnings():
            warnings.simplefilter("ignore")
            return FileDestination(file=f, encoder=CustomEncoder)
    raise ValueError(cfg)

# ---------------------------------------------------------------------------------------------------------------
# scenario value specs (JSON-able)  ->  python values
def F(x): return {"$": "f", "h": float(x).hex()}
def D(items): return {"$": "d", "i": [[k, v] for k, v in items]}
def T(*v): return {"$": "tuple", "v": list(v)}
def S(*v): return {"$": "set", "v": list(v)}
def C(re, im): return {"$": "complex", "re": float(re).hex(), "im": float(im).hex()}
def P(s): return {"$": "path", "s": s}
def DATE(y, m, d): return {"$": "date", "v": [y, m, d]}
def TIME(h, m, s, us=0, tz=None): return {"$": "time", "v": [h, m, s, us], "tz": tz}
def DT(y, mo, d, h, mi, s, us=0, tz=None): return {"$": "datetime", "v": [y, mo, d, h, mi, s, us], "tz": tz}
def DTS(y, mo, d, h, mi, s, us=0, tz=None): return {"$": "datetime", "v": [y, mo, d, h, mi, s, us], "tz": tz, "sub": 1}
class DTSub(datetime.datetime):
    """a datetime subclass (pendulum / pandas.Timestamp style): orjson hands it to json_default, documented encoding isoformat() (seeded C10-4)"""
def NEST(kind, depth, leaf=0): return {"$": "nest", "kind": kind, "depth": depth, "leaf": leaf}
def REP(s, n): return {"$": "rep", "s": s, "n": n}
def CPRANGE(a, b): return {"$": "cprange", "a": a, "b": b}

def _tz(minutes):
    return None if minutes is None else datetime.timezone(datetime.timedelta(minutes=minutes))

def build(s):
    if s is None or isinstance(s, (bool, int, str)): return s
    if isinstance(s, list): return [build(x) for x in s]
    k = s["$"]
    if k == "f": return float.fromhex(s["h"])
    if k == "d": return {build(a) if not isinstance(a, str) else a: build(b) for a, b in s["i"]}
    if k == "tuple": return tuple(build(x) for x in s["v"])
    if k == "set": return set(build(x) for x in s["v"])
    if k == "frozenset": return frozenset(build(x) for x in s["v"])
    if k == "complex": return complex(float.fromhex(s["re"]), float.fromhex(s["im"]))
    if k == "path": return pathlib.Path(s["s"])
    if k == "date": return datetime.date(*s["v"])
    if k == "time": return datetime.time(*s["v"], tzinfo=_tz(s.get("tz")))
    if k == "datetime": return (DTSub if s.get("sub") else datetime.datetime)(*s["v"], tzinfo=_tz(s.get("tz")))
    if k == "point": return Point(build(s["x"]), build(s["y"]))
    if k == "wrapper": return Wrapper(build(s["v"]))
    if k == "tag": return Tag(s["n"])
    if k == "bytes": return s["s"].encode("latin-1")
    if k == "object": return object()
    if k == "rep": return s["s"] * s["n"]
    if k == "cprange": return "".join(chr(c) for c in range(s["a"], s["b"]) if not 0xD800 <= c <= 0xDFFF)
    if k == "nest":
        v = build(s["leaf"])
        for i in range(s["depth"]):
            kind = s["kind"] if s["kind"] != "mixed" else ("list", "dict", "tuple")[i % 3]
            v = [v] if kind == "list" else (v,) if kind == "tuple" else {"k": v}
        return v
    raise ValueError("bad spec %r" % (s,))

# ---------------------------------------------------------------------------------------------------------------
# the oracle: python value -> what strict-JSON decoding of the line must give back
class Unser(Exception):
    """value outside the property's domain: no faithful line is required"""
class SetExp(object):
    def __init__(self, members): self.members = members

I64_MIN, U64_MAX = -2 ** 63, 2 ** 64 - 1

def _iso_date(y, m, d): return "%04d-%02d-%02d" % (y, m, d)
def _iso_time(h, m, s, us): return "%02d:%02d:%02d" % (h, m, s) + (".%06d" % us if us else "")
def _iso_off(tzinfo, ref):
    if tzinfo is None: return ""
    secs = int(tzinfo.utcoffset(ref).total_seconds()); sign = "+" if secs >= 0 else "-"; secs = abs(secs)
    return "%s%02d:%02d" % (sign, secs // 3600, secs % 3600 // 60)

def expect(v, cfg):
    if v is None or v is True or v is False: return v
    t = type(v)
    if t is int:
        if not I64_MIN <= v <= U64_MAX: raise Unser("int beyond 64 bits")
        return v
    if t is float: return v if math.isfinite(v) else None
    if t is str:
        return v
    if t is list or t is tuple: return [expect(x, cfg) for x in v]
    if t is dict:
        out = {}
        for k, x in v.items():
            if type(k) is not str: raise Unser("non-str key")
            out[k] = expect(x, cfg)
        return out
    if t is set: return SetExp([expect(x, cfg) for x in v])
    if t is complex:
        if cfg == "override": return [expect(v.real, cfg), expect(v.imag, cfg)]
        return {"real": expect(v.real, cfg), "imag": expect(v.imag, cfg)}
    if isinstance(v, pathlib.Path):
        if cfg == "override": return {"path": os.fspath(v)}
        return os.fspath(v)
    if t is datetime.datetime or t is DTSub:
        return _iso_date(v.year, v.month, v.day) + "T" + _iso_time(v.hour, v.minute, v.second, v.microsecond) + _iso_off(v.tzinfo, v)
    if t is datetime.date: return _iso_date(v.year, v.month, v.day)
    if t is datetime.time:
        return _iso_time(v.hour, v.minute, v.second, v.microsecond) + _iso_off(v.tzinfo, None)
    if cfg != "default":
        if t is Point: return {"x": expect(v.x, cfg), "y": expect(v.y, cfg)}
        if t is Wrapper: return expect(v.inner, cfg)
        if t is Tag: return "tag:" + v.name
    raise Unser("type %s" % t.__name__)

def _fbits(x): return struct.pack("<d", x)

def same(exp, got, path="$"):
    """None if got is exactly what exp demands, else a short description of the first difference."""
    if isinstance(exp, SetExp):
        if type(got) is not list: return "%s: set must be encoded as a JSON list, got %s" % (path, type(got).__name__)
        if len(got) != len(exp.members): return "%s: set of %d members encoded as list of %d" % (path, len(exp.members), len(got))
        free = list(got)
        for m in exp.members:
            for i, g in enumerate(free):
                if same(m, g) is None:
                    del free[i]; break
            else:
                return "%s: set member %.60r missing from encoded list %.80r" % (path, m, got)
        return None
    if exp is None or exp is True or exp is False:
        return None if got is exp else "%s: expected %r got %.60r" % (path, exp, got)
    if type(exp) is not type(got): return "%s: expected %s %.60r got %s %.60r" % (path, type(exp).__name__, exp, type(got).__name__, got)
    if type(exp) is float:
        return None if _fbits(exp) == _fbits(got) else "%s: expected float %r got %r" % (path, exp, got)
    if type(exp) is int or type(exp) is str:
        return None if exp == got else "%s: expected %.60r got %.60r" % (path, exp, got)
    if type(exp) is list:
        if len(exp) != len(got): return "%s: list length %d expected, got %d" % (path, len(exp), len(got))
        for i, (a, b) in enumerate(zip(exp, got)):
            r = same(a, b, "%s[%d]" % (path, i))
            if r: return r
        return None
    if type(exp) is dict:
        if set(exp) != set(got):
            return "%s: keys differ: missing %.60r extra %.60r" % (path, sorted(set(exp) - set(got))[:3], sorted(set(got) - set(exp))[:3])
        for k in exp:
            r = same(exp[k], got[k], "%s[%.20r]" % (path, k))
            if r: return r
        return None
    return "%s: oracle cannot compare %r" % (path, type(exp))

class NotStrictJSON(ValueError): pass

def _no_const(name): raise NotStrictJSON("non-JSON literal %s" % name)
def _pairs(pairs):
    d = {}
    for k, v in pairs:
        if k in d: raise NotStrictJSON("duplicate key %.30r" % k)
        d[k] = v
    return d

def strict_loads(text):
    return json.loads(text, parse_constant=_no_const, object_pairs_hook=_pairs)

# ---------------------------------------------------------------------------------------------------------------
# files
class Rec(object):
    """Call-recording fake file (binary or text).  content = what a tailing reader sees."""
    def __init__(self, text):
        self.text = text; self.content = "" if text else b""; self.calls = []; self.hook = None
    def write(self, data):
        if self.text:
            if not isinstance(data, str): raise TypeError("write() argument must be str, not %s" % type(data).__name__)
        elif not isinstance(data, (bytes, bytearray, memoryview)):
            raise TypeError("a bytes-like object is required, not '%s'" % type(data).__name__)
        if len(data) == 0:
            self.calls.append(("write0", data)); return 0
        data = data if self.text else bytes(data)
        self.content += data; self.calls.append(("write", data))
        if self.hook is not None: self.hook(self)
        return len(data)
    def flush(self): self.calls.append(("flush", None))

class FileKind(object):
    """name, text?, opener -> (file object handed to eliot, recorder-or-None, reader() -> bytes, closer)"""
    def __init__(self, name, text, real): self.name = name; self.text = text; self.real = real

FILEKINDS = [FileKind("rec_b", False, False), FileKind("rec_t", True, False), FileKind("bytesio", False, False),
             FileKind("stringio", True, False), FileKind("file_wb", False, True), FileKind("file_wb0", False, True),
             FileKind("file_wt", True, True), FileKind("textwrap", True, False)]
FK = {k.name: k for k in FILEKINDS}

class Opened(object):
    def __init__(self, kind, tmpdir):
        self.kind = kind; self.rec = None; self.path = None; self._under = None
        n = kind.name
        if n == "rec_b": self.f = self.rec = Rec(False)
        elif n == "rec_t": self.f = self.rec = Rec(True)
        elif n == "bytesio": self.f = io.BytesIO()
        elif n == "stringio": self.f = io.StringIO()
        elif n == "textwrap":
            self._under = io.BytesIO(); self.f = io.TextIOWrapper(self._under, encoding="utf-8", newline="\n")
        else:
            fd, self.path = tempfile.mkstemp(prefix="c10_", dir=tmpdir); os.close(fd)
            if n == "file_wb": self.f = open(self.path, "wb")
            elif n == "file_wb0": self.f = open(self.path, "wb", buffering=0)
            else: self.f = open(self.path, "w", encoding="utf-8")
    def read(self):
        """what an independent reader sees right now, as bytes"""
        n = self.kind.name
        if self.rec is not None: c = self.rec.content; return c.encode("utf-8", "surrogatepass") if self.kind.text else c
        if n == "bytesio": return self.f.getvalue()
        if n == "stringio": return self.f.getvalue().encode("utf-8", "surrogatepass")
        if n == "textwrap": return self._under.getvalue()
        with open(self.path, "rb") as r: return r.read()
    def close(self):
        try:
            if self.rec is None: self.f.close()
        except Exception: pass
        if self.path is not None:
            try: os.unlink(self.path)
            except OSError: pass

TMPDIR = tempfile.mkdtemp(prefix="c10drv_")

# ---------------------------------------------------------------------------------------------------------------
class Problems(object):
    def __init__(self): self.items = []   # (signature dict, text)
    def add(self, clause, mode, text, **extra):
        sig = {"clause": clause, "mode": mode}; sig.update(extra)
        self.items.append((sig, text))

def check_payload(pr, mode, text_mode, payload, exp, label):
    """one_line / utf8_json / faithful on one written payload.  returns canonical bytes or None"""
    want = str if text_mode else bytes
    if type(payload) is not want:
        pr.add("one_line", mode, "%s: payload is %s, file wants %s" % (label, type(payload).__name__, want.__name__)); return None
    if text_mode:
        try: raw = payload.encode("utf-8")
        except UnicodeEncodeError as e:
            pr.add("utf8_json", mode, "%s: text line not encodable as UTF-8: %s" % (label, e)); return None
        txt = payload
    else:
        raw = payload
        try: txt = raw.decode("utf-8")
        except UnicodeDecodeError as e:
            pr.add("utf8_json", mode, "%s: line is not valid UTF-8: %s" % (label, e)); return None
    if not txt.endswith("\n") or txt.count("\n") != 1 or "\r" in txt:
        pr.add("one_line", mode, "%s: payload is not exactly one newline-terminated line: ...%.50r (newlines=%d)" % (label, txt[-40:], txt.count("\n")))
        return raw
    body = txt[:-1]
    if not (body.startswith("{") and body.endswith("}")):
        pr.add("utf8_json", mode, "%s: line is not a bare JSON object: %.60r" % (label, body)); return raw
    try: got = strict_loads(body)
    except (ValueError, RecursionError) as e:
        pr.add("utf8_json", mode, "%s: line is not strict JSON (%s): %.80r" % (label, e, body)); return raw
    if type(got) is not dict:
        pr.add("utf8_json", mode, "%s: line decodes to %s, not an object" % (label, type(got).__name__)); return raw
    d = same(exp, got)
    if d: pr.add("faithful", mode, "%s: %s  (line %.100r)" % (label, d, body))
    return raw

def run_seq(sc, pr):
    """sc = {"kind":"seq","cfg":cfg,"msgs":[spec...], optional "files":[names], optional "probe": name}"""
    cfg = sc.get("cfg", "default"); probe = sc.get("probe")
    msgs = [build(m) for m in sc["msgs"]]
    exps = []
    for m in msgs:
        try: exps.append(expect(m, cfg))
        except Unser as e: exps.append(e)
    names = sc.get("files") or [k.name for k in FILEKINDS]
    opened = []
    try:
        for n in names:
            o = Opened(FK[n], TMPDIR); opened.append(o)
            try: o.dest = make_destination(o.f, cfg)
            except Exception as e:
                pr.add("construct", n, "FileDestination(%s) raised %s: %s" % (n, type(e).__name__, e)); o.dest = None; continue
            if o.read() != b"": pr.add("one_line", n, "constructing the destination wrote %.40r to the file" % o.read())
        reference = [None] * len(msgs)      # canonical bytes of each message's line (first file kind that produced it)
        cumulative = {o.kind.name: b"" for o in opened}
        for i, (m, exp) in enumerate(zip(msgs, exps)):
            label = "msg#%d" % i
            for o in opened:
                if o.dest is None: continue
                n = o.kind.name
                before = o.read()
                if o.rec is not None: del o.rec.calls[:]; snaps = []; o.rec.hook = lambda r, snaps=snaps: snaps.append(r.content)
                exc = None
                try: o.dest(m)
                except Exception as e: exc = e
                after = o.read()
                if o.rec is not None: o.rec.hook = None
                if isinstance(exp, Unser):
                    # out of domain: only demand that nothing partial is left behind
                    if exc is not None and after != before:
                        pr.add("unser_partial", n, "%s: unserializable message (%s) raised %s but left %.60r in the file" % (label, exp, type(exc).__name__, after[len(before):]))
                    elif exc is None and not (after.startswith(before) and (after == before or after.endswith(b"\n"))):
                        pr.add("unser_partial", n, "%s: unserializable message left a partial line %.60r" % (label, after[len(before):]))
                    cumulative[n] = after
                    continue
                if exc is not None:
                    extra = {"exc": type(exc).__name__}
                    if probe: extra["input"] = probe
                    if after != before: pr.add("partial_line", n, "%s: raised %s and left partial output %.60r" % (label, type(exc).__name__, after[len(before):]))
                    pr.add("no_line", "t" if o.kind.text else "b", "%s on %s: %s: %s ; no line written for %.80r" % (label, n, type(exc).__name__, exc, m), **extra)
                    cumulative[n] = after
                    continue
                raw = None
                if o.rec is not None:
                    writes = [c for c in o.rec.calls if c[0] == "write"]
                    seq = [c[0] for c in o.rec.calls if c[0] != "write0"]
                    if len(writes) != 1:
                        pr.add("one_write", n, "%s: %d write() calls for one message: %r" % (label, len(writes), seq))
                    if not seq or seq[-1] != "flush" or "write" not in seq or "flush" not in seq[seq.index("write"):]:
                        pr.add("one_write", n, "%s: write is not followed by a flush: call sequence %r" % (label, seq))
                    nl = "\n" if o.kind.text else b"\n"
                    for sn in snaps:
                        if not sn.endswith(nl):
                            pr.add("partial_line", n, "%s: after a write() the file ends in a partial line ...%.40r" % (label, sn[-30:])); break
                    if len(writes) == 1: raw = check_payload(pr, n, o.kind.text, writes[0][1], exp, label)
                    elif writes:
                        joined = ("" if o.kind.text else b"").join(w[1] for w in writes)
                        raw = check_payload(pr, n, o.kind.text, joined, exp, label)
                    else:
                        pr.add("no_line", "t" if o.kind.text else "b", "%s on %s: no write() at all" % (label, n), exc="none")
                else:
                    if not after.startswith(before):
                        pr.add("reader_view", n, "%s: earlier file content was altered" % label)
                    new = after[len(before):]
                    if not new:
                        pr.add("reader_view" if o.kind.real or n == "textwrap" else "no_line", n, "%s: after the call returned a reader of the %s sees no new data (missing flush or lost line)" % (label, n))
                    else:
                        raw = check_payload(pr, n, False, new, exp, label)
                if raw is not None:
                    if reference[i] is None: reference[i] = (n, raw)
                    elif reference[i][1] != raw:
                        pr.add("same_content", n, "%s: %s received %.80r but %s received %.80r" % (label, reference[i][0], reference[i][1], n, raw))
                cumulative[n] = after
        # whole-file view: every file = concatenation of the reference lines
        whole = b"".join(r[1] for r in reference if r is not None)
        if all(not isinstance(e, Unser) for e in exps):
            for o in opened:
                if o.dest is None: continue
                got = o.read()
                if got != whole and not pr.items:
                    pr.add("same_content", o.kind.name, "final content of %s differs from the reference lines: %.80r vs %.80r" % (o.kind.name, got, whole))
                nlines = got.count(b"\n")
                if nlines != len(msgs) and not pr.items:
                    pr.add("no_line", o.kind.name, "%d lines for %d messages" % (nlines, len(msgs)), exc="none")
    finally:
        for o in opened: o.close()

def run_interleave(sc, pr):
    """sc = {"kind":"interleave","cfg":cfg,"text":bool,"a":spec,"b":spec}
    Thread A logs a; after A's k-th write() returns (k = 1, 2, ... while A performs that many writes) A is held until
    thread B has logged b completely through the same destination.  File must hold exactly two intact lines."""
    cfg = sc.get("cfg", "default"); text = bool(sc["text"]); mode = "rec_t" if text else "rec_b"
    a = build(sc["a"]); b = build(sc["b"])
    ea = expect(a, cfg); eb = expect(b, cfg)
    k = 1
    while k <= 8:
        rec = Rec(text); dest = make_destination(rec, cfg)
        a_wrote = threading.Event(); b_done = threading.Event(); state = {"n": 0, "a": None, "paused": False}; errors = []
        def hook(r):
            if threading.current_thread() is state["a"]:
                state["n"] += 1
                if state["n"] == k:
                    state["paused"] = True; a_wrote.set()
                    if not b_done.wait(20): errors.append("B never finished")
        rec.hook = hook
        def ta():
            try: dest(a)
            except BaseException as e: errors.append("A raised %s: %s" % (type(e).__name__, e))
            finally: a_wrote.set()
        def tb():
            try:
                if not a_wrote.wait(20): errors.append("A never wrote")
                dest(b)
            except BaseException as e: errors.append("B raised %s: %s" % (type(e).__name__, e))
            finally: b_done.set()
        t1 = threading.Thread(target=ta); t2 = threading.Thread(target=tb); state["a"] = t1; t1.start(); t2.start(); t1.join(60); t2.join(60)
        rec.hook = None
        if errors: pr.add("interleave", mode, "k=%d: %s" % (k, "; ".join(errors[:2])))
        content = rec.content if text else rec.content
        nl = "\n" if text else b"\n"
        lines = content.split(nl)
        if lines[-1] != (("" if text else b"")) or len(lines) != 3:
            pr.add("interleave", mode, "A held after its write #%d while B logs: file holds %d newline-terminated pieces for 2 messages: %.120r" % (k, len(lines) - 1, content))
        else:
            sub = Problems()
            check_payload(sub, mode, text, lines[0] + nl, ea, "A")
            check_payload(sub, mode, text, lines[1] + nl, eb, "B")
            for sig, txt in sub.items:
                pr.add("interleave", mode, "A held after its write #%d while B logs: corrupt line: %s" % (k, txt))
        if not state["paused"] or state["n"] <= k: break     # A made no further writes: all pause points explored
        k += 1

def run_logger(sc, pr):
    """sc = {"kind":"logger","cfg":cfg,"ops":[["msg", type, fields-spec] | ["action", type, fields-spec, [inner ops], fail?]]}
    Real path: to_file() on a binary and a text file, then log_message()/start_action(); a plain list destination
    captures the very dicts offered to the file destinations; every captured dict must be exactly one faithful line."""
    cfg = sc.get("cfg", "default")
    dflt = {"default": eliot_json_default, "custom": custom_default, "override": override_default, "encoder": custom_default}[cfg]
    dests = Logger._destinations
    saved = (list(dests._destinations), dests._any_added, dict(dests._globalFields))
    fb = Rec(False); ft = Rec(True); real = Opened(FK["file_wb"], TMPDIR); captured = []
    def capture(m): captured.append(dict(m))
    try:
        dests._destinations = []; dests._any_added = True
        to_file(fb, json_default=dflt); to_file(ft, json_default=dflt); to_file(real.f, json_default=dflt)
        add_destinations(capture)
        def play(ops):
            for op in ops:
                fields = build(op[2])
                if op[0] == "msg": log_message(message_type=op[1], **fields)
                else:
                    try:
                        with start_action(action_type=op[1], **fields) as act:
                            play(op[3])
                            if len(op) > 4 and op[4]: raise ValueError("boom   \x00")
                            act.add_success_fields(**fields)
                    except ValueError: pass
        play(sc["ops"])
    finally:
        dests._destinations, dests._any_added = saved[0], saved[1]
        dests._globalFields.clear(); dests._globalFields.update(saved[2])
    try:
        for rec, text, mode in ((fb, False, "rec_b"), (ft, True, "rec_t")):
            nl = "\n" if text else b"\n"
            writes = [c[1] for c in rec.calls if c[0] == "write"]
            seq = [c[0] for c in rec.calls if c[0] != "write0"]
            if seq != ["write", "flush"] * len(captured):
                pr.add("logger", mode, "%d messages emitted but file call sequence is %d writes / %d flushes: %.80r" % (len(captured), seq.count("write"), seq.count("flush"), seq[:8]))
            lines = rec.content.split(nl)
            if len(lines) - 1 != len(captured) or lines[-1]:
                pr.add("logger", mode, "%d messages emitted, %d complete lines in file" % (len(captured), len(lines) - 1)); continue
            for i, (line, m) in enumerate(zip(lines, captured)):
                try: exp = expect(m, cfg)
                except Unser as e:
                    pr.add("logger", mode, "internal: captured message out of domain: %s" % e); continue
                sub = Problems(); check_payload(sub, mode, text, line + nl, exp, "emitted#%d" % i)
                for sig, txt in sub.items: pr.add("logger", mode, "%s: %s" % (sig["clause"], txt))
        got = real.read()
        if got != fb.content: pr.add("logger", "file_wb", "real file content differs from recorder content (%d vs %d bytes)" % (len(got), len(fb.content)))
        if fb.content != ft.content.encode("utf-8", "surrogatepass"): pr.add("logger", "rec_t", "same_content: text and binary log files differ")
        types = [m.get("message_type") for m in captured]
        if "eliot:destination_failure" in types: pr.add("logger", "rec_b", "a destination failed: %.120r" % [m for m in captured if m.get("message_type") == "eliot:destination_failure"][0].get("reason"))
    finally:
        real.close()

# ---------------------------------------------------------------------------------------------------------------
# scenario enumeration
SPECIAL_CPS = [0, 1, 8, 9, 10, 11, 12, 13, 0x1b, 0x1f, 0x20, 0x22, 0x27, 0x2f, 0x5c, 0x7f, 0x80, 0x85, 0x9f, 0xa0, 0xff, 0x100, 0x7ff, 0x800,
               0xfff, 0x1000, 0x2028, 0x2029, 0xd7ff, 0xe000, 0xfeff, 0xfffd, 0xfffe, 0xffff, 0x10000, 0x1f600, 0xe0001, 0xfffff, 0x100000, 0x10fffe, 0x10ffff]
TRICKY = ["", "\\u0000", "\\", "\\\\", '"', '\\"', "\\n", "null", "NaN", "Infinity", "\n", "\r\n", "}\n{", '{"a":1}\n', "  ", "\x7f",
          "﻿bom", "\U0001f600\U0001f468‍\U0001f469", "é", "‮RTL", "\x00\x00", "a\x00b", "</script>", "\t\b\f", "'", "\\ud800", "%s %d {}", "\x1b[31m"]
INT_BOUNDS = sorted(set(v for k in range(0, 65) for b in (2 ** k,) for v in (b - 1, b, b + 1, -b - 1, -b, -b + 1) if I64_MIN <= v <= U64_MAX))
FLOATS = [0.0, -0.0, 5e-324, 1e-323, 2.225073858507201e-308, 2.2250738585072014e-308, 1.7976931348623157e308, 1.7976931348623155e308, 0.1, 0.2, 0.30000000000000004,
          1 / 3.0, 2.0 / 3, 1.0, 1.5, 100.0, 1e15, 1e16, 1e17, 123456789012345680.0, 9007199254740992.0, 9007199254740994.0, 1e21, 1e22, 1e23, 1e-4, 1e-5, 1e-6, 1e-7,
          1e-10, 4.35, 2.675, 3.141592653589793, 1e100, 1.2345678901234567e-200, 4.9406564584124654e-324, 18446744073709551616.0, 9223372036854775808.0,
          float("nan"), float("inf"), float("-inf")]

def rnd_cp(rng):
    c = rng.random()
    if c < 0.3: return rng.randrange(0x20, 0x7f)
    if c < 0.5: return rng.choice(SPECIAL_CPS)
    if c < 0.6: return rng.randrange(0, 0x20)
    if c < 0.75: return rng.randrange(0x80, 0x800)
    if c < 0.9:
        cp = rng.randrange(0x800, 0x10000)
        return cp if not 0xD800 <= cp <= 0xDFFF else 0xFFFD
    return rng.randrange(0x10000, 0x110000)

def rnd_text(rng):
    if rng.random() < 0.12: return rng.choice(TRICKY)
    n = rng.choice([0, 1, 1, 2, 3, 5, 8, 13, 40]) if rng.random() < 0.97 else rng.choice([255, 256, 1000, 4096])
    return "".join(chr(rnd_cp(rng)) for _ in range(n))

def rnd_int(rng):
    if rng.random() < 0.3: return rng.choice(INT_BOUNDS)
    if rng.random() < 0.3: return rng.randrange(-10, 11)
    v = rng.getrandbits(rng.randrange(1, 65))
    if rng.random() < 0.5 and v <= 2 ** 63: v = -v
    return v

def rnd_float(rng):
    c = rng.random()
    if c < 0.3: x = rng.choice(FLOATS)
    elif c < 0.6: x = struct.unpack("<d", struct.pack("<Q", rng.getrandbits(64)))[0]
    elif c < 0.8: x = round(rng.uniform(-1000, 1000), rng.randrange(0, 6))
    else: x = rng.uniform(-1, 1) * 10 ** rng.randrange(-30, 30)
    if rng.random() < 0.3: x = -x
    return F(x)

def _us(us):
    # plain datetime.time values with 10000 <= microsecond <= 99999 are a known failure (see header); they live in probe scenarios only
    return us + 100000 if 10000 <= us <= 99999 else us

def rnd_scalar_rich(rng):
    c = rng.randrange(6)
    if c == 0: return C(float.fromhex(rnd_float(rng)["h"]), float.fromhex(rnd_float(rng)["h"]))
    if c == 1: return P(rnd_text(rng).replace("\x00", "0") if rng.random() < 0.7 else "/" + "/".join(rnd_text(rng) for _ in range(3)))
    if c == 2:
        y = rng.choice([1, 99, 999, 1000, 1970, 2024, 9999]); m = rng.randrange(1, 13)
        return DATE(y, m, rng.randrange(1, 29))
    if c == 3: return TIME(rng.randrange(24), rng.randrange(60), rng.randrange(60), _us(rng.choice([0, 0, 1, 10, 9999, 500000, 999999, rng.randrange(10 ** 6)])))
    if c == 4:
        return DT(rng.choice([1, 999, 1970, 2024, 9999]), rng.randrange(1, 13), rng.randrange(1, 29), rng.randrange(24), rng.randrange(60), rng.randrange(60),
                  rng.choice([0, 1, 999999, rng.randrange(10 ** 6)]), rng.choice([None, None, 0, 330, -480, 60, -1439 + 0, 840]))
    return T()

def gen_hashable(rng, depth, custom):
    c = rng.randrange(9 if depth > 0 else 8)
    if c == 0: return None
    if c == 1: return rng.random() < 0.5
    if c == 2: return rnd_int(rng)
    if c == 3: return rnd_float(rng)
    if c in (4, 5): return rnd_text(rng)
    if c == 6: return rnd_scalar_rich(rng)
    if c == 7: return {"$": "tag", "n": rnd_text(rng)} if custom else rnd_text(rng)
    return T(*[gen_hashable(rng, depth - 1, custom) for _ in range(rng.randrange(0, 4))])

def gen_value(rng, depth, rich, custom):
    hi = 7 + (4 if rich else 0) + (3 if custom else 0)
    c = rng.randrange(hi if depth > 0 else 5)
    if c == 0: return rng.choice([None, True, False])
    if c == 1: return rnd_int(rng)
    if c == 2: return rnd_float(rng)
    if c in (3, 4): return rnd_text(rng)
    if c == 5: return [gen_value(rng, depth - 1, rich, custom) for _ in range(rng.choice([0, 1, 2, 3, 6]))]
    if c == 6: return gen_dict(rng, depth - 1, rich, custom)
    if c == 7: return rnd_scalar_rich(rng)
    if c == 8: return S(*[gen_hashable(rng, min(depth - 1, 2), custom) for _ in range(rng.choice([0, 1, 2, 3, 5]))])
    if c == 9: return T(*[gen_value(rng, depth - 1, rich, custom) for _ in range(rng.randrange(0, 4))])
    if c == 10: return rnd_scalar_rich(rng)
    if c == 11: return {"$": "point", "x": gen_value(rng, depth - 1, rich, custom), "y": gen_value(rng, depth - 1, rich, custom)}
    if c == 12: return {"$": "wrapper", "v": gen_value(rng, depth - 1, rich, custom)}
    return {"$": "tag", "n": rnd_text(rng)}

def gen_dict(rng, depth, rich, custom, nkeys=None):
    n = rng.choice([0, 1, 2, 3, 5]) if nkeys is None else nkeys
    keys = []
    while len(keys) < n:
        k = rnd_text(rng) if rng.random() < 0.7 else "k%d" % len(keys)
        if k not in keys: keys.append(k)
    return D([(k, gen_value(rng, depth, rich, custom)) for k in keys])

def seq(msgs, cfg="default", **kw):
    sc = {"kind": "seq", "cfg": cfg, "msgs": msgs}; sc.update(kw); return sc

LIGHT = ["rec_b", "rec_t", "bytesio", "stringio"]
RICH = [P("/a/b"), P(""), P("rel/ü/\U0001f600"), P("/with\nnewline\"q\\\x01"), DATE(1, 1, 1), DATE(9999, 12, 31), DATE(2024, 2, 29), DATE(999, 3, 4),
        TIME(0, 0, 0), TIME(23, 59, 59, 999999), TIME(1, 2, 3, 5), TIME(12, 0, 0, 100000), DT(2020, 1, 2, 3, 4, 5, 6), DTS(2024, 1, 2, 3, 4, 5, 678, 0), DTS(2020, 1, 2, 3, 4, 5), DT(1, 1, 1, 0, 0, 0), DT(2020, 1, 2, 3, 4, 5, 0, 0),
        DT(9999, 12, 31, 23, 59, 59, 999999, 330), DT(2000, 6, 15, 12, 0, 0, 0, -480), C(1, 2), C(-0.0, 0.0), C(float("nan"), float("inf")), C(1e308, -5e-324),
        S(), T(), S(1, 2, 3), S("a", "b"), S(None, "x"), S(1, "a"), S(True, "t", None, F(1.5)), T(1, "a", None), S(T(1, 2), T("a")), S(P("/x"), DATE(2020, 1, 1)),
        S(F(float("nan")), "n"), S(C(0, 1), None), S(T(None, "x"), "x", 3), T(S(1, "a"), S())]
HASHABLE_RICH = [r for r in RICH if not (isinstance(r, dict) and r["$"] == "set") and r != RICH[-1]]
SETPOOL = [None, True, False, 7, -1, 2 ** 64 - 1, F(1.5), F(float("nan")), "a", "", "ü\n", "7", "None", "True", "1.5", T(1, "x"), T(), P("/p"), DATE(2020, 1, 2), TIME(1, 2, 3), C(1, 1)]
CUSTOMS = [{"$": "point", "x": 1, "y": "a"}, {"$": "point", "x": S(1, "a"), "y": P("/p")}, {"$": "wrapper", "v": {"$": "wrapper", "v": S(None, "a")}},
           {"$": "wrapper", "v": {"$": "point", "x": C(1, 2), "y": [DATE(2020, 1, 1)]}}, {"$": "tag", "n": "x\n\"\U0001f600"}, S({"$": "tag", "n": "t"}, 1),
           [{"$": "point", "x": None, "y": F(float("nan"))}], D([("p", {"$": "point", "x": {"$": "tag", "n": ""}, "y": T()})]), {"$": "wrapper", "v": None},
           {"$": "wrapper", "v": {"$": "wrapper", "v": {"$": "wrapper", "v": {"$": "wrapper", "v": 2 ** 64 - 1}}}}]
UNSER = [2 ** 64, -2 ** 63 - 1, {"$": "d", "i": [[1, 2]]}, {"$": "bytes", "s": "abc"}, {"$": "object"}, {"$": "frozenset", "v": [1]}, {"$": "point", "x": 1, "y": 2},
         S({"$": "object"}, 1), {"$": "d", "i": [[None, 1]]}]

def battery(thorough, rng):
    out = []
    # 1. every code point 0..255 + boundary code points, as value, as key, embedded
    for cp in list(range(0x100)) + [c for c in SPECIAL_CPS if c >= 0x100]:
        ch = chr(cp)
        out.append(seq([D([("v", ch), (ch, "k"), ("mix", ["a" + ch + "b", D([(ch + ch, ch)])])])], files=None if cp % 8 == 0 or cp < 0x30 else LIGHT))
    for s in TRICKY:
        out.append(seq([D([("v", s), (s, s), ("l", [s, s])])]))
    # whole code space in chunks (thorough: all of it; quick: a seeded sample of chunks)
    step = 64
    chunks = [(a, min(a + step, 0x110000)) for a in range(0, 0x110000, step) if not (0xD800 <= a and a + step <= 0xE000)]
    if not thorough: chunks = rng.sample(chunks, 250)
    for a, b in chunks: out.append(seq([D([("v", CPRANGE(a, b))])], files=LIGHT))
    # 2. integer boundaries
    for i in range(0, len(INT_BOUNDS), 4):
        out.append(seq([D([("v", n), ("l", [n, -1, n]), ("d", D([("k", n)])), (str(n), F(float(n)))]) for n in INT_BOUNDS[i:i + 4]], files=None if i % 16 == 0 else LIGHT))
    # 3. float boundaries
    for f in FLOATS:
        out.append(seq([D([("v", F(f)), ("l", [F(f), F(-f), 1, F(1.0)]), ("c", C(f, -f))])], files=LIGHT))
    # 4. nesting
    for kind in ("list", "dict", "tuple", "mixed"):
        for depth in (1, 2, 3, 5, 10, 50, 100, 200, 250):
            out.append(seq([D([("v", NEST(kind, depth, "leaf\n")), ("w", NEST(kind, depth // 2, S(1, "a")))])], files=LIGHT if depth > 10 else None))
    # 5. rich types in every position, every json_default configuration
    for cfg in CFGS:
        for r in RICH:
            out.append(seq([D([("top", r), ("in_list", [r, 1]), ("in_dict", D([("k", r)])), ("in_tuple", T(r, "x"))])], cfg, files=LIGHT if cfg != "default" else None))
        for r in HASHABLE_RICH:
            out.append(seq([D([("s", S(r, "other", None)), ("ss", [S(r)])])], cfg, files=LIGHT))
    # 6. small-scope exhaustive sets
    combos = [c for n in (1, 2) for c in itertools.combinations(SETPOOL, n)]
    tri = list(itertools.combinations(SETPOOL, 3))
    combos += tri if thorough else rng.sample(tri, 150)
    for c in combos: out.append(seq([D([("s", S(*c)), ("nested", [D([("k", S(*c))])])])], files=LIGHT))
    # 7. caller's json_default extensions
    for cfg in ("custom", "override", "encoder"):
        for c in CUSTOMS:
            out.append(seq([D([("c", c), ("l", [c, S(1, "a"), C(0, -1), P("/q")])])], cfg, files=LIGHT if cfg != "custom" else None))
    # 8. sizes / buffer boundaries / sequences
    out.append(seq([D([]), D([]), D([("a", D([])), ("b", []), ("c", "")])]))
    out.append(seq([D([("k%d" % i, i) for i in range(1000)])]))
    for n in list(range(8176, 8192)) + [4087, 65527, 65528, 131063, 200000] + ([5000000] if thorough else []):
        out.append(seq([D([("a", 1)]), D([("v", REP("x", n))]), D([("b", REP("é\n", n // 3))]), D([("c", 2)])], files=None if n < 9000 or n > 100000 else LIGHT))
    out.append(seq([D([("i", i), ("s", REP("\U0001f600", i))]) for i in range(12)]))
    # 9. out-of-domain values: no partial output, later lines intact
    for cfg in ("default", "custom"):
        for u in UNSER:
            if cfg == "custom" and isinstance(u, dict) and u.get("$") == "point": continue
            out.append(seq([D([("ok", 1)]), D([("a", REP("x", 20000)), ("m", [1, D([("k", "v")])]), ("z", u)]), D([("bad", u)]), D([("ok", S(1, "a"))])], cfg))
    # 10. interleavings
    pairs = [(D([("who", "A"), ("p", list(range(10)))]), D([("who", "B"), ("p", D([("k", "v")]))])),
             (D([("who", "A"), ("big", REP("x", 100000))]), D([("who", "B")])),
             (D([("who", "A"), ("s", S(1, "a", None)), ("c", C(1, 2))]), D([("who", "B"), ("p", P("/x")), ("big", REP("é", 70000))])), (D([]), D([]))]
    for a, b in pairs:
        for text in (False, True):
            for cfg in ("default", "custom"):
                out.append({"kind": "interleave", "cfg": cfg, "text": text, "a": a, "b": b})
                out.append({"kind": "interleave", "cfg": cfg, "text": text, "a": b, "b": a})
    # 11. real logging path
    for cfg in CFGS:
        f1 = D([("x", 1), ("s", S(1, "a")), ("t", "\U0001f600\x00\n"), ("f", F(-0.0)), ("n", F(float("nan"))), ("big", 2 ** 64 - 1)])
        f2 = D([("p", P("/tmp/x")), ("d", DATE(2020, 1, 2)), ("c", C(1, 2)), ("weird key \n\"", [None, True, D([("k", T(1, 2))])])])
        ops = [["msg", "m:1", f1], ["action", "a:1", f2, [["msg", "m:2", D([])], ["action", "a:2", f1, [["msg", "m\n3", f2]], True]]], ["msg", "", D([])]]
        if cfg != "default": ops.append(["msg", "m:c", D([("pt", {"$": "point", "x": 1, "y": S("a", None)}), ("tg", {"$": "tag", "n": "z"})])])
        out.append({"kind": "logger", "cfg": cfg, "ops": ops})
    # 12. probes for the corner cases known to fail on the unchanged tree
    LS = [D([("v", "\ud800")]), D([("a\udc80", 1)]), D([("v", ["ok", D([("k", "x\udfffy")])])]), D([("p", P("/tmp/\udcff"))]), D([("v", "😀")])]
    for m in LS: out.append(seq([D([("ok", 1)]), m, D([("ok", 2)])], probe="lone_surrogate", files=["rec_b", "rec_t"]))
    for kind, depth in (("list", 254), ("list", 300), ("list", 1000), ("dict", 254), ("dict", 300), ("mixed", 300), ("tuple", 254)):
        out.append(seq([D([("ok", 1)]), D([("v", NEST(kind, depth))]), D([("ok", 2)])], probe="deep_nesting", files=["rec_b", "rec_t"]))
    for t in (TIME(1, 2, 3, 0, 0), TIME(1, 2, 3, 5, 330), S(TIME(0, 0, 0, 0, -480))):
        out.append(seq([D([("ok", 1)]), D([("t", t)]), D([("ok", 2)])], probe="aware_time", files=["rec_b", "rec_t"]))
    for us in (10000, 30429, 99999, 54321):
        out.append(seq([D([("ok", 1)]), D([("t", TIME(7, 36, 20, us)), ("l", [TIME(0, 0, 0, us)]), ("dt", DT(2020, 1, 1, 7, 36, 20, us))]), D([("ok", 2)])], probe="time_us_5digit", files=["rec_b", "rec_t"]))
    return out

def randoms(n, rng):
    out = []
    for i in range(n):
        cfg = rng.choice(["default", "default", "custom", "override", "encoder"])
        custom = cfg != "default"
        msgs = [gen_dict(rng, rng.choice([1, 2, 3, 4]), rng.random() < 0.7, custom and rng.random() < 0.7, nkeys=rng.choice([0, 1, 2, 3, 4, 6]))
                for _ in range(rng.choice([1, 1, 2, 3]))]
        out.append(seq(msgs, cfg, files=None if i % 5 == 0 else LIGHT))
    return out

NRAND_Q, NRAND_T = 10000, 300000
KNOWN_INPUTS = ("lone_surrogate", "deep_nesting", "aware_time")
_LOST_ZERO = re.compile(r"expected '(\d\d:\d\d:\d\d)\.0(\d{5})' got '\1\.\2'")

def run_scenario(sc):
    pr = Problems()
    try:
        {"seq": run_seq, "interleave": run_interleave, "logger": run_logger}[sc["kind"]](sc, pr)
    except Exception as e:
        import traceback; err(traceback.format_exc())
        pr.add("driver_error", "-", "%s: %s" % (type(e).__name__, e))
    return pr.items

def trivial(sc):
    if sc["kind"] == "seq": return not any(m.get("i") for m in sc["msgs"] if isinstance(m, dict))
    return False

def main():
    thorough = args.tier == "thorough"
    t0 = _time.time(); rng = random.Random(args.seed)
    if args.scenario: scs = [json.loads(args.scenario)]
    else: scs = battery(thorough, rng) + randoms(NRAND_T if thorough else NRAND_Q, rng)
    deadline = t0 + (780 if thorough else 33)
    fails = {}; known = {}; cases = 0; seen = set(); nfail = 0
    for sc in scs:
        if _time.time() > deadline:
            err("time budget reached after %d of %d scenarios" % (cases, len(scs))); break
        cases += 1
        if not trivial(sc): seen.add(json.dumps(sc, sort_keys=True))
        items = run_scenario(sc)
        if not items: continue
        groups = {}
        for sig, txt in items:
            if sig.get("clause") == "no_line" and sig.get("exc") == "TypeError" and sig.get("input") in KNOWN_INPUTS and sc.get("probe") == sig["input"]:
                sig = {"clause": "no_line", "exc": "TypeError", "input": sig["input"]}; target = known
            elif sig.get("clause") == "faithful" and sc.get("probe") == "time_us_5digit" and _LOST_ZERO.search(txt):
                sig = {"clause": "faithful", "input": "time_us_5digit"}; target = known
            else: target = fails
            groups.setdefault((id(target), json.dumps(sig, sort_keys=True)), (target, sig, []))[2].append(txt)
        for (_, key), (target, sig, txts) in groups.items():
            if target is fails: nfail += 1
            if key not in target and len(target) < 5:
                target[key] = {"signature": sig, "scenario": sc, "observed": [t[:300] for t in txts[:3]]}
        if len(fails) >= 5 and nfail >= 25: break
    try: os.rmdir(TMPDIR)
    except OSError:
        import shutil; shutil.rmtree(TMPDIR, ignore_errors=True)
    err("c10: %d scenarios in %.1fs, %d failing signatures, %d known" % (cases, _time.time() - t0, len(fails), len(known)))
    print(json.dumps({"cases": cases, "distinct": len(seen), "failures": list(fails.values()), "known": list(known.values()),
        "bound": ("messages of 0..1000 fields; every code point 0..255 + boundary code points singly, %s; all 64-bit integer boundaries 2^k(+-1); %d float boundary values + random bit patterns; "
                  "nesting depth <= 250 (lists/dicts/tuples/mixed); documented rich types (Path, date, time, datetime, set, complex, tuple) in every position; all subsets of size <= %s of a 21-member set pool; "
                  "json_default in {eliot default, caller extension, caller override, deprecated encoder=}; 8 file kinds (recording fakes, BytesIO/StringIO, real buffered/unbuffered/text files, TextIOWrapper); "
                  "line sizes around 8 KiB / 64 KiB / 128 KiB buffers%s; %d seeded random message sequences (depth <= 4)") % (
                  "the whole Unicode code space in 64-code-point chunks" if thorough else "250 seeded 64-code-point chunks of the code space", len(FLOATS), "3" if thorough else "2 (+150 sampled triples)",
                  " and 5 MB" if thorough else "", NRAND_T if thorough else NRAND_Q),
        "rule": "fixed battery (small-scope exhaustive over characters, numeric boundaries, nesting depths, rich types x positions x json_default configs, set subsets, buffer-boundary sizes, "
                "unserializable-value sequences, forced two-thread interleavings pausing A after each of its write() calls, real Logger path) followed by seeded random message sequences; "
                "a scenario = (kind, json_default config, file kinds, message specs); distinct = distinct canonical scenario JSON; non-trivial = at least one message has a field"}))
main()
