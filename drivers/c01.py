"""Native driver for C01 (bounded; real code): emitted logs parse back to exactly the action tree the program executed.

A scenario is a small *logging program* written as JSON (a forest of ops, see "rule" in the output).  The driver
interprets it against the real library with every public way of starting/scoping/finishing actions and of logging
messages, while an independent oracle (EAct/EMsg below: plain position counters, no eliot code) records what the
program did.  Every emitted message goes through a real FileDestination into a temporary file (binary or text
mode, add_destinations or to_file); the file is read back, each line decoded with the stdlib json module and
the decoded dictionaries are fed to eliot.parse.Parser.parse_stream.  Checked clause by clause:
  lines      one JSON object line per message the program performed (nothing lost / duplicated in the file)
  crash      the program and the parser raise nothing but the program's own exceptions
  task_count exactly one task per top-level action + one per context-less message
  complete   every task is reported complete, none is left in incomplete_tasks()
  order      tasks are yielded in the order in which the program completed them
  shape      same node kinds, same number of children, same child order
  level      every start/end/message sits at the position the program gave it
  type/status  WrittenAction.action_type / .status (+ exception/reason accessors) as performed
  fields     contents of every start, end and plain message equal (type-strict, deep) the fields the program passed
             (after the declared Field serializers for typed actions/messages) + global fields
  shuffled   the same lines fed in a seeded shuffled order give the same trees

Prints one JSON line: {cases, distinct, failures:[{signature, scenario, observed}], known:[...], bound, rule}.

KNOWN_ON_UNCHANGED_TREE  (genuine violations of the literal statement on the unchanged tree; still detected by the
"odd" family on every run, reported under the top-level key "known" instead of "failures"):
  K1 {"known":"late"}            the program logs into an action after that action finished
       with start_action(action_type="L") as a: pass
       a.log("late:msg")
     top level: lines [1] started, [2] succeeded, [3] late:msg.  The parser yields the task as complete after [2]
     and forgets it; [3] then starts a second, never-complete task with the same task_uuid whose root is a
     WrittenAction without start/end (action_type None, status None) holding late:msg: 2 tasks instead of 1.
     nested (inside another action): in file order the tree is right, but with the same lines shuffled the
     enclosing task is never reported complete (1 child != end position 2 - 2).
  K2 {"known":"msg_at"}          a plain message that has a field named "action_type"
       log_message("m", action_type="zz")
     Task.add takes any dictionary with a non-null action_type for an action message and reads
     message_dict["action_status"]: Parser.parse_stream raises KeyError('action_status'); nothing is parsed.
  K3 {"known":"unused_id"}       a position is taken inside an action and never used
       with start_action(action_type="P") as p: log_message("m1"); p.serialize_task_id(); log_message("m2")
       (same with preserve_context(f) whose result is never called)
     lines [1] started, [2] m1, [4] m2, [5] succeeded: the tree is right, but the task is never reported
     complete (2 children != 5 - 2); it only comes out of incomplete_tasks() at the end of the stream.
  K4 {"known":"typed_missing"}   typed action finished without a declared success field
       T = ActionType("T:act", [Field("tag", f, ""), Field("x", g, "")], [Field("r", g, "")], "")
       with T(tag=1, x=2): pass           # no add_success_fields(r=...)
     Logger.write catches the KeyError of the success serializer, drops the end message and logs an
     eliot:traceback and an eliot:serialization_failure message in its place (in the enclosing action, or as two
     extra single-message tasks at top level): the action is parsed with status "started", no end message, never
     complete, and two messages the program did not log appear.
  K5 {"known":"ser_raises"}      a declared Field serializer raises for the start message
       B = ActionType("T:bad", [Field("x", raising_serializer, "")], [], "");  with B(x=1): pass
     same mechanism as K4 for the start message: parsed action has no start message (only the end), is never
     complete, plus the two substitute messages.
  All five are only exercised by the dedicated "odd" scenarios (which carry "odd": <name>); the same clauses failing
  in any other scenario are reported as failures.
"""
import argparse, json, os, random, sys, tempfile, threading, warnings, zlib

ap = argparse.ArgumentParser(); ap.add_argument("--tier", default="quick"); ap.add_argument("--seed", type=int, default=0)
ap.add_argument("--scenario"); args = ap.parse_args()
warnings.simplefilter("ignore")


from eliot import (start_action, start_task, current_action, log_message, log_call, add_destinations, remove_destination,
                   preserve_context, write_traceback, Message, MessageType, ActionType, Field, fields as eliot_fields,
                   FileDestination, add_global_fields, to_file, register_exception_extractor, Action)
from eliot._output import Logger
from eliot._errors import _error_extraction
from eliot.parse import Parser, WrittenAction, WrittenMessage

TIMEOUT = 60.0
STR_FAILED = "eliot: unknown, str() raised exception"   # documented fallback text of a failing str()
GLOBAL_FIELDS = {"host": "h1", "pid": 7}


def err(*a):
    print(*a, file=sys.stderr)


# ----------------------------------------------------------------------------------------------------
# vocabulary
# ----------------------------------------------------------------------------------------------------
class CodeErr(Exception):
    def __init__(self, msg, code=3):
        Exception.__init__(self, msg); self.code = code
class SubCodeErr(CodeErr): pass
class BaseErr(BaseException): pass
class BadStr(Exception):
    def __str__(self): raise RuntimeError("no str")
class Outer(object):
    class NestedErr(Exception): pass


def make_exc(code):
    if code == "V": return ValueError("boom")
    if code == "K": return KeyError("k")
    if code == "O": return OSError(5, "io")
    if code == "C": return CodeErr("coded", 11)
    if code == "S": return SubCodeErr("sub", 12)
    if code == "B": return BaseErr("base")
    if code == "I": return KeyboardInterrupt()
    if code == "U": return BadStr()
    if code == "E": return ValueError()
    if code == "N": return RuntimeError("ünï ☃ \U0001d11e")
    if code == "L": return Outer.NestedErr("nested", 2)
    if code == "F": return FileNotFoundError(2, "nf", "/x")
    raise RuntimeError("driver bug: exception code %r" % (code,))
EXC_CODES = ["V", "K", "O", "C", "S", "B", "I", "U", "E", "N", "L", "F"]


def exc_fields(e):
    """Oracle: what the failure of an action by `e` / a traceback message for `e` is documented to carry."""
    try: reason = str(e)
    except BaseException: reason = STR_FAILED
    d = {"exception": "%s.%s" % (type(e).__module__, type(e).__name__), "reason": reason}
    if isinstance(e, CodeErr): d["code"] = e.code          # extractor registered by the driver (found through the MRO)
    elif isinstance(e, EnvironmentError): d["errno"] = e.errno   # eliot's documented default extractor
    return d


def _ident(v): return v
def _ser(v): return ["ser", v]

TYPED_ACTS = [
    (ActionType("T:act", [Field("tag", _ident, ""), Field("x", _ser, "")], [Field("r", _ser, "")], "d"), {"x": _ser}, {"r": _ser}),
    (ActionType("", [], [], ""), {}, {}),
    (ActionType("T:ft", eliot_fields(n=int), eliot_fields(ok=bool), ""), {}, {}),
]
TYPED_MSGS = [
    (MessageType("T:msg", [Field("tag", _ident, ""), Field("x", _ser, "")], "d"), {"x": _ser}),
    (MessageType("", [], ""), {}),
    (MessageType("T:fm", eliot_fields(s=str), ""), {}),
]
def _raising_ser(v): raise ZeroDivisionError("serializer")
BAD_ACT = ActionType("T:bad", [Field("x", _raising_ser, "")], [], "")

ACT_TYPES = ["", "a", "app:b:c", "ünï:☃", "eliot:remote_task", "T:act"]
MSG_TYPES = ["", "m", "app:msg", "ünï", "eliot:traceback"]
ACT_FIELD_NAMES = ["x", "y", "tag", "key with space", "ünï", "", "a.b", "_under", "result", "reason", "exception",
                   "message_type", "errno"]
MSG_FIELD_NAMES = ["x", "y", "tag", "key with space", "ünï", "", "a.b", "_under", "result", "reason", "exception",
                   "action_status", "errno"]
LEAVES = [None, True, False, 0, 1, -1, 2 ** 63 - 1, -2 ** 63, 1.5, -0.25, 1e100, 5e-324, "", "s", "ünïcødé ☃",
          "\n\t\"\\/", "\u0000\u001f", "\U0001d11e", "null", [], {}]


def rand_value(r, depth=0):
    k = r.random()
    if depth >= 3 or k < 0.6:
        v = r.choice(LEAVES)
        return type(v)() if isinstance(v, (list, dict)) else v
    if k < 0.8:
        return [rand_value(r, depth + 1) for _ in range(r.randint(0, 3))]
    return {r.choice(["k", "", "a b", "ü", "task_uuid", "1"]): rand_value(r, depth + 1) for _ in range(r.randint(0, 3))}


def rand_fields(r, names, maxn=3):
    return {r.choice(names): rand_value(r) for _ in range(r.choice([0, 0, 1, 1, 2, maxn]))}


def strict_eq(a, b):
    if type(a) is not type(b): return False
    if isinstance(a, list): return len(a) == len(b) and all(strict_eq(x, y) for x, y in zip(a, b))
    if isinstance(a, dict): return a.keys() == b.keys() and all(strict_eq(a[k], b[k]) for k in a)
    return a == b


def plain(v):
    """Turn whatever the parser hands back (pmap/pvector/dict/list) into plain dict/list for comparison."""
    if isinstance(v, (str, bytes, int, float, bool)) or v is None: return v
    if hasattr(v, "items"): return {k: plain(x) for k, x in v.items()}
    if hasattr(v, "__iter__"): return [plain(x) for x in v]
    return v


# ----------------------------------------------------------------------------------------------------
# oracle model of what the program did
# ----------------------------------------------------------------------------------------------------
class EMsg(object):
    def __init__(self, level, contents):
        self.level = level; self.contents = contents; self.uuid = None
    def brief(self): return "m(%s)" % (self.contents.get("message_type"),)


class EAct(object):
    def __init__(self, level, start):
        self.level = level; self.start = start; self.end = None; self.children = []; self.n = 1; self.endpos = None; self.uuid = None
    def alloc(self):
        self.n += 1
        return self.level + [self.n]
    def brief(self):
        return "a(%s,%s)[%s]" % (self.start.get("action_type"), (self.end or {}).get("action_status"), ",".join(c.brief() for c in self.children))


class _TB(object):
    def __repr__(self): return "<some traceback text>"
TB = _TB()


def got_brief(node):
    if isinstance(node, WrittenMessage): return "m(%s)" % (node.contents.get("message_type"),)
    if isinstance(node, WrittenAction):
        return "a(%s,%s)[%s]" % (node.action_type, node.status, ",".join(got_brief(c) for c in node.children))
    return repr(node)[:40]


class Baton(object):
    """Deterministic hand-over between lanes: exactly one lane runs at a time; after every op the running lane draws the
    next lane to run from a seeded generator."""
    def __init__(self, n, seed):
        self.cv = threading.Condition(); self.alive = [True] * n; self.turn = 0; self.r = random.Random(seed); self.n = n
    def _pick(self):
        live = [i for i in range(self.n) if self.alive[i]]
        if live: self.turn = self.r.choice(live)
        self.cv.notify_all()
    def wait(self, me):
        with self.cv:
            while self.turn != me:
                if not self.cv.wait(TIMEOUT): raise RuntimeError("driver: baton timeout")
    def step(self, me):
        if self.n == 1: return
        with self.cv:
            self._pick()
            while self.turn != me:
                if not self.cv.wait(TIMEOUT): raise RuntimeError("driver: baton timeout")
    def done(self, me):
        with self.cv:
            self.alive[me] = False; self._pick()


# ----------------------------------------------------------------------------------------------------
# the interpreter: runs a program against the real library and records in the oracle what it did
# ----------------------------------------------------------------------------------------------------
class Run(object):
    def __init__(self, sc):
        opts = sc.get("opts") or {}
        self.tasks = []; self.completed = []; self.nmsgs = 0; self.problems = []
        self.gf = dict(GLOBAL_FIELDS) if opts.get("g") else {}
        lanes = sc["lanes"]
        self.baton = Baton(len(lanes), opts.get("sched", 0))

    def contents(self, d):
        d.update(self.gf)
        return d

    def problem(self, clause, text, **more):
        sig = {"clause": clause}; sig.update(more)
        self.problems.append((sig, text))


class Interp(object):
    def __init__(self, run, lane, stack=None):
        self.run = run; self.lane = lane; self.stack = stack if stack is not None else []

    def cur(self):
        return self.stack[-1] if self.stack else None

    def body(self, ops):
        for op in ops:
            top = self.cur()
            if top is not None and top[2]:            # manual scope: the program names its action explicitly
                if op["o"] == "m": self.op_m(op, explicit=True)
                else:
                    with top[0].context(): self.dispatch(op)
            else:
                self.dispatch(op)
            self.run.baton.step(self.lane)

    def dispatch(self, op):
        getattr(self, "op_" + op["o"])(op)

    # -- model helpers
    def model_msg(self, exp):
        run = self.run; cur = self.cur(); exp = run.contents(exp)
        if cur is None:
            m = EMsg([1], exp); run.tasks.append(m); run.completed.append(m)
        else:
            m = EMsg(cur[1].alloc(), exp); cur[1].children.append(m)
        run.nmsgs += 1
        return m

    def model_start(self, exp_start, new_task, level=None):
        run = self.run; cur = self.cur()
        if new_task or cur is None:
            E = EAct([], run.contents(exp_start)); run.tasks.append(E)
        else:
            E = EAct(cur[1].alloc() if level is None else level, run.contents(exp_start)); cur[1].children.append(E)
        run.nmsgs += 1
        return E

    def model_end(self, E, t, exc, exp_sf):
        if exc is None:
            d = dict(exp_sf); d["action_status"] = "succeeded"
        else:
            d = exc_fields(exc); d["action_status"] = "failed"
        d["action_type"] = t
        E.alloc(); E.endpos = E.n; E.end = self.run.contents(d)
        self.run.nmsgs += 1
        if E.level == []: self.run.completed.append(E)

    # -- messages
    def op_m(self, op, explicit=False):
        how = op["h"]; f = dict(op.get("f") or {}); t = op.get("t", ""); cur = self.cur()
        exp = json.loads(json.dumps(f))
        mt = None
        if how in ("T", "Tw"):
            mt, sers = TYPED_MSGS[op["tt"]]; t = mt.message_type
            for k, s in sers.items(): exp[k] = s(exp[k])
        if how == "MLn": t = ""
        exp["message_type"] = t
        self.model_msg(exp)
        A = cur[0] if cur else None
        if explicit or (A is not None and how in ("al", "MWa")):
            if how in ("T", "Tw"): mt(**f).write(action=A)
            elif how == "MLn": Message.new(**f).write(action=A)
            elif how in ("MW", "MWa", "Mb", "ML"): Message.new(message_type=t, **f).write(action=A)
            else: A.log(t, **f)
        elif how in ("lm", "al"): log_message(t, **f)
        elif how == "lmk": log_message(message_type=t, **f)
        elif how == "ML": Message.log(message_type=t, **f)
        elif how == "MLn": Message.log(**f)
        elif how in ("MW", "MWa"): Message.new(message_type=t, **f).write()
        elif how == "Mb": Message.new(message_type=t, **{k: "unbound" for k in f}).bind(**f).bind().write()
        elif how == "T": mt.log(**f)
        elif how == "Tw": mt(**f).write()
        else: raise RuntimeError("driver bug: message how %r" % (how,))

    def op_tb(self, op):
        e = make_exc(op["x"])
        exp = exc_fields(e); exp["message_type"] = "eliot:traceback"; exp["traceback"] = TB
        self.model_msg(exp)
        if op.get("ei"):
            try: raise e
            except BaseException: info = sys.exc_info()
            write_traceback(exc_info=info)
        else:
            try: raise e
            except BaseException as got:
                if got is not e: raise
                write_traceback()

    # -- actions
    def op_a(self, op):
        s = op["s"]
        if s == "pc": return self.do_pc(op)
        if s in ("lc", "lcm"): return self.do_lc(op)
        run = self.run; scope = op.get("c", "w"); t = op.get("t", ""); f = dict(op.get("f") or {}); sf = dict(op.get("sf") or {})
        x = op.get("x"); body = op.get("b") or []; cur = self.cur(); dt = bool(op.get("dt"))
        exp_start = json.loads(json.dumps(f)); exp_sf = json.loads(json.dumps(sf)); at = None
        if s in ("T", "Tt"):
            at, ss, es = TYPED_ACTS[op["tt"]]; t = at.action_type
            for k, fn in ss.items(): exp_start[k] = fn(exp_start[k])
            for k, fn in es.items(): exp_sf[k] = fn(exp_sf[k])
        if s == "ct" and cur is None: s = "sa"
        if dt: t = "eliot:remote_task" if s == "ct" else ("" if s in ("sa", "st") else t)
        exp_start["action_type"] = t; exp_start["action_status"] = "started"
        level = None
        if s == "ct":
            tid = cur[0].serialize_task_id(); level = cur[1].alloc()
            if op.get("ts"): tid = tid.decode("ascii")
            E = self.model_start(exp_start, False, level)       # the position is taken now, the start is written later
            self.body(op.get("pre") or [])
            A = Action.continue_task(task_id=tid, **f) if dt else Action.continue_task(task_id=tid, action_type=t, **f)
        else:
            E = self.model_start(exp_start, s in ("st", "Tt"))
            if s == "sa": A = start_action(**f) if dt else start_action(action_type=t, **f)
            elif s == "st": A = start_task(**f) if dt else start_task(action_type=t, **f)
            elif s == "T": A = at(**f)
            elif s == "Tt": A = at.as_task(**f)
            else: raise RuntimeError("driver bug: action start %r" % (s,))
        E.uuid = A.task_uuid
        exc = make_exc(x) if x else None

        def inner():
            self.stack.append((A, E, scope == "m"))
            try:
                self.body(body)
                if sf:
                    if op.get("old"): A.addSuccessFields(**sf)
                    else: A.add_success_fields(**sf)
                if exc is not None and scope != "m": raise exc
            finally:
                self.stack.pop()

        caught = None
        try:
            if scope == "w":
                with A as got:
                    if got is not A: run.problem("crash", "with-block did not hand back the action")
                    inner()
            elif scope == "c":
                try:
                    with A.context() as got:
                        if got is not A: run.problem("crash", "context() did not hand back the action")
                        inner()
                except BaseException as e:
                    if e is not exc: raise
                    caught = e
                if caught is None: A.finish()
                else: A.finish(caught)
            elif scope == "r":
                try: A.run(inner)
                except BaseException as e:
                    if e is not exc: raise
                    caught = e
                A.finish(caught)
            elif scope == "m":
                inner()
                A.finish(exc)
            else: raise RuntimeError("driver bug: scope %r" % (scope,))
        except BaseException as e:
            if e is not exc: raise
        self.model_end(E, t, exc, exp_sf)
        if op.get("re"):
            A.finish(); A.finish(ValueError("again"))          # finishing twice logs nothing

    def do_lc(self, op):
        run = self.run; f = dict(op["f"]); t = op.get("t", ""); x = op.get("x"); body = op.get("b") or []
        ia = op.get("ia"); ir = op.get("ir", True); dt = bool(op.get("dt")); rv = op.get("rv"); meth = op["s"] == "lcm"
        exc = make_exc(x) if x else None
        holder = {}

        def wrapped(tag, x):
            A = current_action()
            if A is None: raise RuntimeError("log_call: no current action inside the decorated function")
            E = holder["E"]; E.uuid = A.task_uuid
            self.stack.append((A, E, False))
            try:
                self.body(body)
                if exc is not None: raise exc
                return json.loads(json.dumps(rv))
            finally:
                self.stack.pop()

        if meth:
            class K(object):
                def fn(self, tag, x): return wrapped(tag, x)
            target = K.fn
        else:
            def target(tag, x="dflt"): return wrapped(tag, x)
        if dt: t = "%s.%s" % (target.__module__, target.__qualname__)
        kw = {}
        if not dt: kw["action_type"] = t
        if ia is not None: kw["include_args"] = list(ia)
        if not ir: kw["include_result"] = False
        dec = log_call(**kw)(target) if kw else log_call(target)
        names = ["tag", "x"] if ia is None else list(ia)
        exp_start = {k: json.loads(json.dumps(f[k])) for k in names}
        exp_start["action_type"] = t; exp_start["action_status"] = "started"
        holder["E"] = E = self.model_start(exp_start, False)
        try:
            if meth: got = dec(K(), f["tag"], x=f["x"])
            elif op.get("kw"): got = dec(x=f["x"], tag=f["tag"])
            else: got = dec(f["tag"], f["x"])
            if not strict_eq(got, rv): run.problem("crash", "log_call wrapper returned %r instead of %r" % (got, rv))
        except BaseException as e:
            if e is not exc: raise
        self.model_end(E, t, exc, {"result": json.loads(json.dumps(rv))} if ir else {})

    def do_pc(self, op):
        run = self.run; cur = self.cur(); body = op.get("b") or []; x = op.get("x")
        exc = make_exc(x) if x else None
        t = "eliot:remote_task"; E = None
        sub = Interp(run, self.lane, [])
        if cur is not None:
            E = EAct(cur[1].alloc(), run.contents({"action_type": t, "action_status": "started"})); cur[1].children.append(E)

        def f(a, b=None):
            if E is not None:
                A = current_action()
                if A is None: raise RuntimeError("preserve_context: no current action inside the restored callable")
                E.uuid = A.task_uuid; run.nmsgs += 1
                sub.stack.append((A, E, False))
            sub.body(body)
            if exc is not None: raise exc
            return (a, b)

        g = preserve_context(f)
        self.body(op.get("pre") or [])
        crashes = []

        def target(expect_too_many):
            try:
                r = g(1, b=2)
                if expect_too_many: crashes.append("second call of the preserve_context callable did not raise")
                elif r != (1, 2): crashes.append("preserve_context callable returned %r" % (r,))
            except BaseException as e:
                if expect_too_many and type(e).__name__ == "TooManyCalls": return
                if e is not exc: crashes.append("%s: %s" % (type(e).__name__, e))
        inline = op.get("c") == "i"   # the callable is run inline, while the originating action is still current (seeded change C01-4 / C06-4)
        if inline: target(False)
        else:
            th = threading.Thread(target=target, args=(False,)); th.start(); th.join(TIMEOUT)
            if th.is_alive(): crashes.append("thread did not finish")
        if E is not None:
            self.model_end(E, t, exc, {})
            if op.get("twice"):
                if inline: target(True)
                else:
                    th = threading.Thread(target=target, args=(True,)); th.start(); th.join(TIMEOUT)
        for c in crashes: run.problem("crash", "preserve_context thread: " + c)

    def op_re(self, op):
        k = op.get("up", 0); h = op["h"]; x = op.get("x"); exc = make_exc(x) if x else None
        if not self.stack:
            return self.body(op.get("b") or [])
        entry = self.stack[max(0, len(self.stack) - 1 - k)]; A = entry[0]

        def inner(*a, **kw):
            self.stack.append((entry[0], entry[1], False))
            try:
                self.body(op.get("b") or [])
                if exc is not None: raise exc
                return "rv"
            finally:
                self.stack.pop()
        try:
            if h == "c":
                with A.context(): inner()
            elif h == "r":
                if A.run(inner) != "rv": self.run.problem("crash", "Action.run did not return the function's result")
            elif h == "ra":
                if A.run(inner, 1, b=2) != "rv": self.run.problem("crash", "Action.run did not return the function's result")
            else: raise RuntimeError("driver bug: reenter how %r" % (h,))
        except BaseException as e:
            if e is not exc: raise

    # -- corner probes (family "odd")
    def op_late(self, op):
        E = self.model_start({"action_type": "L", "action_status": "started"}, False)
        with start_action(action_type="L") as a: pass
        self.model_end(E, "L", None, {})
        self.stack.append((a, E, True))
        try: self.op_m({"o": "m", "h": "al", "t": "late:msg"}, explicit=True)
        finally: self.stack.pop()

    def op_unused_id(self, op):
        cur = self.cur()
        if op.get("pc"): preserve_context(lambda: None)
        else: cur[0].serialize_task_id()
        cur[1].alloc()

    def op_msg_at(self, op):
        self.model_msg({"message_type": "m", "action_type": "zz"})
        log_message("m", action_type="zz")

    def op_typed_missing(self, op):
        at = TYPED_ACTS[0][0]
        E = self.model_start({"action_type": "T:act", "action_status": "started", "tag": 1, "x": ["ser", 2]}, False)
        with at(tag=1, x=2): pass
        self.model_end(E, "T:act", None, {})

    def op_ser_raises(self, op):
        E = self.model_start({"action_type": "T:bad", "action_status": "started", "x": 1}, False)
        with BAD_ACT(x=1): pass
        self.model_end(E, "T:bad", None, {})

    def op_ooo(self, op):
        EA = self.model_start({"action_type": "oA", "action_status": "started"}, False)
        a = start_action(action_type="oA")
        self.stack.append((a, EA, False))
        with a.context():
            EB = self.model_start({"action_type": "oB", "action_status": "started"}, False)
            b = start_action(action_type="oB")
        self.stack.pop()
        # the parent is finished while the child is still open, then the child goes on and finishes
        EA.alloc(); EA.endpos = EA.n; EA.end = self.run.contents({"action_type": "oA", "action_status": "succeeded"}); self.run.nmsgs += 1
        a.finish()
        self.stack.append((b, EB, True))
        try: self.op_m({"o": "m", "h": "al", "t": "in-b"}, explicit=True)
        finally: self.stack.pop()
        b.finish(); EB.alloc(); EB.endpos = EB.n; EB.end = self.run.contents({"action_type": "oB", "action_status": "succeeded"}); self.run.nmsgs += 1
        if EA.level == []: self.run.completed.append(EA)


# ----------------------------------------------------------------------------------------------------
# comparison of the parsed forest with the oracle
# ----------------------------------------------------------------------------------------------------
def diff_dicts(exp, got):
    out = []
    for k in exp:
        if k not in got: out.append("missing %r" % (k,))
        elif not strict_eq(exp[k], got[k]): out.append("%r: expected %r got %r" % (k, exp[k], got[k]))
    for k in got:
        if k not in exp: out.append("extra %r=%r" % (k, got[k]))
    return "; ".join(out)[:300]


def check_message(run, exp_contents, exp_level, got, part, path):
    try:
        lvl = list(got.task_level.as_list())
        if lvl != exp_level: run.problem("level", "%s: %s at %r, the program put it at %r" % (path, part, lvl, exp_level), part=part)
        g = plain(got.contents); e = dict(exp_contents)
        if e.get("traceback") is TB:
            tb = g.pop("traceback", None); e.pop("traceback")
            name = e["exception"].rsplit(".", 1)[-1]
            if not (isinstance(tb, str) and tb.startswith("Traceback (most recent call last):") and name in tb):
                run.problem("fields", "%s: traceback text is %r" % (path, tb), part=part)
        if not strict_eq(e, g): run.problem("fields", "%s %s: %s" % (path, part, diff_dicts(e, g)), part=part)
        if type(got.timestamp) is not float: run.problem("fields", "%s %s: timestamp %r" % (path, part, got.timestamp), part="timestamp")
    except Exception as ex:
        run.problem("crash", "%s %s: reading the parsed message raised %s: %s" % (path, part, type(ex).__name__, ex), part="parsed")


def compare(run, exp, got, path):
    if isinstance(exp, EMsg):
        if not isinstance(got, WrittenMessage):
            return run.problem("shape", "%s: program logged message %s, parser has %s" % (path, exp.brief(), got_brief(got)), part="kind")
        return check_message(run, exp.contents, exp.level, got, "message", path)
    if not isinstance(got, WrittenAction):
        return run.problem("shape", "%s: program ran action %s, parser has %s" % (path, exp.brief(), got_brief(got)), part="kind")
    lvl = list(got.task_level.as_list())
    if lvl != exp.level: run.problem("level", "%s: action at %r, the program put it at %r" % (path, lvl, exp.level), part="action")
    if got.start_message is None: run.problem("shape", "%s: action %s has no start message" % (path, exp.brief()), part="start")
    else: check_message(run, exp.start, exp.level + [1], got.start_message, "start", path)
    if exp.end is not None:
        if got.end_message is None: run.problem("shape", "%s: action %s has no end message" % (path, exp.brief()), part="end")
        else: check_message(run, exp.end, exp.level + [exp.endpos], got.end_message, "end", path)
    elif got.end_message is not None: run.problem("shape", "%s: unfinished action has an end message" % (path,), part="end")
    try:
        if got.action_type != exp.start["action_type"]:
            run.problem("type", "%s: action_type %r, the program used %r" % (path, got.action_type, exp.start["action_type"]))
        st = exp.end["action_status"] if exp.end else "started"
        if got.status != st: run.problem("status", "%s: status %r, the program's action %s" % (path, got.status, st))
        if exp.end is not None and (got.exception != exp.end.get("exception") or got.reason != exp.end.get("reason")):
            run.problem("status", "%s: exception/reason %r/%r, expected %r/%r" % (path, got.exception, got.reason, exp.end.get("exception"), exp.end.get("reason")), part="exception")
        kids = list(got.children)
    except Exception as ex:
        return run.problem("crash", "%s: reading the parsed action raised %s: %s" % (path, type(ex).__name__, ex), part="parsed")
    if len(kids) != len(exp.children):
        run.problem("shape", "%s: program did %s, parser has %s" % (path, exp.brief(), got_brief(got)), part="children")
    for i, (e, g) in enumerate(zip(exp.children, kids)):
        compare(run, e, g, "%s/%d" % (path, i))


def root_of(task):
    try: return task.root()
    except Exception: return None


def check_forest(run, decoded, exp_tasks, assign_uuid):
    try:
        tasks = list(Parser.parse_stream(decoded))
    except Exception as ex:
        run.problem("crash", "Parser.parse_stream raised %s: %s" % (type(ex).__name__, str(ex)[:200]), part="parser"); return
    roots = [root_of(t) for t in tasks]
    inc = [got_brief(r) for t, r in zip(tasks, roots) if not t.is_complete()]
    if inc: run.problem("complete", "%d task(s) not reported complete: %s" % (len(inc), "; ".join(inc)[:300]))
    if len(tasks) != len(exp_tasks):
        run.problem("task_count", "program performed %d tasks [%s], parser produced %d [%s]" % (
            len(exp_tasks), "; ".join(e.brief() for e in exp_tasks)[:300], len(tasks), "; ".join(got_brief(r) for r in roots)[:400]))
    if assign_uuid:
        # in file order: tasks must come out in completion order
        if len(tasks) != len(exp_tasks):
            by = {}
            for r in roots:
                if r is not None: by[r.task_uuid] = r
            for i, e in enumerate(exp_tasks):
                if e.uuid in by: compare(run, e, by[e.uuid], "task%d" % i)
            return
        for i, (e, r) in enumerate(zip(exp_tasks, roots)):
            if r is None: run.problem("shape", "task%d has no root" % i, part="root"); continue
            if e.uuid is not None and r.task_uuid != e.uuid:
                run.problem("order", "task%d: parser yielded %s where the program completed %s" % (i, got_brief(r), e.brief())); continue
            e.uuid = r.task_uuid
            compare(run, e, r, "task%d" % i)
    else:
        by = {}
        for r in roots:
            if r is not None:
                if r.task_uuid in by: run.problem("task_count", "two tasks for one task_uuid")
                by[r.task_uuid] = r
        for i, e in enumerate(exp_tasks):
            if e.uuid not in by: run.problem("task_count", "task%d %s missing" % (i, e.brief()))
            else: compare(run, e, by[e.uuid], "task%d" % i)


def lane_main(run, i, ops):
    try:
        run.baton.wait(i)
        Interp(run, i).body(ops)
        if current_action() is not None:
            run.problem("crash", "lane %d: after the program current_action() is still %r" % (i, current_action()), part="context")
    except BaseException as e:
        run.problem("crash", "lane %d: the program raised %s: %s" % (i, type(e).__name__, str(e)[:200]), part="program")
    finally:
        run.baton.done(i)


_SCRATCH = []
SHUFFLE_ALL = args.tier == "thorough" or bool(args.scenario)


def scratch_path():
    """One temporary file for the whole run (re-opened, truncated, for every scenario; removed at the end)."""
    if not _SCRATCH:
        fd, path = tempfile.mkstemp(prefix="c01_", suffix=".log"); os.close(fd); _SCRATCH.append(path)
    return _SCRATCH[0]


def run_scenario(sc):
    """-> list of (signature dict, text)"""
    import contextvars
    run = Run(sc); opts = sc.get("opts") or {}
    dests = Logger._destinations
    saved_registry = dict(_error_extraction.registry); saved_gf = dict(dests._globalFields)
    register_exception_extractor(CodeErr, lambda e: {"code": e.code})
    path = scratch_path()
    fobj = open(path, "wb") if opts.get("file", "b") == "b" else open(path, "w", encoding="utf-8", newline="")
    dest = None
    try:
        if opts.get("to_file"):
            before = list(dests._destinations); to_file(fobj)
            dest = [d for d in dests._destinations if all(d is not b for b in before)][0]
        else:
            dest = FileDestination(file=fobj); add_destinations(dest)
        if run.gf: add_global_fields(**run.gf)
        lanes = sc["lanes"]
        if len(lanes) == 1:
            contextvars.Context().run(lane_main, run, 0, lanes[0])
        else:
            ths = [threading.Thread(target=lane_main, args=(run, i, ops)) for i, ops in enumerate(lanes)]
            for t in ths: t.start()
            for t in ths:
                t.join(TIMEOUT)
                if t.is_alive(): run.problem("crash", "a lane did not finish", part="program")
    finally:
        try:
            if dest is not None: remove_destination(dest)
        except Exception as ex:
            run.problem("crash", "remove_destination raised %s" % (ex,), part="cleanup")
        dests._globalFields.clear(); dests._globalFields.update(saved_gf)
        _error_extraction.registry.clear(); _error_extraction.registry.update(saved_registry)
        fobj.close()
        with open(path, "rb") as fh: data = fh.read()
    if any(s.get("part") == "program" for s, _ in run.problems):
        return run.problems
    raw = data.split(b"\n")
    if raw[-1] != b"": run.problem("lines", "file does not end with a line break")
    raw = raw[:-1]
    decoded = []
    for ln in raw:
        try:
            if ln != ln.strip() or b"\r" in ln: raise ValueError("stray whitespace around the JSON text")
            d = json.loads(ln.decode("utf-8"))
            if not isinstance(d, dict): raise ValueError("not an object")
            decoded.append(d)
        except Exception as ex:
            run.problem("lines", "undecodable line %r: %s" % (ln[:80], ex))
    if len(raw) != run.nmsgs:
        run.problem("lines", "program performed %d messages, file has %d lines" % (run.nmsgs, len(raw)))
    done = set(id(t) for t in run.completed)
    exp_tasks = run.completed + [t for t in run.tasks if id(t) not in done]
    check_forest(run, decoded, exp_tasks, True)
    crc = zlib.crc32(json.dumps(sc, sort_keys=True).encode("utf-8"))
    if not run.problems and len(decoded) > 2 and (SHUFFLE_ALL or crc % 3 == 0 or sc.get("fam") == "odd"):
        shuffled = list(decoded)
        random.Random(crc).shuffle(shuffled)
        n0 = len(run.problems)
        check_forest(run, shuffled, exp_tasks, False)
        for s, _ in run.problems[n0:]: s["order"] = "shuffled"
    return run.problems


# ----------------------------------------------------------------------------------------------------
# scenario enumeration
# ----------------------------------------------------------------------------------------------------
KINDS = [("sa", "w"), ("sa", "c"), ("sa", "r"), ("sa", "m"), ("st", "w"), ("st", "c"), ("T", "w"), ("T", "r"), ("Tt", "w"),
         ("lc", None), ("lcm", None), ("ct", "w"), ("ct", "m"), ("pc", None), ("pc", "i")]
EXITS = [None, "V", "B"]
TEMPLATES = [None, ("c", 0), ("r", 0), ("c", 1), ("r", 1)]


def typed_fields(tt, r=None):
    v = (lambda: rand_value(r)) if r else (lambda: [1, "v"])
    if tt == 0: return {"tag": v(), "x": v()}, {"r": v()}
    if tt == 1: return {}, {}
    return {"n": r.choice([0, 1, -5, 2 ** 40]) if r else 4}, {"ok": r.choice([True, False]) if r else True}


def fixed_action(kind, exit_, ti, body):
    s, c = kind
    op = {"o": "a", "s": s, "b": body}
    if exit_: op["x"] = exit_
    if c: op["c"] = c
    t = ACT_TYPES[ti % len(ACT_TYPES)]
    if s in ("sa", "st", "ct"):
        op["t"] = t; op["f"] = {"x": 1}; op["sf"] = {"y": [2]}
        if t == "" and s != "ct": op["dt"] = True
    elif s in ("T", "Tt"):
        op["tt"] = ti % 3; op["f"], op["sf"] = typed_fields(op["tt"])
    elif s in ("lc", "lcm"):
        op["t"] = t; op["f"] = {"tag": "g", "x": [1]}; op["rv"] = {"k": 1}
    return op


def fixed_msg(i):
    return {"o": "m", "h": ["lm", "al", "MW", "lmk"][i % 4], "t": "m%d" % i, "f": {"i": i}}


def pair_scenarios():
    n = 0
    for pi, pk in enumerate(KINDS):
        for px in EXITS:
            yield {"fam": "single", "lanes": [[fixed_msg(0), fixed_action(pk, px, pi + len(str(px)), [fixed_msg(1)]), fixed_msg(2)]]}
            for ci, ck in enumerate(KINDS):
                for cx in EXITS:
                    for tpl in TEMPLATES:
                        n += 1
                        inner = [fixed_msg(2)]
                        if tpl: inner.append({"o": "re", "h": tpl[0], "up": tpl[1], "b": [fixed_msg(6)]})
                        inner.append(fixed_msg(3))
                        child = fixed_action(ck, cx, n + 1, inner)
                        parent = fixed_action(pk, px, n // 2, [fixed_msg(1), child, fixed_msg(4)])
                        yield {"fam": "pair", "lanes": [[fixed_msg(0), parent, fixed_msg(5)]]}


MSG_HOWS = ["lm", "lm", "lmk", "al", "ML", "MLn", "MW", "MWa", "Mb", "T", "Tw"]
ACT_STARTS = ["sa", "sa", "sa", "st", "T", "Tt", "lc", "lcm", "ct", "pc"]


def gen_msg(r):
    h = r.choice(MSG_HOWS); op = {"o": "m", "h": h}
    if h in ("T", "Tw"):
        op["tt"] = r.randrange(3)
        op["f"] = {"tag": rand_value(r), "x": rand_value(r)} if op["tt"] == 0 else ({} if op["tt"] == 1 else {"s": r.choice(["", "s", "ü☃"])})
    else:
        op["t"] = r.choice(MSG_TYPES); op["f"] = rand_fields(r, MSG_FIELD_NAMES)
    return op


def gen_action(r, depth, maxdepth):
    s = r.choice(ACT_STARTS); op = {"o": "a", "s": s, "b": gen_body(r, depth + 1, maxdepth)}
    if r.random() < 0.35: op["x"] = r.choice(EXC_CODES)
    if s in ("sa", "st", "ct", "T", "Tt"):
        op["c"] = r.choice(["w", "w", "c", "r", "m"])
        if r.random() < 0.15: op["re"] = True
        if r.random() < 0.3: op["old"] = True
    if s in ("sa", "st", "ct"):
        op["t"] = r.choice(ACT_TYPES); op["f"] = rand_fields(r, ACT_FIELD_NAMES); op["sf"] = rand_fields(r, ACT_FIELD_NAMES)
        if s == "ct":
            if r.random() < 0.3: op["dt"] = True
            if r.random() < 0.5: op["ts"] = True
        elif op["t"] == "" and r.random() < 0.6: op["dt"] = True
    elif s in ("T", "Tt"):
        op["tt"] = r.randrange(3); op["f"], op["sf"] = typed_fields(op["tt"], r)
    elif s in ("lc", "lcm"):
        op["t"] = r.choice(ACT_TYPES); op["f"] = {"tag": rand_value(r), "x": rand_value(r)}; op["rv"] = rand_value(r)
        op["ia"] = r.choice([None, None, ["x"], ["tag"], [], ["x", "tag"]])
        if r.random() < 0.3: op["ir"] = False
        if r.random() < 0.3: op["dt"] = True
        if r.random() < 0.4: op["kw"] = True
    if s in ("ct", "pc") and r.random() < 0.4: op["pre"] = gen_body(r, maxdepth, maxdepth) or [gen_msg(r)]
    if s == "pc" and r.random() < 0.3: op["twice"] = True
    if s == "pc" and r.random() < 0.3: op["c"] = "i"
    return op


def gen_body(r, depth, maxdepth, top=False):
    ops = []
    for _ in range(r.randint(1, 4) if top else r.choice([0, 1, 1, 2, 2, 3, 4])):
        k = r.random()
        if k < 0.4 or (depth >= maxdepth and k < 0.8): ops.append(gen_msg(r))
        elif k < 0.8: ops.append(gen_action(r, depth, maxdepth))
        elif k < 0.82: ops.append({"o": "ooo"})
        elif k < 0.88:
            op = {"o": "tb", "x": r.choice(EXC_CODES)}
            if r.random() < 0.3: op["ei"] = True
            ops.append(op)
        else:
            op = {"o": "re", "h": r.choice(["c", "r", "ra"]), "up": r.choice([0, 0, 1, 2]), "b": gen_body(r, max(depth + 1, maxdepth - 1), maxdepth)}
            if r.random() < 0.25: op["x"] = r.choice(["V", "B"])
            ops.append(op)
    return ops


def random_scenarios(seed, n, maxdepth):
    r = random.Random("c01-%d" % seed)
    for _ in range(n):
        nl = r.choice([1, 1, 1, 1, 2, 3])
        opts = {"file": r.choice(["b", "b", "t"])}
        if r.random() < 0.1: opts["to_file"] = True
        if r.random() < 0.25: opts["g"] = True
        if nl > 1: opts["sched"] = r.randrange(1000)
        yield {"fam": "random", "opts": opts, "lanes": [gen_body(r, 0, r.randint(1, maxdepth), top=True) for _ in range(nl)]}


def shape_scenarios():
    """wide bodies (positions >= 10, where numeric and textual order differ) and deep chains"""
    for n in (8, 9, 10, 11, 23):
        for ki, kind in enumerate([("sa", "w"), ("st", "c"), ("lc", None), ("sa", "m"), ("ct", "w")]):
            kids = []
            for i in range(n):
                kids.append(fixed_msg(i) if i % 3 else fixed_action(KINDS[(i + ki) % len(KINDS)], EXITS[i % 3], i, [fixed_msg(i)]))
            inner = fixed_action(kind, None, ki + 1, kids)
            yield {"fam": "wide", "lanes": [[fixed_action(("sa", "w"), "V", 1, [fixed_msg(0), inner, fixed_msg(1)])]]}
            yield {"fam": "wide", "lanes": [[inner] + [fixed_msg(i) for i in range(n)]]}
    for d in (6, 12, 30):
        for off in range(len(KINDS)):
            body = [fixed_msg(d)]
            for i in range(d):
                k = KINDS[(i + off) % len(KINDS)]
                body = [fixed_msg(i), fixed_action(k, EXITS[(i + off) % 3], i + off, body), fixed_msg(i + 1)]
            yield {"fam": "deep", "lanes": [body]}


def odd_scenarios():
    A = lambda body: {"o": "a", "s": "sa", "c": "w", "t": "P", "b": body}
    for name in ("ooo", "late", "msg_at", "typed_missing", "ser_raises"):
        yield {"fam": "odd", "odd": name, "lanes": [[{"o": name}]]}
        yield {"fam": "odd", "odd": name, "lanes": [[A([fixed_msg(1), {"o": name}, fixed_msg(2)])]]}
    yield {"fam": "odd", "odd": "unused_id", "lanes": [[A([fixed_msg(1), {"o": "unused_id"}, fixed_msg(2)])]]}
    yield {"fam": "odd", "odd": "unused_id", "lanes": [[A([fixed_msg(1), {"o": "unused_id", "pc": True}, fixed_msg(2)])]]}


# odd-family probes that are genuine violations on the unchanged tree: name -> clauses it is known to break
_ALL = ("lines", "complete", "task_count", "level", "shape", "status", "fields", "type")
KNOWN_ODD = {"late": ("complete", "task_count"), "msg_at": ("crash",), "unused_id": ("complete",),
             "typed_missing": _ALL, "ser_raises": _ALL}


def classify(sc, sig):
    name = sc.get("odd")
    if name in KNOWN_ODD and sig.get("clause") in KNOWN_ODD[name]:
        sig = {"known": name}
    return sig


def main():
    quick = args.tier != "thorough"
    maxdepth = 4 if quick else 6
    NPAIRS_QUICK = 1000; NRANDOM = 900 if quick else 20000
    if args.scenario:
        scs = [json.loads(args.scenario)]
    else:
        pairs = list(pair_scenarios())
        singles = [s for s in pairs if s["fam"] == "single"]; pairs = [s for s in pairs if s["fam"] == "pair"]
        if quick:
            random.Random(args.seed).shuffle(pairs); pairs = pairs[:NPAIRS_QUICK]
        scs = list(odd_scenarios()) + singles + list(shape_scenarios()) + pairs + list(random_scenarios(args.seed, NRANDOM, maxdepth))
    fails = {}; known = {}; cases = 0; seen = set(); nfail = 0
    dests = Logger._destinations
    saved = (list(dests._destinations), dests._any_added)
    try:
        for sc in scs:
            cases += 1; seen.add(json.dumps(sc, sort_keys=True))
            try:
                problems = run_scenario(sc)
            except BaseException as e:
                problems = [({"clause": "crash", "part": "driver"}, "driver/scenario raised %s: %s" % (type(e).__name__, str(e)[:200]))]
            if not problems: continue
            by = {}
            for sig, text in problems:
                sig = classify(sc, sig)
                by.setdefault(json.dumps(sig, sort_keys=True), (sig, []))[1].append(text)
            if any("known" not in s for s, _ in by.values()): nfail += 1
            for k, (sig, texts) in by.items():
                book = known if "known" in sig else fails
                if k not in book and len(book) < (12 if book is known else 5):
                    book[k] = {"signature": sig, "scenario": sc, "observed": texts[:3]}
    finally:
        dests._destinations[:] = saved[0]; dests._any_added = saved[1]
        for p in _SCRATCH:
            try: os.unlink(p)
            except OSError: pass
    if nfail: err("scenarios with unexpected failures: %d" % nfail)
    print(json.dumps({
        "cases": cases, "distinct": len(seen), "failures": list(fails.values())[:5], "known": list(known.values()),
        "bound": "programs of <= 3 lanes (threads, seeded hand-over after every op), nesting depth <= %d, <= 4 ops per body; "
                 "exhaustive parent x child pairs over 14 start/scope kinds x 3 exits x 5 re-entry templates%s; "
                 "wide bodies up to 23 children and chains up to depth 30; %d seeded random programs; field values: JSON values of depth <= 3 over 21 leaves incl. 64-bit int limits, "
                 "extreme floats, control/astral characters; 12 exception classes" % (
                     maxdepth, " (%d sampled)" % NPAIRS_QUICK if quick else "", NRANDOM),
        "rule": "scenario = JSON program: lanes of ops m(essage: log_message/Action.log/Message.log/Message.write/bind/"
                "MessageType.log/write, typed or not), a(ction: start_action/start_task/ActionType/as_task/log_call/"
                "continue_task/preserve_context-thread x with/context+finish/run+finish/explicit x success or one of 12 "
                "exception classes x add_success_fields x double finish), re (re-enter an enclosing action via context()/run()), "
                "tb (write_traceback); options: binary/text file, to_file, global fields, lane schedule; written through "
                "FileDestination to a temp file, decoded with stdlib json, parsed with Parser.parse_stream in file order and in a "
                "seeded shuffled order; distinct = distinct scenario JSON; every scenario logs >= 1 message",
    }))


main()
