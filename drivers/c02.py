"""Native driver for C02 (bounded; real code): every message is uniquely and contiguously placed by
task_uuid/task_level, as seen by a destination that accepts everything, for logging programs built from
all public ways of starting/finishing actions and logging messages, under deterministic interleavings
of threads / asyncio tasks / eliot-friendly generators, while other registered destinations fail.

Prints one JSON line: {cases, distinct, failures:[{signature, scenario, observed}], known:[...], bound, rule}.

KNOWN_ON_UNCHANGED_TREE  (genuine violations of the literal property statement on the unchanged tree;
they are still detected, but reported under the top-level key "known" instead of "failures"):

  K1 {"clause":"end_at_n","known":"F1-finish-inside-own-context"}
     a = start_action(action_type="a")
     with a.context():            # or a.run(...), or inside `with a:` itself
         a.finish()               # public finish() while the action is the current context
     + any other destination raising on that end message
     => good destination sees [1] started, [2] succeeded, [3] eliot:destination_failure  (report AFTER the end)

  K2 {"clause":"shape","known":"global-field-overrides-reserved-key"}
     add_global_fields(timestamp="zz"); log_message(message_type="m")
     => Destinations.send applies global fields last, every message carries timestamp "zz" (not a float).
        (the same happens for task_uuid / task_level, which then break uniqueness; only timestamp is enumerated)

  K3 {"clause":"end_at_n","known":"program-logs-into-finished-action"}
     with start_action(action_type="a") as a: pass
     a.log(message_type="late")
     => [1] started, [2] succeeded, [3] late : nothing stops a program from logging into a finished action.

  K4 {"clause":"order","known":"field-serializer-logs"}
     A (non failing) Field serializer that itself logs, e.g. ActionType("t",[Field("x", ser)],[]) with
     def ser(v): log_message(message_type="from_serializer"); return v
     with start_action(action_type="p"): with T(x=1): pass
     => the level of the message being serialized is allocated first ([2,1]) but the serializer's message
        ([3]) reaches the destinations before it: emission order != level order inside "p".

How it works.  A scenario is JSON: {"mode": sync|thread|asyncio|gen, "sched": seed of the scheduler, "preempt": p,
"dests": [failing destinations: {"t":"kind","a":[start|end|msg|tb|report]} | {"t":"mask","a":bits,"n":period} |
{"t":"file"} (a real FileDestination, fails on unencodable values), "p": before|after the observing destination],
"globals": global fields, "prog": [ops]}.  Ops: ["msg"|"alog"|"mwrite"|"mlog"|"typed"|"plog", fields], ["tb"],
["act", {"k": construct, "x": exit, "sf": start fields, "uf": success fields}, body], ["spawn", {"m": bare|preserve|
taskid, "join": bool}, body].  The interpreter is one `async def` that is driven (a) straight through, (b) on real
threads that pass a baton at operation boundaries and at seeded `line` trace events inside eliot's own modules,
(c) as real asyncio tasks released one step at a time by a controller, (d) through
eliot_friendly_generator_function.  Exactly one worker runs at any time, the choice of the next one comes from the
seeded scheduler, so every run is reproducible.  The oracle only looks at what the always-accepting destination
received, plus the driver's own record (kept in plain Python lists, not taken from eliot) of which action each
worker was inside when the message arrived.
"""
import argparse, asyncio, contextvars, io, itertools, json, random, sys, threading, time, types, warnings

ap = argparse.ArgumentParser(); ap.add_argument("--tier", default="quick"); ap.add_argument("--seed", type=int, default=0)
ap.add_argument("--scenario"); args = ap.parse_args()
warnings.simplefilter("ignore")

import eliot
from eliot import (start_action, start_task, startAction, current_action, log_message, log_call, add_destinations,
                   remove_destination, preserve_context, write_traceback, Message, MessageType, ActionType, Field,
                   FileDestination, add_global_fields)
from eliot._action import Action
from eliot._output import Logger
from eliot._errors import _error_extraction
from eliot._generators import eliot_friendly_generator_function
import eliot._action, eliot._output, eliot._message, eliot._traceback, eliot._errors, eliot._validation, eliot._generators

ELIOT_FILES = {m.__file__ for m in (eliot._action, eliot._output, eliot._message, eliot._traceback, eliot._errors,
                                     eliot._validation, eliot._generators)}
TIMEOUT = 60.0
REPORT = "eliot:destination_failure"


def err(*a):
    print(*a, file=sys.stderr)


# ----------------------------------------------------------------------------------------------------
# vocabulary of the logging programs
# ----------------------------------------------------------------------------------------------------
class Unenc(object):
    """Not JSON encodable, also not by eliot's json_default."""
    def __repr__(self): return "<Unenc>"


class ExtErr(Exception): pass          # has an extractor returning reserved keys
class BadExtErr(Exception): pass       # has an extractor that raises
class BaseErr(BaseException): pass     # not an Exception
CAUGHT = (ValueError, OSError, ExtErr, BadExtErr, BaseErr)


def make_exc(code):
    return {"ok": None, "val": ValueError("boom"), "os": OSError(5, "io"), "ext": ExtErr("e"), "badext": BadExtErr("b"),
            "base": BaseErr("x")}[code]


def _good_extractor(e):
    return {"task_level": [9, 9], "timestamp": "never", "task_uuid": "not-a-uuid", "action_status": "started",
            "action_type": "zz", "code": 3}


def _bad_extractor(e):
    return {"v": 1 // 0}


VALUES = {"i": 5, "s": "zz", "l1": [1], "l21": [2, 1], "n": None, "f": 1.5, "b": True, "e": []}


def mkval(code):
    if code == "u":
        return Unenc()
    v = VALUES[code]
    return list(v) if isinstance(v, list) else v


def build(spec):
    return {k: mkval(c) for k, c in (spec or [])}


def _ser(v):
    return "ser:%r" % (v,)


def _ser_logs(v):
    log_message(message_type="from_serializer")
    return v


def _ident(v):
    return v


TYPED_ACT = ActionType("A:typed", [Field("tag", _ident), Field("x", _ser)], [Field("r", _ser)], "typed action")
TYPED_MSG = MessageType("M:typed", [Field("tag", _ident), Field("x", _ser)], "typed message")
SERLOG_ACT = ActionType("A:serlog", [Field("tag", _ident), Field("x", _ser_logs)], [], "serializer logs")
SERLOG_MSG = MessageType("M:serlog", [Field("tag", _ident), Field("x", _ser_logs)], "serializer logs")

ACT_KINDS = ["with", "task_with", "typed_with", "typed_task", "log_call", "ctx_then_finish", "ctx_finish_inside",
             "run_then_finish", "run_finish_inside", "manual", "with_then_finish", "with_finish_inside", "continue_same"]
F1_KINDS = ("ctx_finish_inside", "run_finish_inside", "with_finish_inside")
EXITS = ["ok", "val", "os", "ext", "badext", "base"]
MSG_OPS = ["msg", "alog", "mwrite", "mlog", "typed", "tb", "plog"]
RESERVED = ["timestamp", "task_level", "task_uuid", "action_status", "action_type"]


def msg_kind(m):
    st = m.get("action_status")
    if st == "started":
        return "start"
    if st in ("succeeded", "failed"):
        return "end"
    mt = m.get("message_type")
    if mt == REPORT:
        return "report"
    if mt == "eliot:traceback":
        return "tb"
    return "msg"


# ----------------------------------------------------------------------------------------------------
# failing destinations
# ----------------------------------------------------------------------------------------------------
class DestA(Exception): pass


EXC_CYCLE = [ValueError, KeyError, DestA, RuntimeError, ZeroDivisionError, UnicodeError]


class BadDest(object):
    def __init__(self, spec):
        self.spec = spec; self.calls = 0; self.raised = 0
        self.file = None
        if spec["t"] == "file":
            self.file = FileDestination(file=io.StringIO())

    def __call__(self, m):
        i = self.calls; self.calls += 1
        t = self.spec["t"]
        if t == "file":
            return self.file(m)
        if t == "kind":
            bad = msg_kind(m) in self.spec["a"]
        else:  # mask
            bad = (self.spec["a"] >> (i % self.spec["n"])) & 1
        if bad:
            self.raised += 1
            raise EXC_CYCLE[self.raised % len(EXC_CYCLE)]("destination failed on call %d" % i)


# ----------------------------------------------------------------------------------------------------
# cooperative deterministic scheduling of workers (threads / asyncio tasks / generators / inline)
# ----------------------------------------------------------------------------------------------------
class SchedTimeout(Exception): pass


class Worker(object):
    def __init__(self, wid, stack):
        self.id = wid; self.stack = list(stack); self.done = False; self.blocked = None; self.noswitch = 0
        self.handles = []; self.gate = None; self.gen = None; self.spec = None; self.initial_park = False; self.thread = None; self.started = False


def top(w):
    return w.stack[-1] if w.stack else None


def drive(coro):
    try:
        coro.send(None)
    except StopIteration as e:
        return e.value
    coro.close()
    raise RuntimeError("driver bug: unexpected suspension in a synchronous region")


@types.coroutine
def _yield_point():
    yield None


class Runner(object):
    def __init__(self, sc):
        self.sc = sc
        self.mode = sc.get("mode", "sync")
        self.rng = random.Random(sc.get("sched", 0))
        self.preempt = sc.get("preempt", 0.0)
        self.obs = []; self.crashes = []; self.workers = []; self.cur = None
        self.tagc = 0; self.tag_info = {}; self.handoffs = set(); self.deferred = []
        self.late_tags = set(); self.last_finished = None
        self.cond = threading.Condition(); self.turn = None
        self.loop = None; self.parked = None
        self.good_dest = self.good

    # -- the always-accepting destination ------------------------------------------------------------
    def good(self, m):
        w = self.cur
        lv = m.get("task_level") if isinstance(m, dict) else None
        self.obs.append((m, dict(m) if isinstance(m, dict) else m, list(lv) if isinstance(lv, list) else lv,
                         top(w) if w is not None else None))

    def new_tag(self, **info):
        self.tagc += 1
        self.tag_info[self.tagc] = info
        return self.tagc

    def new_worker(self, stack):
        w = Worker(len(self.workers), stack); self.workers.append(w); return w

    # -- scheduling ---------------------------------------------------------------------------------
    def pick(self):
        c = [w for w in self.workers if w.started and not w.done and not (w.blocked is not None and not w.blocked.done)]
        return self.rng.choice(c) if c else None

    async def sw(self, w, force=False):
        if w.noswitch and not force:
            return
        m = self.mode
        if m == "sync":
            return
        if m == "thread":
            self.t_switch(w)
        elif m == "asyncio":
            w.gate = self.loop.create_future()
            self.parked.set_result(None)
            await w.gate
        else:
            await _yield_point()

    # threads
    def t_wait(self, w):
        while self.turn is not w:
            if not self.cond.wait(TIMEOUT):
                raise SchedTimeout("worker %d never got its turn" % w.id)
        self.cur = w

    def t_switch(self, w):
        nxt = self.pick()
        if nxt is None or nxt is w:
            if nxt is None:
                raise RuntimeError("driver bug: nobody runnable")
            return
        with self.cond:
            self.turn = nxt; self.cur = nxt
            self.cond.notify_all()
            self.t_wait(w)

    def t_main(self, w):
        try:
            with self.cond:
                self.t_wait(w)
            if self.preempt:
                sys.settrace(self.tracer)
            try:
                drive(self.worker_coro(w))
            finally:
                sys.settrace(None)
        except BaseException as e:
            self.crashes.append("worker %d: %s: %s" % (w.id, type(e).__name__, e))
        finally:
            with self.cond:
                w.done = True
                nxt = self.pick()
                self.turn = nxt; self.cur = nxt
                self.cond.notify_all()

    def tracer(self, frame, event, arg):
        if frame.f_code.co_filename in ELIOT_FILES:
            return self.local_tracer
        return None

    def local_tracer(self, frame, event, arg):
        if event == "line" and self.rng.random() < self.preempt:
            w = self.cur
            if w is not None and w.thread is threading.current_thread():
                self.t_switch(w)
        return self.local_tracer

    def t_spawn(self, w):
        w.started = True
        w.thread = threading.Thread(target=self.t_main, args=(w,), daemon=True)
        w.thread.start()

    def run_threads(self, w0):
        self.t_spawn(w0)
        with self.cond:
            self.turn = w0; self.cur = w0
            self.cond.notify_all()
            deadline = time.time() + TIMEOUT
            while not all(w.done for w in self.workers if w.started):
                if not self.cond.wait(1.0) and time.time() > deadline:
                    raise SchedTimeout("threads did not finish")
        for w in self.workers:
            if w.thread is not None:
                w.thread.join(TIMEOUT)

    # asyncio
    async def a_worker(self, w, gate):
        try:
            await gate
            await self.worker_coro(w)
        finally:
            w.done = True
            self.parked.set_result(None)

    def a_spawn(self, w, inherit):
        w.started = True
        w.gate = self.loop.create_future()
        if inherit:
            w.task = self.loop.create_task(self.a_worker(w, w.gate))
        else:
            w.task = self.loop.create_task(self.a_worker(w, w.gate), context=contextvars.Context())

    async def a_main(self, w0):
        self.loop = asyncio.get_running_loop()
        self.a_spawn(w0, False)
        while True:
            nxt = self.pick()
            if nxt is None:
                break
            self.cur = nxt
            self.parked = self.loop.create_future()
            g = nxt.gate; nxt.gate = None
            g.set_result(None)
            await asyncio.wait_for(self.parked, TIMEOUT)
        self.cur = None
        for w in self.workers:
            await w.task

    # eliot-friendly generators
    def g_make(self, w):
        runner = self

        def gen_original(w):
            return (yield from runner.worker_coro(w).__await__())
        if getattr(self, "_wrapped", None) is None:
            self._wrapped = eliot_friendly_generator_function(gen_original)
            self._wrapped.debug = bool(self.sc.get("gdebug"))   # logs a "yielded" message at every suspension
        w.gen = self._wrapped(w)
        w.started = True

    def g_main(self, w0):
        self.g_make(w0)
        while True:
            nxt = self.pick()
            if nxt is None:
                break
            self.cur = nxt
            try:
                next(nxt.gen)
            except StopIteration:
                nxt.done = True
        self.cur = None

    # -- workers ------------------------------------------------------------------------------------
    async def worker_coro(self, w):
        try:
            if w.initial_park:
                await self.sw(w, force=True)
            await self.worker_entry(w)
        except SchedTimeout:
            raise
        except BaseException as e:
            import traceback
            self.crashes.append("worker %d: %s: %s @ %s" % (w.id, type(e).__name__, e,
                                                           traceback.format_exc().strip().splitlines()[-3:-1]))

    async def worker_entry(self, w):
        spec = w.spec
        m = spec["m"]
        if m == "bare":
            await self.run_ops(w, spec["body"])
        elif m == "preserve":
            spec["fn"]()
        else:
            t = spec["tag"]
            tid = spec["tid"]
            a = Action.continue_task(task_id=tid, action_type="A:remote", tag=t, **build(spec.get("sf")))
            self.tag_info[t]["started"] = True
            with a:
                w.stack.append(("tag", t))
                try:
                    await self.run_ops(w, spec["body"])
                finally:
                    w.stack.pop()

    async def join(self, w, child):
        while not child.done:
            w.blocked = child
            await self.sw(w, force=True)
        w.blocked = None

    async def do_spawn(self, w, opts, body, spawned):
        m = opts.get("m", "bare"); join = bool(opts.get("join"))
        mode = self.mode
        act = current_action()
        if m in ("preserve", "taskid") and act is None:
            m = "bare"
        if w.noswitch and mode in ("asyncio", "gen"):
            join = False
        inherit = join if mode != "thread" else False
        child = self.new_worker([top(w)] if (inherit and w.stack) else [])
        child.spec = spec = {"m": m, "body": body}
        if m == "preserve":
            desc = ("remote", top(w), {})
            runner = self

            def f():
                child.stack.append(desc)
                sync = runner.mode in ("asyncio", "gen")
                child.noswitch += sync
                try:
                    drive(runner.run_ops(child, body))
                finally:
                    child.noswitch -= sync
                    child.stack.pop()
            spec["fn"] = preserve_context(f)
        elif m == "taskid":
            tid = act.serialize_task_id()
            u, lv = tid.decode("ascii").split("@")
            lv = tuple(int(x) for x in lv.split("/") if x)
            t = self.new_tag(construct="remote", parent=top(w), handoff=(u, lv))
            self.handoffs.add((u, lv))
            spec["tag"] = t
            spec["tid"] = tid.decode("ascii") if opts.get("str") else tid
            spec["sf"] = opts.get("sf")
        if mode == "sync":
            if join:
                prev = self.cur; self.cur = child
                try:
                    await self.worker_coro(child)
                finally:
                    child.done = True; self.cur = prev
            else:
                self.deferred.append(child)
            return
        if mode == "thread":
            self.t_spawn(child)
        elif mode == "asyncio":
            self.a_spawn(child, inherit)
        else:
            child.initial_park = True
            self.g_make(child)
            if inherit:
                prev = self.cur; self.cur = child
                try:
                    next(child.gen)   # starts the generator in (a copy of) the spawner's context; it parks at once
                finally:
                    self.cur = prev
            else:
                child.initial_park = False
        if join:
            spawned.append(child)

    # -- the interpreter ----------------------------------------------------------------------------
    async def run_ops(self, w, ops):
        spawned = []
        for op in ops:
            await self.sw(w)
            code = op[0]
            if code == "act":
                await self.do_act(w, op[1], op[2])
            elif code == "spawn":
                await self.do_spawn(w, op[1], op[2], spawned)
            elif code == "sw":
                await self.sw(w)
            elif code == "late":
                a, t = self.last_finished
                self.late_tags.add(t)
                a.log(message_type="late", tag=self.new_tag(construct="late", parent=("tag", t)))
            else:
                self.do_msg(w, code, op[1] if len(op) > 1 else [])
        for child in spawned:
            await self.join(w, child)

    def do_msg(self, w, code, fspec):
        f = build(fspec)
        if code == "plog":
            # log into the action enclosing the current one, through its handle
            if len(w.handles) < 2 or w.handles[-2][1] is None:
                code = "msg"
            else:
                d, a = w.handles[-2]
                a.log(message_type="M", tag=self.new_tag(construct="plog", parent=d), **f)
                return
        t = self.new_tag(construct=code, parent=top(w))
        if code == "msg":
            log_message(message_type="M", tag=t, **f)
        elif code == "alog":
            a = current_action()
            if a is None:
                log_message(message_type="M", tag=t, **f)
            else:
                a.log(message_type="M", tag=t, **f)
        elif code == "mwrite":
            f.update(message_type="M", tag=t)
            a = current_action()
            if a is not None and t % 2:
                Message(f).write(action=a)
            else:
                Message(f).write()
        elif code == "mlog":
            Message.log(message_type="M", tag=t, **f)
        elif code == "typed":
            f.setdefault("x", 1)
            TYPED_MSG.log(tag=t, **f)
        elif code == "serlog":
            SERLOG_MSG.log(tag=t, x=1)
        elif code == "tb":
            try:
                raise ValueError("for traceback")
            except ValueError:
                write_traceback()
        else:
            raise RuntimeError("driver bug: unknown op %r" % (code,))

    async def do_act(self, w, opts, body):
        kind = opts["k"]; exc = make_exc(opts.get("x", "ok"))
        sf = build(opts.get("sf")); ufs = opts.get("uf") or []
        if kind == "continue_same" and current_action() is None:
            kind = "with"
        fresh = kind in ("task_with", "typed_task")
        t = self.new_tag(construct=kind, parent=None if fresh else top(w), fresh=fresh)
        info = self.tag_info[t]
        sync_region = self.mode in ("asyncio", "gen")

        async def body_in_context(a, finish_inside=False):
            # runs while `a` is the current eliot action; the driver's own idea of the context is w.stack
            w.stack.append(("tag", t)); w.handles.append((("tag", t), current_action()))
            try:
                try:
                    await self.run_ops(w, body)
                    if exc is not None:
                        raise exc
                    if a is not None and ufs:
                        a.add_success_fields(**build(ufs))
                except CAUGHT as e:
                    if not finish_inside:
                        raise
                    a.finish(e)
                else:
                    if finish_inside:
                        a.finish()
            finally:
                w.stack.pop(); w.handles.pop()

        def sync_body(a, finish_inside=False):
            w.noswitch += sync_region
            try:
                return drive(body_in_context(a, finish_inside))
            finally:
                w.noswitch -= sync_region

        if kind in ("with", "task_with", "typed_with", "typed_task", "with_then_finish", "with_finish_inside",
                    "continue_same", "serlog_with"):
            if kind == "task_with":
                a = start_task(action_type="A:task", tag=t, **sf)
            elif kind == "typed_with":
                sf.setdefault("x", 1)
                a = TYPED_ACT(tag=t, **sf)
                ufs = [u for u in ufs if u[0] != "r"] + [["r", "i"]]
            elif kind == "typed_task":
                sf.setdefault("x", 1)
                a = TYPED_ACT.as_task(tag=t, **sf)
                ufs = [u for u in ufs if u[0] != "r"] + [["r", "i"]]
            elif kind == "serlog_with":
                a = SERLOG_ACT(tag=t, x=1)
            elif kind == "continue_same":
                a = Action.continue_task(task_id=current_action().serialize_task_id(), action_type="A:cont", tag=t, **sf)
            elif t % 2:
                a = start_action(action_type="A:" + kind, tag=t, **sf)
            else:
                a = startAction(None, "A:" + kind, tag=t, **sf)
            info["started"] = True
            try:
                with a:
                    await body_in_context(a, finish_inside=(kind == "with_finish_inside"))
            except CAUGHT:
                pass
            if kind == "with_then_finish":
                a.finish()
        elif kind == "log_call":
            names = ["tag"] + list(sf)
            ns = {"_body": lambda: (sync_body(None), mkval(ufs[0][1]) if ufs else 1)[1]}
            exec("def f(%s):\n    return _body()" % ", ".join(names), ns)
            f = log_call(action_type="A:log_call")(ns["f"])
            info["started"] = True   # (log_call starts the action itself)
            try:
                f(t, **sf) if t % 2 else f(*([t] + list(sf.values())))
            except CAUGHT:
                pass
            a = None
        elif kind in ("ctx_then_finish", "ctx_finish_inside"):
            a = start_action(action_type="A:" + kind, tag=t, **sf)
            info["started"] = True
            caught = None
            try:
                with a.context():
                    await body_in_context(a, finish_inside=(kind == "ctx_finish_inside"))
            except CAUGHT as e:
                caught = e
            if kind == "ctx_then_finish":
                a.finish(caught)
                if t % 3 == 0:
                    a.finish()   # second finish() is a no-op
        elif kind in ("run_then_finish", "run_finish_inside"):
            a = start_action(action_type="A:" + kind, tag=t, **sf)
            info["started"] = True
            caught = None
            try:
                a.run(sync_body, a, kind == "run_finish_inside")
            except CAUGHT as e:
                caught = e
            if kind == "run_then_finish":
                a.finish(caught)
        elif kind == "manual":
            a = start_action(action_type="A:manual", tag=t, **sf)
            info["started"] = True
            await self.run_ops(w, body)      # NOT in a's context: these belong to the enclosing action
            if exc is None and ufs:
                a.add_success_fields(**build(ufs))
            a.finish(exc)
        else:
            raise RuntimeError("driver bug: unknown action kind %r" % (kind,))
        if a is not None:
            self.last_finished = (a, t)

    # -- run one scenario ---------------------------------------------------------------------------
    def run(self):
        sc = self.sc
        dests_before = [BadDest(d) for d in sc.get("dests", []) if d.get("p") == "before"]
        dests_after = [BadDest(d) for d in sc.get("dests", []) if d.get("p") != "before"]
        all_dests = dests_before + [self.good_dest] + dests_after
        D = Logger._destinations
        saved_registry = dict(_error_extraction.registry)
        saved_globals = dict(D._globalFields)
        added = []
        try:
            _error_extraction.registry[ExtErr] = _good_extractor
            _error_extraction.registry[BadExtErr] = _bad_extractor
            for d in all_dests:
                add_destinations(d); added.append(d)
            if sc.get("globals"):
                add_global_fields(**build(sc["globals"]))
            w0 = self.new_worker([])
            w0.spec = {"m": "bare", "body": sc["prog"]}
            try:
                if self.mode == "sync":
                    self.cur = w0
                    drive(self.worker_coro(w0)); w0.done = True
                    while self.deferred:
                        c = self.deferred.pop(0)
                        self.cur = c
                        drive(self.worker_coro(c)); c.done = True
                    self.cur = None
                elif self.mode == "thread":
                    self.run_threads(w0)
                elif self.mode == "asyncio":
                    loop = asyncio.new_event_loop()
                    try:
                        loop.run_until_complete(self.a_main(w0))
                    finally:
                        loop.close()
                else:
                    self.g_main(w0)
            except (SchedTimeout, asyncio.TimeoutError) as e:
                self.crashes.append("scheduler timeout: %s" % (e,))
            if current_action() is not None:
                self.crashes.append("the driver's main thread is left inside an action after the run")
        finally:
            for d in added:
                try:
                    remove_destination(d)
                except ValueError:
                    pass
            _error_extraction.registry.clear(); _error_extraction.registry.update(saved_registry)
            D._globalFields.clear(); D._globalFields.update(saved_globals)
        return self.analyze()

    # -- the oracle -----------------------------------------------------------------------------------
    def analyze(self):
        V = []   # (signature dict, text)

        def bad(sig, text):
            V.append((sig, text))
        for c in self.crashes:
            bad({"clause": "crash", "what": c.split(":")[1].strip() if c.count(":") > 1 else "driver"}, c)
        globals_ = build(self.sc.get("globals"))
        ok_msgs = []
        if DEBUG:
            DIGEST.update(repr([(lv, msg_kind(snap) if isinstance(snap, dict) else None) for _, snap, lv, _ in self.obs]).encode())
        # clause 1: shape of every message
        for idx, (ref, snap, lv, exp) in enumerate(self.obs):
            if not isinstance(snap, dict):
                bad({"clause": "shape", "field": "message"}, "message #%d is not a dict: %r" % (idx, snap)); continue
            problems = []
            u = snap.get("task_uuid")
            if type(u) is not str or not u:
                problems.append(("task_uuid", u))
            if type(lv) is not list or not lv or not all(type(i) is int and i >= 1 for i in lv):
                problems.append(("task_level", lv))
            ts = snap.get("timestamp")
            if type(ts) is not float:
                problems.append(("timestamp", ts))
            if not (type(snap.get("message_type")) is str or
                    (type(snap.get("action_type")) is str and snap.get("action_status") in ("started", "succeeded", "failed"))):
                problems.append(("message_type/action_type+action_status", (snap.get("message_type"), snap.get("action_type"), snap.get("action_status"))))
            for field, val in problems:
                sig = {"clause": "shape", "field": field}
                if field in globals_ and val == globals_[field]:
                    sig["known"] = "global-field-overrides-reserved-key"
                bad(sig, "message #%d %s: bad %s %r" % (idx, self.describe(snap, lv), field, val))
            if ref != snap or (isinstance(ref.get("task_level"), list) and ref.get("task_level") != lv):
                bad({"clause": "mutated_after_delivery"}, "message #%d %s was modified after it was delivered: now %r" % (idx, self.describe(snap, lv), ref))
            if not any(f in ("task_uuid", "task_level") for f, _ in problems):
                ok_msgs.append((idx, snap, u, tuple(lv), exp))
        # clause 2: run-wide uniqueness
        seen = {}
        for idx, snap, u, lv, exp in ok_msgs:
            if (u, lv) in seen:
                bad({"clause": "unique"}, "messages #%d and #%d share (%s.., %s): %s / %s" % (
                    seen[(u, lv)], idx, u[:8], list(lv), self.describe(self.obs[seen[(u, lv)]][1], lv), self.describe(snap, lv)))
            else:
                seen[(u, lv)] = idx
        for u in {u for _, _, u, _, _ in ok_msgs}:
            if u in SEEN_UUIDS:
                bad({"clause": "unique", "what": "task_uuid reused across runs"}, "task_uuid %r was already used by an earlier scenario" % (u,))
        # clause 3: each child's level extends its parent's: placement against the driver's own record of the context
        identity = {}; rev = {}; uu_seen = set(); exempt = set(self.handoffs)

        def resolve(d):
            if d is None:
                return None
            if d[0] == "tag":
                return identity.get(d[1])
            return d[2].get("id")

        def place(d, u, container, what, idx, snap, lv, relaxed=False):
            # relaxed (eliot's own reports): either in the context the driver recorded, or in a fresh task of its own
            if container is None:
                container = ("?",)
            if relaxed:
                if container == () and lv == (1,) and u not in uu_seen:
                    return
                if d is not None and d[0] == "remote" and resolve(d) is None:
                    return   # nothing tagged seen yet inside that preserve_context() child: cannot tell, do not learn from a report
            sig = {"clause": "placement", "what": what, "mode": self.mode}
            where = "message #%d %s" % (idx, self.describe(snap, lv))
            if d is None:
                if container != () or lv[-1] != 1:
                    bad(sig, "%s was logged outside any action but is not the first message of its own task" % where)
                elif u in uu_seen:
                    bad(sig, "%s was logged outside any action but reuses task_uuid of earlier messages" % where)
                return
            rid = resolve(d)
            if rid is not None:
                if (u, container) != rid:
                    bad(sig, "%s: expected inside action %s@%s (driver's record of the context: %s), found inside %s@%s" % (
                        where, rid[0][:8], list(rid[1]), self.describe_desc(d), u[:8], list(container)))
                return
            if d[0] == "tag":
                bad(sig, "%s: the enclosing action (%s) never showed a usable start message" % (where, self.describe_desc(d)))
                return
            # first message seen inside a preserve_context()-continued action: learn it and check against its origin
            if not learn(d, u, container):
                bad(sig, "%s: expected inside a %s, found inside %s@%s" % (where, self.describe_desc(d), u[:8], list(container)))

        def learn(d, u, container):
            d[2]["id"] = (u, container)
            p = d[1]
            if not container or p is None:
                return False
            pid = resolve(p)
            if pid is not None:
                return pid == (u, container[:-1])
            if p[0] == "tag":
                return False
            return learn(p, u, container[:-1])

        for idx, snap, u, lv, exp in ok_msgs:
            k = msg_kind(snap)
            tag = snap.get("tag")
            info = self.tag_info.get(tag) if type(tag) is int else None
            if k == "start":
                if snap.get("action_type") == "eliot:remote_task":
                    exempt.add((u, lv[:-1]))
                if info is not None and info.get("construct") not in MSG_OPS:
                    if tag in identity:
                        bad({"clause": "placement", "what": "start", "mode": self.mode}, "two start messages for driver action %d" % tag)
                    elif lv[-1] != 1:
                        bad({"clause": "start_at_1", "construct": info["construct"]}, "message #%d %s: start message of %s is not at position 1" % (idx, self.describe(snap, lv), info["construct"]))
                    identity[tag] = (u, lv[:-1]); rev[(u, lv[:-1])] = tag
                    if info.get("handoff"):
                        if (u, lv[:-1]) != info["handoff"]:
                            bad({"clause": "placement", "what": "continued", "mode": self.mode}, "message #%d %s: continue_task(%s@%s) started an action at %s@%s" % (
                                idx, self.describe(snap, lv), info["handoff"][0][:8], list(info["handoff"][1]), u[:8], list(lv[:-1])))
                    elif info.get("fresh") or info.get("parent") is None:
                        place(None, u, lv[:-1], "start", idx, snap, lv)
                    else:
                        place(info["parent"], u, lv[:-2] if len(lv) >= 2 else None, "start", idx, snap, lv)
            elif k != "end":
                if info is not None and info.get("construct") in MSG_OPS and info.get("construct") != "plog" and info.get("parent") != exp:
                    bad({"clause": "crash", "what": "driver"}, "driver bug: context record differs for message #%d" % idx)
                if info is not None and info.get("construct") in ("late", "plog"):
                    exp = info["parent"]
                own = k == "report" or (k == "tb" and snap.get("reason") != "for traceback") or snap.get("message_type") == "from_serializer"
                place(exp, u, lv[:-1], "report" if own else k, idx, snap, lv, relaxed=own)
            uu_seen.add(u)
        for tag, info in self.tag_info.items():
            if info.get("started") and tag not in identity:
                bad({"clause": "start_at_1", "construct": info["construct"], "what": "missing"}, "no start message carrying the driver's tag was seen for %s action %d" % (info["construct"], tag))
        # clause 4: positions of every action are exactly 1..n, start at 1, end at n, emission order == level order
        actions = {}
        for idx, snap, u, lv, exp in ok_msgs:
            k = msg_kind(snap)
            k = {"start": "start", "end": "end"}.get(k, "message")
            actions.setdefault((u, lv[:-1]), []).append((lv[-1], k, idx))
            for d in range(len(lv) - 1):
                actions.setdefault((u, lv[:d]), []).append((lv[d], "child", idx))
        for (u, prefix), entries in actions.items():
            order = []; kinds = {}; first = {}
            where = "action %s@%s" % (u[:8], list(prefix))
            tag = rev.get((u, prefix)); construct = self.tag_info[tag]["construct"] if tag else None
            if construct:
                where += " (%s)" % construct
            for pos, k, idx in entries:
                if pos not in kinds:
                    order.append(pos); kinds[pos] = k; first[pos] = idx
                elif not (kinds[pos] == k == "child"):
                    bad({"clause": "unique", "what": "position reused"}, "%s: position %d is used by a %s (#%d) and a %s (#%d)" % (where, pos, kinds[pos], first[pos], k, idx))
            n = len(order)
            starts = [p for p in order if kinds[p] == "start"]; ends = [p for p in order if kinds[p] == "end"]
            lone = (prefix == () and n == 1 and kinds[order[0]] == "message")
            if sorted(order) != list(range(1, n + 1)):
                bad({"clause": "contiguous", "construct": construct}, "%s: positions used are %r, not exactly 1..%d" % (where, sorted(order), n))
            if not lone and starts != [1]:
                bad({"clause": "start_at_1", "construct": construct}, "%s: start message(s) at positions %r, expected exactly one at 1 (positions %r)" % (where, starts, sorted(order)))
            if not lone and len(ends) != 1:
                bad({"clause": "end_at_n", "construct": construct, "what": "%d end messages" % len(ends)}, "%s: %d end messages (positions %r of %r)" % (where, len(ends), ends, sorted(order)))
            elif not lone and ends[0] != max(order):
                after = [p for p in order if p > ends[0]]
                sig = {"clause": "end_at_n", "construct": construct}
                if construct in F1_KINDS and all(kinds[p] == "message" and self.obs[first[p]][1].get("message_type") == REPORT for p in after):
                    sig["known"] = "F1-finish-inside-own-context"
                elif tag in self.late_tags and all(kinds[p] == "message" and self.obs[first[p]][1].get("message_type") == "late" for p in after):
                    sig["known"] = "program-logs-into-finished-action"
                bad(sig, "%s: end message is at position %d but positions %r are used: after it came %s" % (
                    where, ends[0], sorted(order), [self.describe(self.obs[first[p]][1], None) for p in after]))
            local = [p for p in order if (u, prefix + (p,)) not in exempt]
            if local != sorted(local):
                sig = {"clause": "order", "construct": construct}
                early = [p for i, p in enumerate(local) if any(q < p for q in local[i + 1:])]
                if self.sc.get("family") == "serializer_logs" and all(self.obs[first[p]][1].get("message_type") == "from_serializer" for p in early):
                    sig["known"] = "field-serializer-logs"
                bad(sig, "%s: positions reached the destination in order %r, which is not level order (early: %s)" % (
                    where, local, [self.describe(self.obs[first[p]][1], None) for p in early]))
        SEEN_UUIDS.update(u for _, _, u, _, _ in ok_msgs)
        return V

    def describe(self, snap, lv):
        if not isinstance(snap, dict):
            return repr(snap)[:40]
        s = snap.get("message_type") if "action_status" not in snap else "%s/%s" % (snap.get("action_type"), snap.get("action_status"))
        return "[%s %r]" % (s, list(lv) if isinstance(lv, (list, tuple)) else (lv if lv is not None else snap.get("task_level")))

    def describe_desc(self, d):
        if d is None:
            return "no action"
        if d[0] == "tag":
            return "%s action %d" % (self.tag_info[d[1]]["construct"], d[1])
        return "remote child of " + self.describe_desc(d[1])


SEEN_UUIDS = set()
import os
DEBUG = int(os.environ.get("C02_DEBUG") or 0)
import hashlib
DIGEST = hashlib.sha1()


# ----------------------------------------------------------------------------------------------------
# scenario enumeration
# ----------------------------------------------------------------------------------------------------
FAULTS = [
    [],
    [{"t": "kind", "a": ["start"]}],
    [{"t": "kind", "a": ["end"]}],
    [{"t": "kind", "a": ["msg", "tb"]}],
    [{"t": "kind", "a": ["start", "end", "msg", "tb"]}],
    [{"t": "kind", "a": ["start", "end", "msg", "tb", "report"]}],
    [{"t": "kind", "a": ["end"]}, {"t": "kind", "a": ["end", "start"], "p": "flip"}],
    [{"t": "mask", "a": 0b0110, "n": 4}],
]


def with_pos(fault, pos):
    out = []
    for d in fault:
        d = dict(d)
        p = d.pop("p", None)
        d["p"] = pos if p is None else ("after" if pos == "before" else "before")
        out.append(d)
    return out


def exhaustive_constructs():
    """every construct x exit x fault pattern x position of the failing destination x nesting"""
    M = ["msg", []]
    for kind, x, fault, pos, nest in itertools.product(ACT_KINDS, EXITS, FAULTS, ["before", "after"], ["top", "in_with", "in_log_call", "in_ctx"]):
        if not fault and pos == "after":
            continue
        act = ["act", {"k": kind, "x": x, "uf": [["res", "i"]]}, [M]]
        if nest == "top":
            prog = [act, M]
        else:
            outer = {"in_with": "with", "in_log_call": "log_call", "in_ctx": "ctx_then_finish"}[nest]
            prog = [["act", {"k": outer}, [M, act, M]]]
        yield {"family": "constructs", "mode": "sync", "dests": with_pos(fault, pos), "prog": prog}


def exhaustive_collisions():
    """user fields named like eliot's bookkeeping fields, at every site where user fields enter a message"""
    M = ["msg", []]
    vals = ["i", "s", "l1", "l21", "n", "f"]
    for key, val in itertools.product(RESERVED, vals):
        f = [[key, val]]
        sites = []
        for kind in ("with", "task_with", "log_call", "continue_same", "ctx_then_finish", "manual", "typed_with"):
            if key == "action_type" and kind != "log_call":
                continue     # start_action(action_type=..., action_type=...) is a TypeError, not a logging program
            sites.append(["act", {"k": kind, "sf": f}, [M]])
        if key != "action_type":
            sites.append(["act", {"k": "with", "uf": f}, [M]])
            sites.append(["act", {"k": "typed_with", "uf": f}, [M]])
            sites.append(["act", {"k": "ctx_then_finish", "uf": f}, [M]])
        if key != "action_status":
            for code in ("msg", "alog", "mwrite", "mlog", "typed"):
                sites.append([code, f])
        for site in sites:
            for nest in ("top", "in_with"):
                # two instances, so that an overriding task_uuid / task_level collides with something
                prog = [site, M, site] if nest == "top" else [["act", {"k": "with"}, [M, site, site, M]]]
                yield {"family": "collisions", "mode": "sync", "dests": [], "prog": prog}
    # recursion with a colliding argument name (log_call inside log_call)
    for key in RESERVED:
        inner = ["act", {"k": "log_call", "sf": [[key, "l1"]]}, [M]]
        yield {"family": "collisions", "mode": "sync", "dests": [], "prog": [["act", {"k": "log_call", "sf": [[key, "i"]]}, [M, inner, inner]]]}


def known_corner_families():
    M = ["msg", []]
    yield {"family": "global_fields", "mode": "sync", "dests": [], "globals": [["host", "s"]], "prog": [["act", {"k": "with"}, [M]], M]}
    yield {"family": "global_fields", "mode": "sync", "dests": [{"t": "kind", "a": ["end"], "p": "before"}], "globals": [["host", "s"], ["pid", "i"]],
           "prog": [["act", {"k": "log_call"}, [M]], M]}
    yield {"family": "global_fields", "mode": "sync", "dests": [], "globals": [["timestamp", "s"]], "prog": [["act", {"k": "with"}, [M]], M]}
    yield {"family": "late", "mode": "sync", "dests": [], "prog": [["act", {"k": "with"}, [M]], ["late"]]}
    yield {"family": "late", "mode": "sync", "dests": [], "prog": [["act", {"k": "with"}, [["act", {"k": "ctx_then_finish"}, [M]], ["late"], M]]]}
    yield {"family": "serializer_logs", "mode": "sync", "dests": [], "prog": [["act", {"k": "with"}, [M, ["act", {"k": "serlog_with"}, [M]], M]]]}
    yield {"family": "serializer_logs", "mode": "sync", "dests": [], "prog": [["act", {"k": "with"}, [M, ["serlog"], M]]]}


def rand_fields(rng, site):
    r = rng.random()
    if r < 0.6:
        return []
    if r < 0.75:
        return [["x", rng.choice(["i", "s", "n", "f", "e"])]]
    if r < 0.87:
        return [["y", "u"]]      # only a FileDestination objects to this one
    keys = [k for k in RESERVED if not (k == "action_type" and site != "log_call") and not (k == "action_status" and site == "msg")]
    return [[rng.choice(keys), rng.choice(["i", "s", "l1", "l21", "n"])]]


def rand_ops(rng, depth, mode, maxops, p_act=0.45):
    ops = []
    for _ in range(rng.randint(1, maxops)):
        r = rng.random()
        if depth > 0 and r < p_act:
            kind = rng.choice(ACT_KINDS)
            o = {"k": kind, "x": rng.choice(EXITS) if rng.random() < 0.45 else "ok"}
            sf = rand_fields(rng, "log_call" if kind == "log_call" else "start")
            if sf:
                o["sf"] = sf
            uf = rand_fields(rng, "success")
            if uf:
                o["uf"] = uf
            ops.append(["act", o, rand_ops(rng, depth - 1, mode, maxops, p_act)])
        elif depth > 0 and r < p_act + (0.17 if mode != "sync" else 0.07):
            o = {"m": rng.choice(["bare", "preserve", "taskid", "taskid"]), "join": rng.random() < 0.5}
            if rng.random() < 0.5:
                o["str"] = True
            ops.append(["spawn", o, rand_ops(rng, depth - 1, mode, maxops, p_act)])
        else:
            code = rng.choice(MSG_OPS)
            ops.append([code, rand_fields(rng, "msg")] if code != "tb" else ["tb"])
    return ops


def rand_dests(rng):
    out = []
    for _ in range(rng.choice([0, 1, 1, 1, 2, 3])):
        r = rng.random()
        if r < 0.55:
            ks = [k for k in ("start", "end", "msg", "tb", "report") if rng.random() < 0.45] or ["end"]
            d = {"t": "kind", "a": ks}
        elif r < 0.85:
            n = rng.randint(2, 7)
            d = {"t": "mask", "a": rng.randrange(1, 1 << n), "n": n}
        else:
            d = {"t": "file"}
        d["p"] = rng.choice(["before", "after"])
        out.append(d)
    return out


def random_scenarios(rng, count, mode, depth, maxops, p_act=0.45, family="random"):
    for _ in range(count):
        sc = {"family": family, "mode": mode, "sched": rng.randrange(1 << 30), "dests": rand_dests(rng),
              "prog": rand_ops(rng, depth, mode, maxops, p_act)}
        if mode == "thread" and rng.random() < 0.7:
            sc["preempt"] = rng.choice([0.02, 0.05, 0.15])
        if rng.random() < 0.1:
            sc["globals"] = [["host", "s"]]
        if mode == "gen" and rng.random() < 0.5:
            sc["gdebug"] = True
        if mode != "sync" and sc["prog"][0][0] != "act":
            # concurrency wants a shared parent: wrap in a top-level action half of the time
            if rng.random() < 0.5:
                sc["prog"] = [["act", {"k": "with"}, sc["prog"]]]
        yield sc


def nontrivial(sc):
    s = json.dumps(sc["prog"])
    return '"act"' in s or s.count('"M"') + s.count('["msg"') + s.count('["alog"') >= 2 or '"spawn"' in s


def scenarios():
    quick = args.tier == "quick"
    rng = random.Random(args.seed)
    yield from known_corner_families()
    yield from exhaustive_constructs()
    yield from exhaustive_collisions()
    depth = 3 if quick else 4
    counts = {"sync": 4000, "thread": 600, "asyncio": 1000, "gen": 1000} if quick else {"sync": 40000, "thread": 3000, "asyncio": 10000, "gen": 10000}
    for mode in ("sync", "thread", "asyncio", "gen"):
        yield from random_scenarios(rng, counts[mode], mode, depth, 3 if quick else 4)
        yield from random_scenarios(rng, counts[mode] // 8, mode, 6 if quick else 8, 2, 0.7, "random_deep")


def main():
    t0 = time.time()
    fails = []; known = []; cases = 0; seen = set(); fsigs = set(); ksigs = set()
    scs = [json.loads(args.scenario)] if args.scenario else scenarios()
    per_family = {}; per_time = {}
    for sc in scs:
        t1 = time.time()
        if cases:
            per_time[last_key] = per_time.get(last_key, 0) + t1 - t_prev
        t_prev = t1; last_key = (sc.get("family"), sc.get("mode"))
        cases += 1
        if DEBUG == 2:
            err("case", cases, json.dumps(sc))
        per_family[(sc.get("family"), sc.get("mode"))] = per_family.get((sc.get("family"), sc.get("mode")), 0) + 1
        if nontrivial(sc):
            seen.add(json.dumps(sc, sort_keys=True))
        try:
            V = contextvars.Context().run(Runner(sc).run)   # a leaked context cannot spill into the next scenario
        except Exception as e:
            import traceback
            traceback.print_exc(file=sys.stderr)
            V = [({"clause": "crash", "what": type(e).__name__}, "running the scenario raised %s: %s" % (type(e).__name__, e))]
        by = {}
        for sig, text in V:
            by.setdefault(json.dumps(sig, sort_keys=True), (sig, []))[1].append(text)
        for key, (sig, texts) in by.items():
            is_known = "known" in sig
            lst, sigs = (known, ksigs) if is_known else (fails, fsigs)
            if key in sigs or len(lst) >= 5:
                if not is_known and key not in sigs:
                    fsigs.add(key)
                continue
            sigs.add(key)
            lst.append({"signature": sig, "scenario": sc, "observed": [t[:300] for t in texts[:3]]})
    err("c02: %d cases in %.1fs; per family/mode: %s; seconds: %s; failing signatures: %d" % (cases, time.time() - t0, sorted(per_family.items(), key=str),
        sorted((k, round(v, 1)) for k, v in per_time.items()), len(fsigs)))
    if DEBUG:
        err("digest of all observed (level, kind) streams:", DIGEST.hexdigest())
    depth = 3 if args.tier == "quick" else 4
    print(json.dumps({
        "cases": cases, "distinct": len(seen), "failures": fails, "known": known,
        "bound": "exhaustive: 13 action constructs x 6 exit kinds x 8 failure patterns of other destinations x 2 destination orders x 4 nestings, "
                 "and 5 reserved field names x 6 values x every site where user fields enter a message; seeded random: programs of nesting depth <= %d "
                 "with <= %d operations per body, 0-3 failing destinations (by message kind, by call-index mask, real FileDestination with unencodable values), "
                 "run sequentially, on threads (baton passing at operation boundaries and at seeded line events inside eliot), as asyncio tasks and as "
                 "eliot-friendly generators, with hand-off by preserve_context / serialize_task_id+continue_task / inherited context" % (depth, 3 if args.tier == "quick" else 4),
        "rule": "scenario = (program tree, list of failing destinations with position before/after the observing destination, concurrency mode, scheduler seed); "
                "distinct = distinct scenario JSON; non-trivial = contains an action, a spawn or >= 2 messages. Oracle (independent of eliot): per-message shape, run-wide "
                "uniqueness of (task_uuid, task_level), placement of each message under the action the driver itself recorded as current, and per action positions "
                "exactly 1..n with one start at 1, one end at n and first-arrival order == level order (positions handed to another worker exempt from arrival order)"}))


main()
