"""Native driver for C06 (bounded; real code): a serialized task id continues the same tree elsewhere.

Runs the real eliot found on PYTHONPATH.  Four scenario families:

  pos    systematic hand-off programs: ONE hand-off chain whose reserved positions (and the positions of
         the enclosing actions, and of the second hop) sweep 2..P, so that multi-digit level components
         occur in every component of the id; id form (bytes / text / preserve_context) and carrier
         (other thread / same thread) rotate.
  prog   seeded random hand-off programs: a tree of "sites" (root site + one site per hand-off, multi-hop),
         each site = nested actions / messages / further hand-offs; a hand-off reserves a position with
         serialize_task_id (on the current or on an enclosing action; also via the serializeTaskId alias)
         or with preserve_context, and is carried to another thread, to the same thread (inline), or to a
         fresh interpreter process (id as text or bytes) where Action.continue_task / the preserved
         callable continues it; every site logs to its OWN sink (thread-routed global destination,
         explicit eliot.Logger(), a custom ILogger object, a MemoryLogger, or a FileDestination on a real
         temp file).  Threads of one process are serialised by a baton scheduler (one yield point before
         every operation; policies: newest-first, oldest-first, round-robin, seeded random), so the
         interleaving of the sides is forced and reproducible; process hand-offs run at the hand-off
         point or after every thread has finished.
  race   N=2..3 threads invoke ONE preserve_context callable; a sys.settrace line scheduler parks caller A
         at the k-th source line executed inside eliot/_action.py during its call (every line of
         restore_eliot_context / continue_task / Action.__init__ / _start / __enter__ / __exit__ /
         finish ... is a park point; "f" parks inside the wrapped function), optionally parks caller B
         the same way, runs the last caller to completion, then releases the parked ones (LIFO or FIFO).
  ident  preserve_context(f) is f wherever there is no current action (main thread, fresh thread, thread
         started inside an action, after normal/exceptional exit of an action) and is not f inside one.

Oracle (independent of eliot's bookkeeping): the interpreter keeps its own position counter per action
(start = 1, every message / child action / hand-off consumes the next integer, end = last + 1) and
predicts for every site the exact set of (task_level, kind, label, action_type, status) it must log and
the exact bytes of every serialized id (documented codec "<uuid>@/<l1>/<l2>...").  Checked clause by clause:
  id-format / id-unique   serialize_task_id returns the predicted bytes, never twice the same
  continue                continue_task accepts the id (bytes and text) without raising
  uuid                    remote action and every message carry the originating task_uuid
  position / site-log     every site's own log holds exactly its predicted messages, nothing strays
  parse                   the logs of all sites, merged in many orders (file permutations, order-preserving
                          interleavings, reversed, shuffled), each parse with eliot.parse.Parser to exactly
                          ONE complete task whose tree is the predicted one: every remote sub-tree is the
                          child of the originating action at exactly the reserved position
  once / toomany          wrapped function ran exactly once in total; every other call (sequential or racing)
                          raised TooManyCalls and logged nothing
  passthrough             result object / exception object / arguments pass through unchanged
  identity                preserve_context(f) is f iff there is no current action
  context                 current action inside the continued side is the remote action, restored after

Prints one JSON line: {cases, distinct, failures, known, bound, rule}.

KNOWN_ON_UNCHANGED_TREE: none.  (No violation of C06 was found on the unchanged tree; the "known" list is
kept in the output for protocol uniformity and is empty.)
"""
import argparse, itertools, json, os, random, shutil, subprocess, sys, tempfile, threading, time, traceback

ap = argparse.ArgumentParser(); ap.add_argument("--tier", default="quick"); ap.add_argument("--seed", type=int, default=0)
ap.add_argument("--scenario"); ap.add_argument("--child", action="store_true")
args = ap.parse_args()
T0 = time.time()
DEADLINE = T0 + (30 if args.tier == "quick" else 780)

import eliot
from eliot import (start_action, start_task, log_message, preserve_context, add_destinations,
                   remove_destination, current_action, Action, MemoryLogger, Logger)
import eliot._action as _action_mod
from eliot._action import TooManyCalls, WrittenAction
from eliot._output import FileDestination
from eliot.parse import Parser

ACTION_FILE = preserve_context.__code__.co_filename
G = Logger._destinations
_SAVED_G = dict(G.__dict__)
KNOWN_SIGNATURES = []          # signatures of genuine violations on the unchanged tree (none)
WAIT = 15                      # race family: a caller that neither parks nor finishes within this is reported as a hang
PROG_WAIT = 60                 # hand-off programs: all site threads / a child interpreter must finish within this (else: hang)
BATON_WAIT = 240               # a site thread waiting for its turn (never reached; the two above detect hangs)


def err(*a):
    print(*a, file=sys.stderr)


class HandErr(Exception):
    pass


class HandBase(BaseException):
    pass


# ----------------------------------------------------------------------------------------------------------
# sinks: every site logs into its own sink
# ----------------------------------------------------------------------------------------------------------
class SinkLogger(object):
    """A foreign ILogger implementation: no eliot code between the action and the sink."""

    def __init__(self, sink):
        self.sink = sink

    def write(self, dictionary, serializer=None):
        self.sink.msgs.append(json.loads(json.dumps(dictionary)))


class Sink(object):
    def __init__(self, sid, kind, tmpdir):
        self.sid, self.kind, self.msgs, self.logger, self.path, self.misrouted = sid, kind, [], None, None, 0
        if kind == "logger":
            self.logger = SinkLogger(self)
        elif kind == "memlogger":
            self.logger = MemoryLogger()
        elif kind == "global2":
            self.logger = Logger()
        elif kind == "file":
            self.path = os.path.join(tmpdir, "log-%s-%d.jsonl" % (sid, os.getpid()))
            self.fh = open(self.path, "ab")
            self.dest = FileDestination(file=self.fh)
        elif kind != "global":
            raise ValueError(kind)

    def routed(self, message):
        """A message arrived through the global destinations while this sink's site was executing."""
        if self.kind == "file":
            self.dest(message)
        elif self.kind in ("global", "global2"):
            self.msgs.append(json.loads(json.dumps(message)))
        else:
            self.misrouted += 1
            self.msgs.append(json.loads(json.dumps(message)))

    def close(self):
        if self.kind == "file":
            self.fh.close()
        elif self.kind == "memlogger":
            self.msgs = [json.loads(json.dumps(m)) for m in self.logger.messages]
            self.logger.reset()


class Frame(object):
    __slots__ = ("prefix", "n", "action")

    def __init__(self, prefix, n, action):
        self.prefix, self.n, self.action = list(prefix), n, action


class SiteState(object):
    def __init__(self, sid, sink):
        self.sid, self.sink, self.c = sid, sink, 0

    def label(self):
        self.c += 1
        return "%s:%d" % (self.sid, self.c)


# ----------------------------------------------------------------------------------------------------------
# runtime of one process: baton scheduler + interpreter + expectation recorder
# ----------------------------------------------------------------------------------------------------------
class RT(object):
    def __init__(self, seed, policy, tmpdir, root_uuid=None):
        self.rng = random.Random(seed); self.policy = policy; self.tmpdir = tmpdir; self.root_uuid = root_uuid
        self.expected = []; self.sinks = {}; self.problems = []; self.ids = []; self.deferred = []
        self.child_results = []; self.strays = []; self.handoffs = []
        self.tls = threading.local()
        self.runnable = []; self.events = {}; self.all_done = threading.Event(); self.seq = 0
        self.nproc = 0

    def problem(self, clause, text):
        self.problems.append([clause, text])

    # -- routing destination (added to the real global destinations) --
    def route(self, message):
        stack = getattr(self.tls, "stack", None)
        if not stack:
            self.strays.append(json.loads(json.dumps(message, default=repr)))
        else:
            stack[-1].routed(message)

    def make_sink(self, sid, kind):
        if sid in self.sinks:
            raise RuntimeError("site %s run twice" % sid)
        s = self.sinks[sid] = Sink(sid, kind, self.tmpdir)
        return s

    # -- baton scheduler: exactly one registered thread runs at any time --
    def spawn(self, target):
        tok = self.seq; self.seq += 1
        ev = self.events[tok] = threading.Event()
        self.runnable.append(tok)

        def body():
            if not ev.wait(BATON_WAIT):
                return
            self.tls.tok = tok
            try:
                target()
            except BaseException as e:
                self.problem("driver", "site thread died: %r" % (e,))
                traceback.print_exc(file=sys.stderr)
            finally:
                self._finish(tok)
        t = threading.Thread(target=body, daemon=True)
        t.start()

    def _pick(self, me):
        r = self.runnable
        if self.policy == "newest":
            return r[-1]
        if self.policy == "oldest":
            return r[0]
        if self.policy == "rr":
            later = [t for t in r if t > me]
            return later[0] if later else r[0]
        return self.rng.choice(r)

    def yield_(self):
        me = self.tls.tok
        nxt = self._pick(me)
        if nxt != me:
            ev = self.events[me]
            ev.clear()
            self.events[nxt].set()
            if not ev.wait(BATON_WAIT):
                raise RuntimeError("scheduler timeout")

    def _finish(self, tok):
        self.runnable.remove(tok)
        if self.runnable:
            self.events[self._pick(tok)].set()
        else:
            self.all_done.set()

    def run_all(self, first):
        self.spawn(first)
        self.events[0].set()
        if not self.all_done.wait(PROG_WAIT):
            self.problem("hang", "site threads did not finish: a call blocked")
        while self.deferred:
            self.deferred.pop(0).run_process()

    # -- expectations --
    def expect(self, sid, level, kind, label=None, atype=None, status=None):
        self.expected.append([sid, list(level), kind, label, atype, status])

    def check_id(self, tid, pos):
        want = ("%s@/%s" % (self.root_uuid, "/".join(map(str, pos)))).encode("ascii")
        if not isinstance(tid, bytes):
            self.problem("id-format", "serialize_task_id returned %s, not bytes" % type(tid).__name__)
            try:
                tid = tid.encode("ascii")
            except Exception:
                return
        if tid != want:
            self.problem("id-format", "serialize_task_id returned %r, the position reserved by this call is %r" % (tid, want))
        if tid.hex() in self.ids:
            self.problem("id-unique", "serialize_task_id returned %r twice" % (tid,))
        self.ids.append(tid.hex())

    # -- interpreter --
    def run_ops(self, st, frames, ops):
        sid = st.sid
        for op in ops:
            self.yield_()
            k = op["op"]; fr = frames[-1]
            if k == "msgs":
                for i in range(op["n"]):
                    fr.n += 1; lbl = st.label()
                    self.expect(sid, fr.prefix + [fr.n], "msg", lbl)
                    if (i + op["n"]) % 3 == 0:
                        fr.action.log(message_type="m", lbl=lbl)
                    else:
                        log_message(message_type="m", lbl=lbl)
            elif k == "act":
                fr.n += 1; p = fr.prefix + [fr.n]; lbl = st.label(); ex = op.get("exit", "ok")
                self.expect(sid, p + [1], "start", lbl, "a", "started")
                nf = Frame(p, 1, None)
                try:
                    with start_action(st.sink.logger, "a", lbl=lbl) as a:
                        nf.action = a
                        frames.append(nf)
                        try:
                            self.run_ops(st, frames, op["body"])
                        finally:
                            frames.pop()
                        if ex == "raise":
                            raise HandErr(lbl)
                except HandErr as e:
                    if e.args != (lbl,):
                        raise
                self.expect(sid, p + [nf.n + 1], "end", None, "a", "failed" if ex == "raise" else "succeeded")
                if current_action() is not fr.action:
                    self.problem("context", "site %s: current action not restored after nested action" % sid)
            elif k == "hand":
                via = op["via"]
                up = 0 if via == "preserve" else min(op.get("up", 0), len(frames) - 1)
                tf = frames[-1 - up]
                tf.n += 1; pos = tf.prefix + [tf.n]
                job = RemoteJob(self, op["site"], pos, via)
                self.handoffs.append([op["site"]["sid"], pos, via, op["carrier"]])
                if via == "preserve":
                    try:
                        job.wrapped = preserve_context(job.fn)
                    except Exception as e:
                        self.problem("continue", "preserve_context raised %r" % (e,)); continue
                    if job.wrapped is job.fn:
                        self.problem("identity", "preserve_context returned the function itself although an action is current")
                else:
                    ser = tf.action.serializeTaskId if op.get("alias") else tf.action.serialize_task_id
                    try:
                        tid = ser()
                    except Exception as e:
                        self.problem("id-format", "serialize_task_id raised %r" % (e,)); continue
                    self.check_id(tid, pos)
                    if via == "text":
                        tid = tid.decode("ascii") if isinstance(tid, bytes) else tid
                    job.tid = tid
                car = op["carrier"]
                if car == "inline":
                    job.run()
                    if current_action() is not fr.action:
                        self.problem("context", "site %s: current action not restored after inline continuation" % sid)
                elif car == "thread":
                    self.spawn(job.run)
                elif car == "process":
                    if op.get("when") == "late":
                        self.deferred.append(job)
                    else:
                        job.run_process()
                else:
                    raise ValueError(car)
            else:
                raise ValueError(k)

    def result(self):
        logs, files = {}, {}
        for sid, s in self.sinks.items():
            s.close()
            if s.misrouted:
                self.problem("site-log", "site %s (explicit logger): %d message(s) went to the default logger instead" % (sid, s.misrouted))
            if s.kind == "file":
                files[sid] = s.path
            else:
                logs[sid] = s.msgs
        if self.strays:
            self.problem("site-log", "%d message(s) logged outside any site, e.g. %r" % (len(self.strays), self.strays[0]))
        res = {"expected": self.expected, "logs": logs, "files": files, "problems": self.problems, "ids": self.ids,
               "handoffs": self.handoffs, "nproc": self.nproc}
        for c in self.child_results:
            res["expected"] += c["expected"]; res["logs"].update(c["logs"]); res["files"].update(c["files"])
            res["problems"] += c["problems"]; res["ids"] += c["ids"]; res["handoffs"] += c["handoffs"]; res["nproc"] += c["nproc"]
        return res


class RemoteJob(object):
    """The continued side of one hand-off."""

    def __init__(self, rt, site, pos, via):
        self.rt, self.site, self.pos, self.via = rt, site, list(pos), via
        self.tid = None; self.wrapped = None; self.calls = 0; self.st = None; self.fr = None
        self.sentinel = object(); self.exc = None; self.arg = object()

    # preserve_context side ------------------------------------------------------------------------------
    def fn(self, *a, **k):
        rt, sid = self.rt, self.site["sid"]
        self.calls += 1
        if self.calls > 1:
            return self.sentinel
        if len(a) != 1 or a[0] is not self.arg or k != {"kw": sid}:
            rt.problem("passthrough", "site %s: preserved function received args %r %r" % (sid, a, k))
        ra = current_action()
        self.fr = Frame(self.pos, 1, ra)
        if ra is None:
            rt.problem("context", "site %s: no current action inside the preserved function" % sid)
        else:
            if ra.task_uuid != rt.root_uuid:
                rt.problem("uuid", "site %s: continued action has task_uuid %r, origin %r" % (sid, ra.task_uuid, rt.root_uuid))
            rt.run_ops(self.st, [self.fr], self.site["body"])
        ex = self.site.get("exit", "ok")
        if ex == "raise":
            self.exc = HandErr(sid); raise self.exc
        if ex == "base":
            self.exc = HandBase(sid); raise self.exc
        return self.sentinel

    def run(self):
        rt, site = self.rt, self.site
        sid = site["sid"]
        self.st = SiteState(sid, rt.make_sink(sid, site["sink"]))
        stack = rt.tls.__dict__.setdefault("stack", [])
        stack.append(self.st.sink)
        try:
            rt.yield_()
            go = self.run_preserved if self.via == "preserve" else self.run_continued
            if site.get("ambient"):
                # the continuing side is itself in the middle of an unrelated task (logged elsewhere)
                with start_task(MemoryLogger(), "ambient") as amb:
                    go()
                    if current_action() is not amb:
                        rt.problem("context", "site %s: ambient action of the continuing side not restored" % sid)
            else:
                go()
        finally:
            stack.pop()

    def run_preserved(self):
        rt, site, sid, pos = self.rt, self.site, self.site["sid"], self.pos
        ex = site.get("exit", "ok")
        prev = current_action()
        rt.expect(sid, pos + [1], "start", None, "eliot:remote_task", "started")
        got = None
        try:
            got = ("ret", self.wrapped(self.arg, kw=sid))
        except BaseException as e:
            got = ("exc", e)
        n = self.fr.n if self.fr is not None else 1
        rt.expect(sid, pos + [n + 1], "end", None, "eliot:remote_task", "succeeded" if ex == "ok" else "failed")
        if ex == "ok":
            if got[0] != "ret" or got[1] is not self.sentinel:
                rt.problem("passthrough", "site %s: preserved callable gave %r instead of the function's result object" % (sid, got))
        elif got[0] != "exc" or got[1] is not self.exc:
            rt.problem("passthrough", "site %s: preserved callable gave %r instead of raising the function's exception object" % (sid, got))
        if current_action() is not prev:
            rt.problem("context", "site %s: current action not restored after the preserved callable returned" % sid)
        # a second, sequential call: TooManyCalls, function not run, nothing logged
        try:
            self.wrapped(self.arg, kw=sid)
            rt.problem("toomany", "site %s: second sequential call of the preserved callable did not raise" % sid)
        except TooManyCalls:
            pass
        except BaseException as e:
            rt.problem("toomany", "site %s: second sequential call raised %r instead of TooManyCalls" % (sid, e))
        if self.calls != 1:
            rt.problem("once", "site %s: wrapped function ran %d times" % (sid, self.calls))
        if current_action() is not prev:
            rt.problem("context", "site %s: current action changed by the refused second call" % sid)

    def run_continued(self):
        rt, site, sid, pos = self.rt, self.site, self.site["sid"], self.pos
        st = self.st
        ex = site.get("exit", "ok"); atype = site.get("atype"); lbl = st.label()
        kw = {"task_id": self.tid, "lbl": lbl}
        if atype:
            kw["action_type"] = atype
        cont = Action.continueTask if site.get("alias") else Action.continue_task
        eff = atype or "eliot:remote_task"
        rt.expect(sid, pos + [1], "start", lbl, eff, "started")
        prev = current_action()
        fr = Frame(pos, 1, None)
        try:
            try:
                ra = cont(st.sink.logger, **kw)
            except Exception as e:
                rt.problem("continue", "site %s: continue_task(task_id=%r) raised %r" % (sid, self.tid, e))
                return
            with ra:
                fr.action = ra
                if ra.task_uuid != rt.root_uuid:
                    rt.problem("uuid", "site %s: continued action has task_uuid %r, origin %r" % (sid, ra.task_uuid, rt.root_uuid))
                if current_action() is not ra:
                    rt.problem("context", "site %s: continued action is not the current action inside its block" % sid)
                rt.run_ops(st, [fr], site["body"])
                if ex == "raise":
                    raise HandErr(lbl)
                if ex == "base":
                    raise HandBase(lbl)
        except (HandErr, HandBase) as e:
            if e.args != (lbl,):
                raise
        rt.expect(sid, pos + [fr.n + 1], "end", None, eff, "succeeded" if ex == "ok" else "failed")
        if current_action() is not prev:
            rt.problem("context", "site %s: current action not restored after the continued action" % sid)

    # other interpreter ----------------------------------------------------------------------------------
    def run_process(self):
        rt = self.rt
        tid = self.tid
        spec = {"site": self.site, "pos": self.pos, "uuid": rt.root_uuid, "policy": rt.policy,
                "seed": rt.rng.randrange(1 << 30), "tmpdir": rt.tmpdir,
                "tid": {"text": tid} if isinstance(tid, str) else {"hex": tid.hex()}}
        rt.nproc += 1
        try:
            p = subprocess.run([sys.executable, os.path.abspath(__file__), "--child"], input=json.dumps(spec).encode(),
                               stdout=subprocess.PIPE, stderr=subprocess.PIPE, timeout=PROG_WAIT, env=os.environ)
            if p.stderr:
                err(p.stderr.decode(errors="replace")[-2000:])
            res = json.loads(p.stdout.decode().strip().splitlines()[-1])
        except Exception as e:
            rt.problem("driver", "child process for site %s failed: %r" % (self.site["sid"], e))
            return
        rt.child_results.append(res)


def child_main():
    spec = json.loads(sys.stdin.read())
    rt = RT(spec["seed"], spec["policy"], spec["tmpdir"], spec["uuid"])
    add_destinations(rt.route)
    try:
        via = "text" if "text" in spec["tid"] else "bytes"
        job = RemoteJob(rt, spec["site"], spec["pos"], via)
        job.tid = spec["tid"]["text"] if via == "text" else bytes.fromhex(spec["tid"]["hex"])
        if current_action() is not None:
            rt.problem("context", "fresh process has a current action")
        rt.run_all(job.run)
    finally:
        remove_destination(rt.route)
    print(json.dumps(rt.result()))


# ----------------------------------------------------------------------------------------------------------
# verification of one hand-off program
# ----------------------------------------------------------------------------------------------------------
def norm(m):
    st = m.get("action_status")
    kind = "msg" if st is None else ("start" if st == "started" else "end")
    return (tuple(m.get("task_level", ())), kind, m.get("lbl"), m.get("action_type"), st)


def flatten_parsed(task, probs):
    out = []

    def lv(x):
        return tuple(x.task_level.as_list())

    def walk(node, parent):
        if isinstance(node, WrittenAction):
            P = lv(node)
            if parent is not None and P[:-1] != parent:
                probs.append("parsed action at %r hangs under action %r" % (P, parent))
            sm, em = node.start_message, node.end_message
            if sm is None:
                out.append((P, "no-start-message", None, None, None))
            else:
                if lv(sm)[:-1] != P:
                    probs.append("start message %r inside action %r" % (lv(sm), P))
                out.append((lv(sm), "start", sm.contents.get("lbl"), sm.contents.get("action_type"), sm.contents.get("action_status")))
            if em is None:
                out.append((P, "no-end-message", None, None, None))
            else:
                if lv(em)[:-1] != P:
                    probs.append("end message %r inside action %r" % (lv(em), P))
                out.append((lv(em), "end", em.contents.get("lbl"), em.contents.get("action_type"), em.contents.get("action_status")))
            for c in node.children:
                if lv(c)[:-1] != P:
                    probs.append("child %r inside action %r" % (lv(c), P))
                walk(c, P)
        else:
            out.append((lv(node), "msg", node.contents.get("lbl"), None, None))
    walk(task.root(), None)
    return out


def merge_orders(logs, rng, tier):
    """logs: list of per-site message lists -> list of (name, merged list)."""
    n = len(logs)
    idx = list(range(n))
    quick = tier == "quick"
    orders = [("concat", idx), ("concat-reversed-sites", idx[::-1])]
    if n <= 3 and not quick:
        for p in itertools.permutations(idx):
            if list(p) not in [o[1] for o in orders]:
                orders.append(("perm", list(p)))
    elif n >= 3:
        for _ in range(1 if quick else 5):
            p = idx[:]; rng.shuffle(p); orders.append(("perm", p))
    out = [(name + str(o), [m for i in o for m in logs[i]]) for name, o in orders]
    for j in range(1 if quick else 4):       # order-preserving interleavings of the files
        ptr = [0] * n; merged = []
        live = [i for i in idx if logs[i]]
        while live:
            i = rng.choice(live)
            merged.append(logs[i][ptr[i]]); ptr[i] += 1
            if ptr[i] == len(logs[i]):
                live.remove(i)
        out.append(("interleave%d" % j, merged))
    allm = [m for l in logs for m in l]
    pick = rng.random() < 0.5
    if not quick or pick:
        out.append(("all-reversed", allm[::-1]))
    if not quick or not pick:
        for j in range(1 if quick else 3):
            s = allm[:]; rng.shuffle(s); out.append(("shuffle%d" % j, s))
    if quick and len(allm) * len(out) > 180:
        # big program in the quick tier: the plain concatenation plus as many of the other orders as fit
        rest = out[1:]; rng.shuffle(rest)
        out = out[:1] + rest[:max(1, 180 // max(1, len(allm)) - 1)]
    return out


def verify(res, root_uuid, rng, tier):
    """-> list of [clause, text]"""
    probs = [list(p) for p in res["problems"]]
    logs = dict(res["logs"])
    for sid, path in res["files"].items():
        try:
            with open(path, "rb") as f:
                logs[sid] = [json.loads(line) for line in f.read().splitlines() if line.strip()]
        except Exception as e:
            probs.append(["site-log", "site %s: log file unreadable: %r" % (sid, e)]); logs[sid] = []
    if len(set(res["ids"])) != len(res["ids"]):
        probs.append(["id-unique", "the same serialized id was handed out twice across processes"])
    exp_by_site = {}
    for sid, level, kind, label, atype, status in res["expected"]:
        exp_by_site.setdefault(sid, []).append((tuple(level), kind, label, atype, status))
    hand = {h[0]: h for h in res["handoffs"]}
    key = lambda t: (t[0], t[1], str(t[2]), str(t[3]), str(t[4]))
    for sid in sorted(set(exp_by_site) | set(logs)):
        want = sorted(exp_by_site.get(sid, []), key=key)
        got_msgs = logs.get(sid, [])
        for m in got_msgs:
            if m.get("task_uuid") != root_uuid:
                probs.append(["uuid", "site %s logged a message with task_uuid %r, origin is %r" % (sid, m.get("task_uuid"), root_uuid)])
                break
        got = sorted([norm(m) for m in got_msgs], key=key)
        if got != want:
            missing = [w for w in want if w not in got]; extra = [g for g in got if g not in want]
            dup = len(got) != len(set(got))
            h = hand.get(sid)
            where = ("continuing position %r (via %s, %s)" % (h[1], h[2], h[3])) if h else "root"
            probs.append(["position", "site %s [%s]: own log differs from prediction: missing %r extra %r%s" % (
                sid, where, missing[:3], extra[:3], " (duplicates)" if dup else "")])
    # merged logs through the real parser
    site_logs = [logs[s] for s in sorted(logs, key=lambda s: int(s[1:]))]
    want_all = sorted([t for l in exp_by_site.values() for t in l], key=key)
    for name, merged in merge_orders(site_logs, rng, tier):
        try:
            tasks = list(Parser.parse_stream(merged))
        except Exception as e:
            probs.append(["parse", "merge order %s: Parser raised %r" % (name, e)]); continue
        if len(tasks) != 1:
            probs.append(["parse", "merge order %s: parsed into %d tasks instead of 1 (uuids %r)" % (
                name, len(tasks), sorted(set(str(t.root().task_uuid) for t in tasks if t._nodes.get(t._root_level) is not None))[:3])])
            continue
        t = tasks[0]
        sub = []
        try:
            root = t.root()
            if root.task_uuid != root_uuid:
                probs.append(["uuid", "merge order %s: parsed task has uuid %r" % (name, root.task_uuid)])
            flat = sorted(flatten_parsed(t, sub), key=key)
        except Exception as e:
            probs.append(["parse", "merge order %s: parsed task unusable: %r" % (name, e)]); continue
        for s in sub[:2]:
            probs.append(["parse", "merge order %s: %s" % (name, s)])
        if flat != want_all:
            missing = [w for w in want_all if w not in flat]; extra = [g for g in flat if g not in want_all]
            txt = "merge order %s: parsed tree differs from prediction: missing %r extra %r" % (name, missing[:3], extra[:3])
            for h in res["handoffs"]:
                st = (tuple(h[1]) + (1,))
                if not any(f[0] == st and f[1] == "start" for f in flat):
                    txt += "; no child action of %r at reserved position %r (site %s)" % (h[1][:-1], h[1], h[0]); break
            probs.append(["parse", txt])
        elif not t.is_complete():
            probs.append(["parse", "merge order %s: tree is right but the task is not reported complete" % name])
        if len(probs) > 12:
            break
    return probs


def run_prog(sc, tier):
    tmpdir = tempfile.mkdtemp(prefix="c06-")
    rt = RT(sc["seed"], sc["policy"], tmpdir)
    root = sc["root"]
    add_destinations(rt.route)
    try:
        def first():
            st = SiteState(root["sid"], rt.make_sink(root["sid"], root["sink"]))
            rt.tls.stack = [st.sink]
            f = lambda: None
            if preserve_context(f) is not f:
                rt.problem("identity", "preserve_context(f) is not f although there is no current action")
            lbl = st.label()
            starter = start_task if sc.get("task") else start_action
            ex = root.get("exit", "ok")
            rt.expect(root["sid"], [1], "start", lbl, "root", "started")
            fr = Frame([], 1, None)
            try:
                with starter(st.sink.logger, "root", lbl=lbl) as a:
                    fr.action = a
                    rt.root_uuid = a.task_uuid
                    rt.run_ops(st, [fr], root["body"])
                    if ex == "raise":
                        raise HandErr(lbl)
            except HandErr as e:
                if e.args != (lbl,):
                    raise
            rt.expect(root["sid"], [fr.n + 1], "end", None, "root", "failed" if ex == "raise" else "succeeded")
            if current_action() is not None:
                rt.problem("context", "current action not None after the root action")
            rt.tls.stack.pop()
        rt.run_all(first)
        res = rt.result()
        probs = verify(res, rt.root_uuid, random.Random(sc["seed"] + 1), tier)
        return probs, res["nproc"]
    finally:
        try:
            remove_destination(rt.route)
        except ValueError:
            pass
        shutil.rmtree(tmpdir, ignore_errors=True)


# ----------------------------------------------------------------------------------------------------------
# race family: concurrent invocations of ONE preserve_context callable
# ----------------------------------------------------------------------------------------------------------
def run_race(sc, count_only=False):
    n = sc["threads"]; parks = sc["parks"]; fexit = sc.get("fexit", "ok"); pre = sc.get("pre", 0); post = sc.get("post", 0)
    order = sc.get("release", "lifo")
    probs = []
    msgs = []
    dest = msgs.append
    add_destinations(dest)
    runs = []; sentinel = object(); excs = []
    stopped = [threading.Event() for _ in range(n)]; release = [threading.Event() for _ in range(n)]
    done = [threading.Event() for _ in range(n)]
    outcome = [None] * n; counts = [0] * n

    def f(i, key=None):
        runs.append(i)
        if key != i:
            probs.append(["passthrough", "wrapped function got key=%r for caller %d" % (key, i)])
        if i < len(parks) and parks[i] == "f":
            stopped[i].set(); release[i].wait(WAIT)
        log_message(message_type="in_f", lbl="f%d" % len(runs))
        if fexit == "raise":
            e = HandErr(i); excs.append(e); raise e
        return sentinel
    try:
        with start_action(action_type="origin") as o:
            uuid = o.task_uuid
            for i in range(pre):
                log_message(message_type="m")
            wrapped = preserve_context(f)
            for i in range(post):
                log_message(message_type="m")
        pos = [pre + 2]
        n_before = len(msgs)

        def caller(i):
            k = parks[i] if i < len(parks) else 0

            def tracer(frame, event, arg):
                if frame.f_code.co_filename != ACTION_FILE:
                    return None
                if event == "line":
                    counts[i] += 1
                    if counts[i] == k:
                        stopped[i].set(); release[i].wait(WAIT)
                return tracer
            try:
                if count_only or (isinstance(k, int) and k > 0):
                    sys.settrace(tracer)
                try:
                    outcome[i] = ("ret", wrapped(i, key=i))
                finally:
                    sys.settrace(None)
            except TooManyCalls as e:
                outcome[i] = ("tmc", e)
            except BaseException as e:
                outcome[i] = ("exc", e)
            finally:
                done[i].set(); stopped[i].set()
        threads = []
        for i in range(n):
            t = threading.Thread(target=caller, args=(i,), daemon=True); threads.append(t); t.start()
            if not stopped[i].wait(WAIT):
                probs.append(["hang", "caller %d neither parked nor finished: the call blocked" % i])
        if count_only:
            return counts[0]
        parked = [i for i in range(n) if not done[i].is_set()]
        for i in (parked[::-1] if order == "lifo" else parked):
            release[i].set()
            if not done[i].wait(WAIT):
                probs.append(["hang", "caller %d did not finish after release" % i])
        for t in threads:
            t.join(0.01 if any(c == "hang" for c, _ in probs) else WAIT)
        # --- oracle ---
        if len(runs) != 1:
            probs.append(["once", "wrapped function ran %d times (callers %r) for %d concurrent calls" % (len(runs), runs, n)])
        winners = []
        for i, oc in enumerate(outcome):
            if oc is None:
                probs.append(["driver", "caller %d has no outcome" % i])
            elif oc[0] == "tmc":
                pass
            elif fexit == "ok" and oc[0] == "ret" and oc[1] is sentinel:
                winners.append(i)
            elif fexit == "raise" and oc[0] == "exc" and any(oc[1] is e for e in excs):
                winners.append(i)
            else:
                probs.append(["passthrough", "caller %d got %r: neither the function's own result/exception nor TooManyCalls" % (i, oc)])
        if len(winners) != 1:
            probs.append(["toomany", "%d of %d concurrent calls went through (outcomes %r); exactly one must, every other must raise TooManyCalls" % (
                len(winners), n, [oc and oc[0] for oc in outcome])])
        if len(winners) == 1 and len(runs) == 1 and runs != winners:
            probs.append(["passthrough", "function ran for caller %r but caller %r got its result" % (runs, winners)])
        want = [((1,), "start"), ((pre + post + 3,), "end")] + [((j + 2,), "msg") for j in range(pre)] + [((pre + 3 + j,), "msg") for j in range(post)]
        want += [(tuple(pos) + (1,), "start"), (tuple(pos) + (2,), "msg"), (tuple(pos) + (3,), "end")]
        got = [norm(m)[:2] for m in msgs]
        if sorted(got) != sorted(want):
            probs.append(["position", "log differs from prediction: missing %r extra %r%s" % (
                [w for w in want if w not in got][:3], [g for g in got if g not in want][:3], " (duplicate task_levels)" if len(set(got)) != len(got) else "")])
        if any(m.get("task_uuid") != uuid for m in msgs):
            probs.append(["uuid", "a message of the continued side has a different task_uuid"])
        if not probs:
            for name, merged in (("as-logged", list(msgs)), ("reversed", msgs[::-1]), ("remote-first", msgs[n_before:] + msgs[:n_before])):
                try:
                    tasks = list(Parser.parse_stream(merged))
                    ok = len(tasks) == 1 and tasks[0].is_complete()
                    if ok:
                        kids = [c for c in tasks[0].root().children if isinstance(c, WrittenAction)]
                        ok = len(kids) == 1 and kids[0].task_level.as_list() == pos and kids[0].action_type == "eliot:remote_task" \
                            and kids[0].status == ("succeeded" if fexit == "ok" else "failed") and len(kids[0].children) == 1
                    if not ok:
                        probs.append(["parse", "merge order %s: not one complete task with one remote child at %r" % (name, pos)])
                except Exception as e:
                    probs.append(["parse", "merge order %s: Parser raised %r" % (name, e)])
        return probs
    finally:
        for ev in release:
            ev.set()
        remove_destination(dest)


# ----------------------------------------------------------------------------------------------------------
# ident family
# ----------------------------------------------------------------------------------------------------------
def run_ident(sc):
    probs = []
    msgs = []
    dest = msgs.append
    add_destinations(dest)
    try:
        def chk(where, expect_same=True):
            f = lambda *a, **k: ("r", a, k)
            g = preserve_context(f)
            if expect_same and g is not f:
                probs.append(["identity", "%s: no current action, yet preserve_context(f) is not f" % where])
            if not expect_same and g is f:
                probs.append(["identity", "%s: an action is current, yet preserve_context(f) is f" % where])
            return g

        def in_thread(where, expect_same=True):
            t = threading.Thread(target=chk, args=(where, expect_same)); t.start(); t.join(WAIT)
        where = sc["where"]
        if where == "main":
            chk("main thread")
        elif where == "thread":
            in_thread("fresh thread")
        elif where == "thread-from-action":
            with start_action(action_type="x"):
                in_thread("thread started inside an action (threads do not inherit the context)")
        elif where == "after-exit":
            with start_action(action_type="x"):
                pass
            chk("after an action exited")
        elif where == "after-failed-exit":
            try:
                with start_action(action_type="x"):
                    raise HandErr("x")
            except HandErr:
                pass
            chk("after an action exited with an exception")
        elif where == "after-run":
            a = start_action(action_type="x"); a.run(lambda: None); a.finish()
            chk("after Action.run returned")
        elif where == "inside":
            with start_action(action_type="x") as a:
                n0 = len(msgs)
                g = chk("inside an action", expect_same=False)
                if len(msgs) != n0:
                    probs.append(["position", "preserve_context itself logged a message"])
                log_message(message_type="after")
                if msgs[-1]["task_level"] != [3]:
                    probs.append(["position", "preserve_context inside an action did not reserve exactly one position: next message at %r" % (msgs[-1]["task_level"],)])
            r = g(1, b=2)
            if r != ("r", (1,), {"b": 2}):
                probs.append(["passthrough", "result/arguments not passed through: %r" % (r,)])
            rem = [m for m in msgs if m.get("action_type") == "eliot:remote_task"]
            if [m["task_level"] for m in rem] != [[2, 1], [2, 2]] or any(m["task_uuid"] != a.task_uuid for m in rem):
                probs.append(["position", "continued action not at the reserved position [2]: %r" % ([m["task_level"] for m in rem],)])
        elif where == "inside-run":
            a = start_action(action_type="x")
            a.run(chk, "inside Action.run", False)
            with a.context():
                chk("inside Action.context()", False)
            a.finish()
            chk("after Action.context() exited")
        else:
            raise ValueError(where)
        if current_action() is not None:
            probs.append(["context", "current action not None at the end"])
        return probs
    finally:
        remove_destination(dest)


IDENT_WHERES = ["main", "thread", "thread-from-action", "after-exit", "after-failed-exit", "after-run", "inside", "inside-run"]


# ----------------------------------------------------------------------------------------------------------
# scenario generation
# ----------------------------------------------------------------------------------------------------------
class Gen(object):
    def __init__(self, rng, max_hops, max_proc, max_hand):
        self.rng, self.max_hops, self.proc_left, self.hand_left, self.nsite = rng, max_hops, max_proc, max_hand, 0

    def sid(self):
        s = "s%d" % self.nsite; self.nsite += 1
        return s

    def msgs(self):
        r = self.rng
        x = r.random()
        if x < 0.015:
            return r.randint(93, 104)
        if x < 0.10:
            return r.choice([8, 9, 10, 11, 14])
        return r.choice([1, 1, 1, 2, 2, 3])

    def site(self, hop, via, in_process=False):
        r = self.rng
        if via == "preserve":
            sink = r.choice(["global", "global", "global2", "file"])
        else:
            sink = r.choice(["global", "global2", "logger", "memlogger", "file"])
        if in_process and r.random() < 0.7:
            sink = "file"
        s = {"sid": self.sid(), "sink": sink, "exit": r.choice(["ok", "ok", "ok", "raise", "base"])}
        if r.random() < 0.2:
            s["ambient"] = True
        if via != "preserve":
            if r.random() < 0.3:
                s["atype"] = r.choice(["custom:type", "x"])
            if r.random() < 0.2:
                s["alias"] = True
        s["body"] = self.body(hop, 0)
        return s

    def hand(self, hop):
        r = self.rng
        self.hand_left -= 1
        via = r.choice(["bytes", "text", "preserve"])
        car = r.choice(["thread", "thread", "inline"])
        if via != "preserve" and self.proc_left > 0 and r.random() < 0.25:
            car = "process"; self.proc_left -= 1
        op = {"op": "hand", "via": via, "carrier": car}
        if via != "preserve":
            if r.random() < 0.3:
                op["up"] = r.choice([1, 1, 2])
            if r.random() < 0.2:
                op["alias"] = True
        if car == "process":
            op["when"] = r.choice(["now", "late"])
        op["site"] = self.site(hop + 1, via, car == "process")
        return op

    def body(self, hop, nest):
        r = self.rng
        ops = []
        for _ in range(r.randint(1, 4)):
            x = r.random()
            if x < 0.35:
                ops.append({"op": "msgs", "n": self.msgs()})
            elif x < 0.55 and nest < 3:
                ops.append({"op": "act", "exit": r.choice(["ok", "ok", "raise"]), "body": self.body(hop, nest + 1)})
            elif self.hand_left > 0 and hop < self.max_hops:
                ops.append(self.hand(hop))
            else:
                ops.append({"op": "msgs", "n": 1})
        return ops


def has_hand(ops):
    return any(o["op"] == "hand" or (o["op"] == "act" and has_hand(o["body"])) for o in ops)


def gen_prog(rng, tier, allow_proc):
    g = Gen(rng, max_hops=rng.choice([1, 2, 3, 4]), max_proc=(rng.choice([0, 1, 2]) if allow_proc else 0), max_hand=rng.choice([1, 2, 3, 5, 7]))
    root = {"sid": g.sid(), "sink": rng.choice(["global", "global2", "logger", "memlogger", "file"]), "exit": rng.choice(["ok", "ok", "raise"])}
    root["body"] = g.body(0, 0)
    if not has_hand(root["body"]):
        root["body"].insert(rng.randint(0, len(root["body"])), g.hand(0))
    return {"family": "prog", "seed": rng.randrange(1 << 30), "policy": rng.choice(["newest", "oldest", "rr", "random", "random"]),
            "task": rng.random() < 0.3, "root": root}


def at_position(p, inner):
    """ops that put `inner` (an op consuming one position) at position p (>= 2) of the enclosing action"""
    return ([{"op": "msgs", "n": p - 2}] if p > 2 else []) + [inner]


def pos_prog(levels, via, carrier, hop2, policy, sink="global", seed=0, trailing=1):
    """hand-off at task level `levels` (last = reserved position; earlier = positions of enclosing actions);
    hop2: None or the position inside the remote action from which a second hop is made."""
    nsite = [1]

    def mk_site(v, body):
        s = {"sid": "s%d" % nsite[0], "sink": sink if v != "preserve" or sink in ("global", "global2", "file") else "global", "exit": "ok", "body": body}
        nsite[0] += 1
        return s
    remote_body = [{"op": "msgs", "n": 1}]
    s1 = mk_site(via, remote_body)
    if hop2:
        via2 = {"bytes": "text", "text": "preserve", "preserve": "bytes"}[via]
        s2 = mk_site(via2, [{"op": "msgs", "n": 2}])
        s1["body"] = at_position(hop2, {"op": "hand", "via": via2, "carrier": "thread" if carrier == "inline" else "inline", "site": s2}) + [{"op": "msgs", "n": 1}]
    inner = {"op": "hand", "via": via, "carrier": carrier, "site": s1}
    ops = at_position(levels[-1], inner) + ([{"op": "msgs", "n": trailing}] if trailing else [])
    for q in reversed(levels[:-1]):
        ops = at_position(q, {"op": "act", "exit": "ok", "body": ops}) + [{"op": "msgs", "n": 1}]
    return {"family": "pos", "seed": seed, "policy": policy, "task": False, "root": {"sid": "s0", "sink": "global", "exit": "ok", "body": ops}}


def gen_pos(tier, rng):
    out = []
    vias = ["bytes", "text", "preserve"]; cars = ["thread", "inline"]; pols = ["newest", "oldest", "rr"]
    P = 26 if tier == "quick" else 120
    i = 0
    for p in range(2, P + 1):
        for v in vias:
            out.append(pos_prog([p], v, cars[i % 2], None, pols[i % 3], seed=i)); i += 1
    far = [40, 99, 100, 101, 128] if tier == "quick" else [199, 200, 255, 256, 300, 999, 1000, 1001]
    for p in far:
        out.append(pos_prog([p], vias[i % 3], cars[i % 2], None, pols[i % 3], seed=i)); i += 1
    deep_q = [2, 10, 11, 21] if tier == "quick" else [2, 3, 9, 10, 11, 12, 19, 20, 21, 99, 100, 101]
    deep_p = [2, 9, 10, 12] if tier == "quick" else [2, 3, 9, 10, 11, 19, 20, 21, 30, 100]
    for q in deep_q:
        for p in deep_p:
            out.append(pos_prog([q, p], vias[i % 3], cars[i % 2], None, pols[i % 3], sink=["global", "logger", "file", "memlogger"][i % 4], seed=i)); i += 1
    for q1, q2, p in ([(3, 12, 4), (10, 10, 10), (2, 2, 11), (11, 2, 2)] if tier == "quick" else list(itertools.product([2, 10, 13], repeat=3))):
        out.append(pos_prog([q1, q2, p], vias[i % 3], cars[i % 2], None, pols[i % 3], seed=i)); i += 1
    hop_p = [2, 10, 11] if tier == "quick" else [2, 5, 10, 11, 25, 100]
    hop_h = [2, 3, 10, 12, 25] if tier == "quick" else [2, 3, 9, 10, 11, 12, 25, 100]
    for p in hop_p:
        for h in hop_h:
            for v in (vias if tier != "quick" else [vias[i % 3]]):
                out.append(pos_prog([p], v, cars[i % 2], h, pols[i % 3], seed=i)); i += 1
    return out


def proc_prog(p, via, when, hop2, i):
    """hand-off to a fresh interpreter at position p; inside it optionally a second hop (thread, or process again)"""
    s1 = {"sid": "s1", "sink": "file", "exit": ["ok", "raise", "base"][i % 3], "body": [{"op": "msgs", "n": 1 + i % 3}]}
    if hop2:
        via2 = "text" if via == "bytes" else "bytes"
        car2 = ["thread", "process", "inline"][i % 3]
        s2 = {"sid": "s2", "sink": "file" if car2 == "process" else "global", "exit": "ok", "body": [{"op": "msgs", "n": 2}]}
        h = {"op": "hand", "via": via2, "carrier": car2, "site": s2}
        if car2 == "process":
            h["when"] = ["late", "now"][i % 2]
        s1["body"] = at_position(hop2, h) + [{"op": "msgs", "n": 1}]
    inner = {"op": "hand", "via": via, "carrier": "process", "when": when, "site": s1}
    ops = at_position(p, inner) + [{"op": "msgs", "n": 1}]
    return {"family": "prog", "seed": i, "policy": "rr", "task": bool(i % 2), "root": {"sid": "s0", "sink": ["global", "file"][i % 2], "exit": "ok", "body": ops}}


def canon(sc):
    return json.dumps(sc, sort_keys=True)


def run_scenario(sc, tier):
    fam = sc.get("family")
    if fam in ("prog", "pos"):
        probs, nproc = run_prog(sc, tier)
    elif fam == "race":
        probs = run_race(sc)
    elif fam == "ident":
        probs = run_ident(sc)
    else:
        raise ValueError("unknown scenario family %r" % (fam,))
    return probs


def signature(sc, probs):
    clauses = []
    for c, _ in probs:
        if c not in clauses:
            clauses.append(c)
    sig = {"family": sc.get("family"), "clause": clauses[0]}
    if sc.get("family") == "race":
        sig["threads"] = sc["threads"]
    return sig


def main():
    tier = args.tier
    rng = random.Random(args.seed)
    fails, known = [], []
    cases = 0; seen = set(); nproc_total = 0
    fam_counts = {}; fam_time = {}
    truncated = False
    if args.scenario:
        scs = [json.loads(args.scenario)]
    else:
        scs = [{"family": "ident", "where": w} for w in IDENT_WHERES]
        # race: learn how many _action.py lines an uncontended call executes on THIS tree
        nl = max(run_race({"family": "race", "threads": 1, "parks": [0], "fexit": "ok"}, count_only=True),
                 run_race({"family": "race", "threads": 1, "parks": [0], "fexit": "raise"}, count_only=True))
        err("race: %d traced lines per call" % nl)
        ks = list(range(1, nl + 2)) + ["f"]
        i = 0
        for k in ks:
            for fexit in ("ok", "raise"):
                scs.append({"family": "race", "threads": 2, "parks": [k], "fexit": fexit, "pre": [0, 1, 9][i % 3], "post": i % 2, "release": "lifo"}); i += 1
        pairs = [(a, b) for a in ks for b in ks]
        pairs = rng.sample(pairs, min(len(pairs), 70 if tier == "quick" else 3000))
        for a, b in pairs:
            scs.append({"family": "race", "threads": 3, "parks": [a, b], "fexit": ["ok", "raise"][i % 2], "pre": [0, 9, 3][i % 3], "post": 0,
                        "release": ["lifo", "fifo"][(i // 2) % 2]}); i += 1
        scs += gen_pos(tier, rng)
        nprocsc = 8 if tier == "quick" else 120
        pp = [2, 3, 10, 11, 12, 25, 100]
        for j in range(nprocsc):
            scs.append(proc_prog(pp[j % len(pp)], ["text", "bytes"][j % 2], ["now", "late"][(j // 2) % 2], [None, 2, 10, 13][j % 4], j))
        nrand = 90 if tier == "quick" else 1200
        for j in range(nrand):
            scs.append(gen_prog(rng, tier, allow_proc=(j % (12 if tier == "quick" else 8) == 0)))
    sigs_seen = set()
    for sc in scs:
        if not args.scenario and time.time() > DEADLINE:
            truncated = True; break
        cases += 1; seen.add(canon(sc)); fam_counts[sc.get("family")] = fam_counts.get(sc.get("family"), 0) + 1
        t1 = time.time()
        try:
            probs = run_scenario(sc, tier)
        except Exception as e:
            traceback.print_exc(file=sys.stderr)
            probs = [["driver", "scenario crashed: %r" % (e,)]]
        fam_time[sc.get("family")] = fam_time.get(sc.get("family"), 0) + time.time() - t1
        if probs:
            sig = signature(sc, probs)
            entry = {"signature": sig, "scenario": sc, "observed": [("[%s] %s" % (c, t))[:300] for c, t in probs[:4]]}
            if sig in KNOWN_SIGNATURES:
                if len(known) < 5:
                    known.append(entry)
            else:
                ks_ = canon(sig)
                # keep at most 5, prefer distinct signatures
                if ks_ not in sigs_seen or len(fails) < 2:
                    if len(fails) < 5:
                        fails.append(entry)
                sigs_seen.add(ks_)
                if len(fails) >= 5 or any(c == "hang" for c, _ in probs):
                    break
    err("families: %r, seconds %r, total %.1fs%s" % (fam_counts, {k: round(v, 1) for k, v in fam_time.items()}, time.time() - T0, " (deadline reached, remaining scenarios skipped)" if truncated else ""))
    G.__dict__.clear(); G.__dict__.update(_SAVED_G)
    if tier == "quick":
        bound = ("reserved positions 2..26 exhaustively (+ 40..128 sampled) x id as bytes/text/preserve_context; enclosing-action and second-hop positions in "
                 "{2,9..12,20,21,25}; random programs: <= 4 hops, <= 7 hand-offs, <= 3 nested actions, up to ~100 items before a hand-off, 5 sink kinds, "
                 "4 baton policies, <= 2 fresh interpreter processes per program; 2..5 merge orders per program; races: 2 callers x every _action.py "
                 "line of one call as park point (+ inside f) x return/raise, 3 callers x 70 sampled park pairs")
    else:
        bound = ("reserved positions 2..120 exhaustively (+ up to 1001 sampled) x id as bytes/text/preserve_context; enclosing-action and second-hop positions "
                 "up to 101; 1200 random programs: <= 4 hops, <= 7 hand-offs, <= 3 nested actions, 5 sink kinds, 4 baton policies, <= 2 fresh interpreter "
                 "processes per program; >= 10 merge orders per program; races: 2 callers x every _action.py line of one call as park point (+ inside f) "
                 "x return/raise, 3 callers x 3000 sampled park pairs")
    if truncated:
        bound += " [time budget reached: scenario list truncated]"
    out = {"cases": cases, "distinct": len(seen), "failures": fails, "known": known, "bound": bound,
           "rule": "ident: the 8 context situations; race: (callers, park line of caller A [, of caller B], return/raise, messages before/after the "
                   "reservation, release order), park lines enumerated from a traced dry run on the tree under test; pos: systematic "
                   "(task level of the reservation, id form, carrier, second-hop position); prog: seeded random site trees (seed -> program, baton policy, "
                   "merge orders). distinct = distinct canonical scenario JSON; every scenario is non-trivial: ident ones call preserve_context, all "
                   "others contain >= 1 hand-off whose continued side logs >= 3 messages into a sink of its own"}
    print(json.dumps(out))


if args.child:
    child_main()
else:
    main()
