"""Native driver for C05 (bounded; real code): concurrent threads / asyncio tasks never leak action context.

A scenario is (program, schedule).  A *program* is a small structured concurrent program (JSON) built from
  units   : asyncio task | new thread | new thread via preserve_context | job on a 1-worker pool (thread is reused) |
            pool job via preserve_context | new thread running in contextvars.copy_context() (what asyncio.to_thread does)
  blocks  : with start_action | start_action+context()+finish | start_action+run()+finish (finish() outside or inside the context) | @log_call function |
            with start_task | with Action.continue_task(current.serialize_task_id()) | detached (started, never entered) |
            preserve_context(f)() called in place
            each left by return / Exception / BaseException (asyncio.CancelledError)
  shared  : `with X.context()` / `X.run(f)` for an action X that was created by a lexically enclosing block (maybe in
            another unit), i.e. several units enter the context of the *same* Action object
  messages: log_message / Message.log / current_action().log
  spawn/join (everything spawned is joined before the enclosing block ends), await points.
The program is executed with the REAL eliot under a deterministic scheduler: exactly one unit runs at a time; task
units can be pre-empted at their await points, thread units before every logging call; the controller (a coroutine on
the real asyncio loop) decides who runs next (threading.Event / asyncio futures, no sleeps).  Schedules are enumerated
exhaustively by stateless DFS (re-execution) up to a cap per program, then seeded-randomly.

Independent oracle (no eliot test helper is used): the expected forest is computed statically from the program
(who is the parent of every message / action, final status of every action); it does not depend on the schedule.
Checked clause by clause:
  thread-starts-empty   a new thread / reused pool thread has current_action() None before its job runs, and again after
  task-inherits         an asyncio task (or copy_context thread) starts with exactly the Action object current at creation
  current-action        at every step, and after every pre-emption, current_action() in the unit is the object the model
                        says (entering/leaving/finishing in another unit changed nothing; every block restores on exit)
  attribution           tree rebuilt by the driver itself from task_uuid/task_level: every message/action has the expected
                        parent and status, nothing missing/extra, levels contiguous/unique, one start + one end, sibling
                        order == emission order
  parser                eliot.parse.Parser over the merged message list gives the same forest (modulo sibling order)
  schedule-independence forest identical to the one of the first schedule of the same program

KNOWN_ON_UNCHANGED_TREE: (none found -- every clause holds on the unchanged tree for everything enumerated here)

Prints one JSON line: {cases, distinct, failures:[{signature, scenario, observed}], known:[...], bound, rule}."""
import argparse, asyncio, contextvars, hashlib, itertools, json, random, sys, threading, time, warnings
from concurrent.futures import ThreadPoolExecutor

ap = argparse.ArgumentParser(); ap.add_argument("--tier", default="quick"); ap.add_argument("--seed", type=int, default=0)
ap.add_argument("--scenario"); args = ap.parse_args()
warnings.simplefilter("ignore", DeprecationWarning)
from eliot import (start_action, start_task, current_action, log_message, add_destinations, remove_destination,
                   preserve_context, log_call, Message)
from eliot._action import Action
from eliot.parse import Parser

KNOWN_SIGNATURES = []  # signatures of genuine violations on the unchanged tree (none)

TIMEOUT = 20.0
T0 = time.time()
THREAD_KINDS = ("thread", "pthread", "pool", "ppool", "cthread")
UNIT_KINDS = ("task",) + THREAD_KINDS
BLOCK_KINDS = ("with", "context", "run", "log_call", "task", "cont", "det", "pcall", "context_in", "run_in")
SYNC_BLOCKS = ("run", "log_call", "pcall", "run_in")
EXITS = ("return", "exc", "base")
MSG_KINDS = ("lm", "ml", "al")


class _Abort(BaseException):
    pass


class XExc(ValueError):
    pass


def make_exit(kind):
    if kind == "exc": return XExc("c05")
    if kind == "base": return asyncio.CancelledError("c05")
    if kind == "sysexit": return SystemExit(3)
    return None

OURS = (XExc, asyncio.CancelledError, SystemExit)


# ---------------------------------------------------------------- compile: JSON program -> units/ops with ids, + model
class Unit(object):
    def __init__(self, uid, spec):
        self.id = uid; self.kind = spec["k"]; self.exit = spec.get("x", "return"); self.pool = spec.get("p", 0) % 2
        self.threaded = self.kind != "task"; self.body = None; self.remote_nid = None
        assert self.kind in UNIT_KINDS, self.kind
        if not self.threaded and self.exit == "sysexit": self.exit = "base"


class Node(object):
    __slots__ = ("nid", "typ", "label", "parent", "status", "kids")
    def __init__(self, nid, typ, label, parent, status=None):
        self.nid = nid; self.typ = typ; self.label = label; self.parent = parent; self.status = status; self.kids = []


class Compiled(object):
    def __init__(self, program):
        self.program = program; self.units = []; self.nodes = []; self._n = 0
        root = self._unit(program, frozenset())
        assert root.id == 0
        self._model_unit(root, None, [])
        for n in self.nodes:
            if n.parent is not None: n.parent.kids.append(n)
        self.expected = sorted((shape_model(n) for n in self.nodes if n.parent is None), key=repr)
        self.concurrent = len(self.units) > 1

    def _nid(self):
        self._n += 1; return self._n

    def _unit(self, spec, held):
        """held: pools whose only worker is busy running an ancestor of this unit; a job submitted there and joined by
        its creator would deadlock the *program* (nothing to do with eliot), so such a job is moved to the other pool or
        to a fresh thread."""
        u = Unit(len(self.units), spec); self.units.append(u)
        if u.kind in ("pool", "ppool"):
            if u.pool in held: u.pool = 1 - u.pool
            if u.pool in held: u.kind = "thread" if u.kind == "pool" else "pthread"
            else: held = held | {u.pool}
        u.remote_nid = self._nid()
        u.body = self._ops(spec["b"], u.threaded, False, held)
        def needs(ops):  # does this unit itself create asyncio tasks (then its steps need the event loop to be turning)?
            return any((o["t"] == "sp" and self.units[o["uid"]].kind == "task") or (o["t"] in ("b", "s") and needs(o["body"])) for o in ops)
        u.needs_loop = (not u.threaded) or needs(u.body)
        return u

    def _ops(self, ops, threaded, sync, held=frozenset()):
        """sync: we are inside a plain function (run()/log_call) of a coroutine unit -> no await/spawn/join there."""
        out = []
        for op in ops:
            t = op[0]
            if t == "m": out.append({"t": "m", "v": op[1], "nid": self._nid()})
            elif t in ("a", "j"):
                if not sync: out.append({"t": t})
            elif t == "b":
                kind, ex = op[1], op[2]
                assert kind in BLOCK_KINDS and ex in EXITS
                s2 = sync or (kind in SYNC_BLOCKS and not threaded)
                nid = self._nid()
                out.append({"t": "b", "kind": kind, "exit": ex, "nid": nid, "body": self._ops(op[3], threaded, s2, held)})
            elif t == "s":
                how, ref, ex = op[1], op[2], op[3]
                assert how in ("context", "run") and ex in EXITS
                s2 = sync or (how == "run" and not threaded)
                out.append({"t": "s", "how": how, "ref": ref, "exit": ex, "body": self._ops(op[4], threaded, s2, held)})
            elif t == "sp":
                if sync: continue
                out.append({"t": "sp", "uid": self._unit(op[1], held).id})
            else:
                raise ValueError("bad op %r" % (op,))
        return out

    # static model: who is the parent of what (independent of any schedule, written without eliot)
    def _node(self, nid, typ, label, parent, status=None):
        n = Node(nid, typ, label, parent, status); self.nodes.append(n); return n

    def _model_unit(self, u, cur, vis):
        if u.kind in ("thread", "pool"): base = None
        elif u.kind in ("task", "cthread"): base = cur
        elif cur is None: base = None  # preserve_context outside any action returns the function itself
        else:
            base = self._node(u.remote_nid, "A", "R", cur, "succeeded" if u.exit == "return" else "failed")
            vis = vis + [base]
        self._model_ops(u.body, base, vis)

    def _model_ops(self, ops, cur, vis):
        for op in ops:
            t = op["t"]
            if t == "m": self._node(op["nid"], "M", op["nid"], cur)
            elif t == "b":
                st = "succeeded" if op["exit"] == "return" else "failed"
                if op["kind"] == "det":
                    n = self._node(op["nid"], "A", op["nid"], cur, "succeeded")
                    self._model_ops(op["body"], cur, vis + [n])
                elif op["kind"] == "pcall":  # preserve_context(f)() called in place
                    if cur is None: self._model_ops(op["body"], None, vis)
                    else:
                        n = self._node(op["nid"], "A", "R", cur, st)
                        self._model_ops(op["body"], n, vis + [n])
                else:
                    n = self._node(op["nid"], "A", op["nid"], None if op["kind"] == "task" else cur, st)
                    self._model_ops(op["body"], n, vis + [n])
            elif t == "s":
                self._model_ops(op["body"], vis[op["ref"] % len(vis)] if vis else cur, vis)
            elif t == "sp":
                self._model_unit(self.units[op["uid"]], cur, vis)


def shape_model(n):
    if n.typ == "M": return ("M", str(n.label))
    return ("A", str(n.label), n.status, tuple(sorted((shape_model(k) for k in n.kids), key=repr)))


# ---------------------------------------------------------------- one execution of a program under one schedule
class RUnit(object):
    """run-time state of a unit"""
    def __init__(self, run, cu):
        self.run = run; self.cu = cu; self.id = cu.id; self.kind = cu.kind; self.threaded = cu.threaded
        self.state = "unspawned"; self.cond = None; self.ready = threading.Event(); self.go = threading.Event()
        self.fut = None; self.handover = False; self.inherit = None; self.vis = []
        self.handle = None; self.cfut = None; self.pfut = None; self.thread = None

    def enabled(self):
        return self.cond is None or all(v.state == "done" for v in self.cond)

    def release(self):
        if self.threaded: self.go.set()
        elif self.fut is not None and not self.fut.done(): self.fut.set_result(None)

    def tgate(self, cond=None, first=False):
        r = self.run
        self.cond = cond; self.state = "waiting"
        if first:
            self.ready.set()
            if self.handover: r.signal_idle_threadsafe()
        else:
            r.signal_idle_threadsafe()
        if not self.go.wait(TIMEOUT * 2) or r.abort: raise _Abort()
        self.go.clear()

    async def agate(self, cond=None, first=False):
        r = self.run
        self.cond = cond; self.fut = r.loop.create_future(); self.state = "waiting"
        if first: self.ready.set()
        else: r.idle_set()
        await self.fut
        if r.abort: raise _Abort()

    def finish(self):
        r = self.run
        self.state = "done"
        if self.kind in ("pool", "ppool") and r.pool_running.get(self.cu.pool) is self:
            q = r.pool_queue[self.cu.pool]
            if q:
                nxt = q.pop(0); nxt.handover = True; r.pool_running[self.cu.pool] = nxt
                return  # the next job (already queued in the executor) reports when it reaches its first gate
            r.pool_running[self.cu.pool] = None
        if self.threaded: r.signal_idle_threadsafe()
        else: r.idle_set()


class Run(object):
    def __init__(self, loop, compiled, prefix=(), rng=None):
        self.loop = loop; self.c = compiled; self.prefix = list(prefix); self.rng = rng
        self.units = [RUnit(self, cu) for cu in compiled.units]
        self.msgs = []; self.problems = []; self.trace = []; self.abort = False; self.idle = None
        self.names = {}; self.keep = []; self.pools = {}; self.pool_running = {}; self.pool_queue = {}
        self.plock = threading.Lock(); self.own = None; self.block_mode = False; self.tevt = threading.Event(); self.use_parser = True

    # -- bookkeeping
    def problem(self, clause, u, text):
        with self.plock:
            self.problems.append((clause, u.kind if u is not None else "-", text))

    def name(self, act, label):
        self.keep.append(act); self.names[id(act)] = str(label)

    def describe(self, act):
        if act is None: return "None"
        return "action#%s" % self.names.get(id(act), "?unknown(%s)" % getattr(act, "_identification", {}).get("action_type"))

    def probe(self, u, exp, where, clause="current-action"):
        cur = current_action()
        if cur is not exp:
            self.problem(clause, u, "unit %d(%s) %s: current_action() is %s, expected %s"
                         % (u.id, u.kind, where, self.describe(cur), self.describe(exp)))
            return False
        return True

    def idle_set(self):
        if self.idle is not None and not self.idle.done(): self.idle.set_result(None)

    def signal_idle_threadsafe(self):
        if self.block_mode: self.tevt.set()
        else: self.loop.call_soon_threadsafe(self.idle_set)

    def get_pool(self, p):
        if p not in self.pools:
            self.pools[p] = ThreadPoolExecutor(max_workers=1); self.pool_running[p] = None; self.pool_queue[p] = []
        return self.pools[p]

    # -- spawning / joining
    def wait_ready(self, V):
        if not V.ready.wait(TIMEOUT):
            self.problem("hang", V, "unit %d never reached its first step" % V.id); raise _Abort()

    def spawn(self, u, V, exp, vis):
        V.inherit = exp; V.vis = list(vis); V.state = "new"
        k = V.kind
        if k == "task":
            if u is not None and u.threaded:
                V.cfut = asyncio.run_coroutine_threadsafe(self.task_main(V), self.loop); self.wait_ready(V)
            else:
                V.handle = asyncio.ensure_future(self.task_main(V))
            return
        body = lambda: self.thread_body(V)
        if k in ("pthread", "ppool"):
            fn = preserve_context(body)
        elif k == "cthread":
            ctx = contextvars.copy_context(); fn = lambda: ctx.run(body)
        else:
            fn = body
        target = lambda: self.thread_wrapper(V, fn)
        if k in ("pool", "ppool"):
            p = V.cu.pool; pool = self.get_pool(p)
            if self.pool_running[p] is None:
                self.pool_running[p] = V; V.pfut = pool.submit(target); self.wait_ready(V)
            else:
                V.state = "queued"; self.pool_queue[p].append(V); V.pfut = pool.submit(target)
        else:
            V.thread = threading.Thread(target=target, daemon=True); V.thread.start(); self.wait_ready(V)

    def reap(self, V):
        try:
            if V.handle is not None:
                if V.handle.done() and not V.handle.cancelled(): V.handle.exception()
            elif V.cfut is not None:
                V.cfut.exception(TIMEOUT)
            elif V.pfut is not None:
                V.pfut.exception(TIMEOUT)
            elif V.thread is not None:
                V.thread.join(TIMEOUT)
        except BaseException:
            pass

    def join(self, u, pending, exp):
        if pending:
            yield list(pending)
            for V in pending: self.reap(V)
            del pending[:]
            self.probe(u, exp, "after joining spawned work")

    # -- unit mains
    def check_exit(self, V, e):
        want = make_exit(V.cu.exit)
        if (e is None) != (want is None) or (e is not None and type(e) is not type(want)):
            self.problem("error", V, "unit %d ended with %r, expected %r" % (V.id, e, want))

    def thread_wrapper(self, V, fn):
        try:
            V.tgate(first=True)
            self.probe(V, None, "new thread, before its job runs", "thread-starts-empty")
            err = None
            try:
                fn()
            except _Abort:
                raise
            except BaseException as e:
                err = e
            self.check_exit(V, err)
            self.probe(V, None, "thread after its job ended (%s)" % V.cu.exit, "thread-starts-empty")
        except _Abort:
            pass
        except BaseException as e:
            self.problem("error", V, "unit %d: driver/library error %r" % (V.id, e))
        finally:
            V.finish()

    def thread_body(self, V):
        k = V.kind; cur = current_action(); vis = V.vis
        if k in ("thread", "pool") or (k in ("pthread", "ppool") and V.inherit is None):
            exp = None; self.probe(V, None, "thread job start", "thread-starts-empty")
        elif k == "cthread":
            exp = V.inherit; self.probe(V, exp, "copy_context() thread start", "task-inherits")
        else:
            exp = cur
            if cur is None or cur is V.inherit or cur.task_uuid != V.inherit.task_uuid:
                self.problem("current-action", V, "unit %d: inside preserve_context current_action() is %s (creator had %s)"
                             % (V.id, self.describe(cur), self.describe(V.inherit)))
            if cur is not None and cur is not V.inherit:
                self.name(cur, "R"); vis = vis + [cur]
        self.drive_sync(V, self.interp(V, V.cu.body, exp, vis))
        V.tgate()
        self.probe(V, exp, "after pre-emption at end of thread job")
        e = make_exit(V.cu.exit)
        if e is not None: raise e

    async def task_main(self, V):
        try:
            await V.agate(first=True)
            self.probe(V, V.inherit, "task start", "task-inherits")
            for req in self.interp(V, V.cu.body, V.inherit, V.vis):
                await V.agate(req)
            self.probe(V, V.inherit, "task end")
        except _Abort:
            V.finish(); return
        except BaseException as e:
            self.problem("error", V, "unit %d: driver/library error %r" % (V.id, e)); V.finish(); return
        V.finish()
        e = make_exit(V.cu.exit)
        if e is not None: raise e

    def drive_sync(self, u, gen):
        for req in gen:
            if not u.threaded: raise RuntimeError("await inside a plain function of a coroutine unit")
            u.tgate(req)

    # -- the interpreter (a generator: yields None = pre-emption point, yields [units] = wait for these)
    def log_msg(self, op, exp):
        v = op["v"]; nid = op["nid"]
        if v == "ml": Message.log(message_type="m", nid=nid)
        elif v == "al" and exp is not None: current_action().log(message_type="m", nid=nid)
        else: log_message(message_type="m", nid=nid)

    def interp(self, u, ops, exp, vis):
        pending = []
        for op in ops:
            t = op["t"]
            if t == "a":
                if not u.threaded:
                    yield None
                    self.probe(u, exp, "after await")
                continue
            if t == "j":
                for x in self.join(u, pending, exp): yield x
                continue
            if u.threaded:
                yield None
                self.probe(u, exp, "after pre-emption")
            else:
                self.probe(u, exp, "before op")
            if t == "m": self.log_msg(op, exp)
            elif t == "b":
                for x in self.block(u, op, exp, vis): yield x
            elif t == "s":
                for x in self.shared(u, op, exp, vis): yield x
            elif t == "sp":
                V = self.units[op["uid"]]; self.spawn(u, V, exp, vis); pending.append(V)
            self.probe(u, exp, "after %s" % (t if t != "b" else "block " + op["kind"] + "/" + op["exit"]))
        for x in self.join(u, pending, exp): yield x

    def body_in(self, u, op, act, vis, finish_inside=False):
        """body of a block entered as `act`, then the block's way out"""
        self.probe(u, act, "just inside block")
        for x in self.interp(u, op["body"], act, vis): yield x
        if u.threaded:
            yield None
        self.probe(u, act, "at end of block body")
        e = make_exit(op["exit"])
        if finish_inside:  # the action is finished while it is still the current one (as DeferredContext.addActionFinish does)
            act.finish(e)
            self.probe(u, act, "after finish() of the current action, still inside its context")
        if e is not None: raise e

    def block(self, u, op, exp, vis):
        kind = op["kind"]; nid = op["nid"]; wh = "after leaving block %s/%s" % (kind, op["exit"])
        if kind == "cont" and exp is None: kind = "with"
        if kind == "log_call":
            run = self
            @log_call(action_type="log_call", include_result=False)
            def f(nid):
                inner = current_action()
                if inner is None or inner is exp:
                    run.problem("current-action", u, "unit %d: inside @log_call function current_action() is %s" % (u.id, run.describe(inner)))
                else:
                    run.name(inner, nid)
                run.drive_sync(u, run.body_in(u, op, inner, vis + [inner]))
            try: f(nid)
            except OURS: pass
            self.probe(u, exp, wh)
            return
        if kind == "pcall":
            def g():
                inner = current_action()
                if exp is None:
                    self.probe(u, None, "inside preserve_context(f)() created outside any action")
                    v2 = vis
                elif inner is None or inner is exp or inner.task_uuid != exp.task_uuid:
                    self.problem("current-action", u, "unit %d: inside preserve_context(f)() current_action() is %s (creator had %s)"
                                 % (u.id, self.describe(inner), self.describe(exp)))
                    v2 = vis
                else:
                    self.name(inner, "R"); v2 = vis + [inner]
                self.drive_sync(u, self.body_in(u, op, inner, v2))
            fn = preserve_context(g)
            self.probe(u, exp, "after preserve_context()")
            if u.threaded: yield None
            try: fn()
            except OURS: pass
            self.probe(u, exp, wh)
            return
        if kind == "task": act = start_task(action_type="task", nid=nid)
        elif kind == "cont": act = Action.continue_task(task_id=exp.serialize_task_id(), action_type="cont", nid=nid)
        else: act = start_action(action_type=kind, nid=nid)
        self.name(act, nid)
        self.probe(u, exp, "after starting (not entering) an action")
        err = None
        if kind in ("with", "task", "cont"):
            try:
                with act as got:
                    if got is not act: self.problem("error", u, "with action: returned %r" % (got,))
                    for x in self.body_in(u, op, act, vis + [act]): yield x
            except OURS: pass
        elif kind in ("context", "context_in"):
            try:
                with act.context() as got:
                    if got is not act: self.problem("error", u, "with action.context(): returned %r" % (got,))
                    for x in self.body_in(u, op, act, vis + [act], kind == "context_in"): yield x
            except OURS as e: err = e
            self.probe(u, exp, wh)
            if u.threaded: yield None
            act.finish(err)
        elif kind in ("run", "run_in"):
            try: act.run(lambda: self.drive_sync(u, self.body_in(u, op, act, vis + [act], kind == "run_in")))
            except OURS as e: err = e
            self.probe(u, exp, wh)
            if u.threaded: yield None
            act.finish(err)
        elif kind == "det":
            for x in self.interp(u, op["body"], exp, vis + [act]): yield x
            if u.threaded: yield None
            act.finish()
        self.probe(u, exp, wh)

    def shared(self, u, op, exp, vis):
        if not vis:
            for x in self.interp(u, op["body"], exp, vis): yield x
            return
        tgt = vis[op["ref"] % len(vis)]
        if op["how"] == "context":
            try:
                with tgt.context():
                    for x in self.body_in(u, op, tgt, vis): yield x
            except OURS: pass
        else:
            try: tgt.run(lambda: self.drive_sync(u, self.body_in(u, op, tgt, vis)))
            except OURS: pass
        self.probe(u, exp, "after leaving %s of shared %s" % (op["how"], self.describe(tgt)))

    # -- the scheduler
    async def controller(self):
        root = self.units[0]; last = None
        try:
            self.spawn(None, root, None, [])
            while True:
                n = 0
                while any(u.state == "new" for u in self.units):
                    await asyncio.sleep(0); n += 1
                    if n > 10000: raise _Abort()
                if not any(u.state in ("waiting", "queued", "running") for u in self.units): break
                enabled = [u.id for u in self.units if u.state == "waiting" and u.enabled()]
                if not enabled:
                    self.problem("hang", None, "deadlock: states %r" % ([(u.id, u.state) for u in self.units],)); raise _Abort()
                if len(enabled) == 1: ch = enabled[0]
                else:
                    i = len(self.trace)
                    if i < len(self.prefix):
                        ch = self.prefix[i]
                        if ch not in enabled:
                            self.problem("hang", None, "schedule diverged at decision %d: %r not in %r" % (i, ch, enabled)); ch = enabled[0]
                    elif self.rng is not None: ch = self.rng.choice(enabled)
                    else: ch = last if last in enabled else enabled[0]
                    self.trace.append((tuple(enabled), ch))
                last = ch; u = self.units[ch]
                if not u.cu.needs_loop:
                    # a thread step that does not need the event loop: the controller simply blocks until the thread reports
                    self.block_mode = True; self.tevt.clear(); u.state = "running"; u.release()
                    ok = self.tevt.wait(TIMEOUT)
                    self.block_mode = False
                    if not ok:
                        self.problem("hang", u, "unit %d did not come back within %ss" % (u.id, TIMEOUT)); raise _Abort()
                    continue
                self.block_mode = False
                self.idle = self.loop.create_future(); u.state = "running"; u.release()
                try:
                    await asyncio.wait_for(self.idle, TIMEOUT)
                except asyncio.TimeoutError:
                    self.problem("hang", u, "unit %d did not come back within %ss" % (u.id, TIMEOUT)); raise _Abort()
            self.reap(root)
        except _Abort:
            self.abort = True
            if not any(p[0] == "hang" for p in self.problems): self.problem("hang", None, "run aborted")
            for u in self.units:
                if u.threaded: u.go.set()
                elif u.fut is not None and not u.fut.done(): u.fut.set_exception(_Abort())
            for _ in range(50): await asyncio.sleep(0)
            for u in self.units:
                if u.thread is not None: u.thread.join(1.0)

    def execute(self, use_parser=True):
        self.use_parser = use_parser
        dest = self.msgs.append
        add_destinations(dest)
        try:
            if current_action() is not None: self.problem("error", None, "driver thread has a current action before the run")
            self.loop.run_until_complete(self.controller())
            if current_action() is not None: self.problem("current-action", None, "main thread has a current action after the run")
        finally:
            remove_destination(dest)
            for p in self.pools.values(): p.shutdown(wait=not self.abort)
        if not self.abort: self.check_output()
        return self

    # -- oracle over the emitted messages
    def check_output(self):
        msgs = self.msgs; slots = {}
        def slot(key):
            if key not in slots: slots[key] = {"start": None, "end": None, "items": [], "pos": None}
            return slots[key]
        for pos, m in enumerate(msgs):
            try:
                uuid = m["task_uuid"]; lvl = tuple(m["task_level"])
                assert lvl and all(isinstance(x, int) for x in lvl)
            except Exception:
                self.problem("attribution", None, "malformed message %r" % (m,)); continue
            s = slot((uuid, lvl[:-1]))
            if "action_type" in m:
                st = m.get("action_status")
                which = "start" if st == "started" else "end"
                if s[which] is not None: self.problem("attribution", None, "two %s messages for action nid=%s" % (which, m.get("nid")))
                s[which] = m
                if which == "start": s["pos"] = pos
                s["items"].append((lvl[-1], pos, which, m))
            else:
                s["items"].append((lvl[-1], pos, "msg", m))
        for (uuid, prefix), s in list(slots.items()):
            if prefix: slot((uuid, prefix[:-1]))
        for (uuid, prefix), s in slots.items():
            if prefix: slots[(uuid, prefix[:-1])]["items"].append((prefix[-1], s["pos"], "child", (uuid, prefix)))
        def lab(s):
            st = s["start"]
            if st is None: return "?nostart"
            return "R" if st.get("action_type") == "eliot:remote_task" else str(st.get("nid"))
        parents = {}  # observed: label -> parent label
        def shape(key, up):
            s = slots[key]; items = sorted(s["items"], key=lambda it: it[0])
            if s["start"] is None and s["end"] is None and not key[1] and len(items) == 1 and items[0][2] == "msg" and items[0][0] == 1:
                parents[str(items[0][3].get("nid"))] = None
                return ("M", str(items[0][3].get("nid")))
            me = lab(s)
            idx = [it[0] for it in items]
            if idx != list(range(1, len(idx) + 1)):
                self.problem("attribution", None, "children of action %s have task_level indexes %r (not 1..n, unique)" % (me, idx))
            if s["start"] is None or s["end"] is None:
                self.problem("attribution", None, "action %s (uuid %s.. level %r): missing %s message"
                             % (me, key[0][:6], list(key[1]), "start" if s["start"] is None else "end"))
            elif items[0][2] != "start" or items[-1][2] != "end":
                self.problem("attribution", None, "action %s: start/end are not its first/last messages" % me)
            lastpos = -1
            for it in items:
                if it[2] == "child" and lab(slots[it[3]]) == "R": continue
                if it[1] is not None:
                    if it[1] < lastpos:
                        self.problem("attribution", None, "children of action %s are not numbered in the order they were logged" % me)
                        break
                    lastpos = it[1]
            if me != "R": parents[me] = up
            kids = []
            for it in items:
                if it[2] == "msg":
                    parents[str(it[3].get("nid"))] = me; kids.append(("M", str(it[3].get("nid"))))
                elif it[2] == "child":
                    kids.append(shape(it[3], me))
            status = s["end"].get("action_status") if s["end"] is not None else None
            return ("A", me, status, tuple(sorted(kids, key=repr)))
        own = sorted((shape(k, None) for k in slots if not k[1]), key=repr)
        self.own = own
        exp = sorted(self.c.expected, key=repr)
        if own != exp:
            n0 = len(self.problems)
            for n in self.c.nodes:
                if n.label == "R": continue
                want = None if n.parent is None else str(n.parent.label)
                key = str(n.label)
                if key not in parents:
                    self.problem("attribution", None, "%s nid=%s was never logged / not found" % ("message" if n.typ == "M" else "action", key))
                elif parents[key] != want:
                    self.problem("attribution", None, "%s nid=%s is attributed to action %s, expected %s"
                                 % ("message" if n.typ == "M" else "action", key, parents[key], want))
            if len(self.problems) == n0:
                self.problem("attribution", None, "forest differs from the model: got %s expected %s" % (json.dumps(own)[:300], json.dumps(exp)[:300]))
        # eliot's own parser over the merged stream
        if not self.use_parser: return
        try:
            def pshape(node):
                if hasattr(node, "children"):
                    sm = node.start_message
                    if sm is None: l = "?nostart"
                    elif sm.contents.get("action_type") == "eliot:remote_task": l = "R"
                    else: l = str(sm.contents.get("nid"))
                    em = node.end_message
                    return ("A", l, em.contents.get("action_status") if em is not None else None,
                            tuple(sorted((pshape(c) for c in node.children), key=repr)))
                return ("M", str(node.contents.get("nid")))
            parsed = sorted((pshape(t.root()) for t in Parser.parse_stream(msgs)), key=repr)
        except Exception as e:
            self.problem("parser", None, "Parser raised %r" % (e,)); return
        if parsed != exp:
            self.problem("parser", None, "parsed forest differs from the model: got %s expected %s" % (json.dumps(parsed)[:300], json.dumps(exp)[:300]))


# ---------------------------------------------------------------- program families
def U(k, b, x="return", p=0):
    return {"k": k, "x": x, "p": p, "b": b}

def M(v="lm"): return ["m", v]
A = ["a"]; J = ["j"]
def B(kind, body, ex="return"): return ["b", kind, ex, body]
def S(how, ref, body, ex="return"): return ["s", how, ref, ex, body]
def SP(u): return ["sp", u]


def family_shared(tier):
    """two (or three) workers, each inside its own action, also enter the context of one shared action"""
    out = []
    wk = ["task", "cthread", "pthread", "thread"]
    for root in ("task", "thread"):
        for k1, k2 in itertools.combinations_with_replacement(wk, 2):
            for own in ("with", "context"):
                for how in ("context", "run"):
                    for ex in ("return", "exc"):
                        for sh in ("det", "with"):
                            def worker(k):
                                inner = [M()] if (how == "run" and k == "task") else [A, M()]
                                # ref 0 = root block action; ref 1 = the shared (det) action when present
                                return U(k, [B(own, [A, S(how, 1 if sh == "det" else 0, inner, ex), A, M(), A, M("al")])])
                            ws = [SP(worker(k1)), SP(worker(k2))]
                            if sh == "det": body = [B("with", [B("det", ws + [J, M()])])]
                            else: body = [B("with", ws + [J, M()])]
                            out.append(U(root, body))
    return out


def family_pool(tier):
    """a 1-worker pool runs job 1 then job 2 on the same thread (or job 2 on another pool); job 1 leaves in every way"""
    out = []
    for root in ("task", "thread"):
        for k1 in ("ppool", "pool", "pthread"):
            for x1 in ("return", "exc", "base", "sysexit"):
                for inner in (None, "with", "context", "run", "log_call"):
                    for iex in (("return",) if inner is None else EXITS):
                        for k2, p2 in (("pool", 0), ("pool", 1), ("ppool", 0)):
                            for overlap in (False, True):
                                b1 = [M()] + ([B(inner, [M()], iex)] if inner else [])
                                j1 = U(k1, b1, x1, 0); j2 = U(k2, [M(), B("with", [M("al")])], "return", p2)
                                seq = [SP(j1), SP(j2), J] if overlap else [SP(j1), J, SP(j2), J]
                                out.append(U(root, [B("with", seq + [M()])]))
    return out


def family_fanout(tier):
    """N tasks/threads under one action, each with nested actions left in different ways, plus nested spawning"""
    out = []
    for root in ("task", "thread"):
        for kinds in (("task", "task", "task"), ("task", "cthread", "pthread"), ("task", "thread", "task")):
            for bk in ("with", "context", "cont", "task"):
                for ex in EXITS:
                    ws = [SP(U(k, [M(), A, B(bk, [A, M(), A], ex), A, M()])) for k in kinds]
                    out.append(U(root, [B("with", ws + [M(), J, M()])]))
        for bk in ("with", "context"):
            for k in ("task", "cthread", "pthread"):
                leaf = U("task", [A, B("with", [A, M()]), A, M()])
                mid = U(k, [B(bk, [A, SP(leaf), A, M(), J, M()]), A, M()])
                out.append(U(root, [B("with", [SP(mid), A, B("run", [M()]), A, M(), J])]))
                out.append(U(root, [SP(mid), SP(mid), A, M()]))
    return out


def gen_random(rng):
    budget = {"ops": rng.randint(7, 16), "units": rng.randint(2, 4)}
    def ops(threaded, sync, depth, top=False):
        out = []
        for _ in range(rng.randint(2, 4) if top else rng.randint(1, 3)):
            if budget["ops"] <= 0: break
            budget["ops"] -= 1
            r = rng.random()
            if depth >= 4 or r < 0.28:
                out.append(M(rng.choice(MSG_KINDS)))
            elif r < 0.55:
                kind = rng.choice(BLOCK_KINDS)
                ex = rng.choice(EXITS) if rng.random() < 0.5 else "return"
                out.append(B(kind, ops(threaded, sync or (kind in SYNC_BLOCKS and not threaded), depth + 1), ex))
            elif r < 0.70:
                how = rng.choice(("context", "context", "run"))
                ex = rng.choice(EXITS) if rng.random() < 0.4 else "return"
                out.append(S(how, rng.randrange(6), ops(threaded, sync or (how == "run" and not threaded), depth + 1), ex))
            elif budget["units"] > 0 and not (sync and not threaded):
                for _ in range(rng.randint(1, 2)):
                    if budget["units"] <= 0: break
                    budget["units"] -= 1
                    k = rng.choice(("task", "task", "task", "thread", "pthread", "pool", "ppool", "cthread"))
                    x = rng.choice(("return", "return", "exc", "base", "sysexit")) if k != "task" else rng.choice(("return", "return", "exc", "base"))
                    out.append(SP(U(k, ops(k != "task", False, depth + 1, True), x, rng.randrange(2))))
                if rng.random() < 0.3: out.append(J)
            else:
                out.append(M(rng.choice(MSG_KINDS)))
            if not threaded and not sync and rng.random() < 0.6: out.append(A)
        return out
    root = rng.choice(("task", "task", "thread"))
    body = ops(root != "task", False, 0, True)
    if rng.random() < 0.7: body = [B(rng.choice(("with", "context")), body)]
    return U(root, body)


# ---------------------------------------------------------------- exploration
class Explorer(object):
    def __init__(self):
        self.loop = asyncio.new_event_loop()
        self.cases = 0; self.distinct = set(); self.fail = []; self.known = []; self.programs = 0; self.exhausted = 0
        self.parser_every = 4; self.idx = 0

    def close(self):
        try:
            self.loop.run_until_complete(self.loop.shutdown_asyncgens())
        finally:
            self.loop.close()

    def record(self, program, run, extra=None):
        probs = list(run.problems) + (extra or [])
        self.cases += 1
        sched = [c for _, c in run.trace]
        if run.trace: self.distinct.add(hashlib.md5((json.dumps(program, sort_keys=True) + repr(sched)).encode()).hexdigest()[:16])
        if not probs: return
        sig = {"clause": probs[0][0], "unit": probs[0][1]}
        rec = {"signature": sig, "scenario": {"program": program, "schedule": sched}, "observed": [p[2][:400] for p in probs[:4]], "_i": self.idx}
        if sig in KNOWN_SIGNATURES:
            if len(self.known) < 40: self.known.append(rec)
        elif len(self.fail) < 12: self.fail.append(rec)

    def one(self, program, schedule):
        c = Compiled(program)
        run = Run(self.loop, c, prefix=schedule).execute()
        self.record(program, run)

    def explore(self, program, cap, nrandom, rng):
        """all schedules by DFS over decision points (re-execution), at most `cap`; if not exhausted, `nrandom` random ones"""
        c = Compiled(program); self.programs += 1
        stack = [[]]; runs = 0; first = None
        def do(run):
            nonlocal first
            extra = []
            if not run.abort:
                if first is None: first = run.own
                elif run.own != first:
                    extra.append(("schedule-independence", "-", "forest differs from the first schedule of the same program: %s vs %s"
                                  % (json.dumps(run.own)[:300], json.dumps(first)[:300])))
            self.record(program, run, extra)
        while stack and runs < cap:
            prefix = stack.pop(rng.randrange(len(stack)) if len(stack) > 1 else 0)
            run = Run(self.loop, c, prefix=prefix).execute(runs < 2 or runs % self.parser_every == 0); runs += 1
            do(run)
            tr = run.trace
            for i in range(len(prefix), len(tr)):
                en, ch = tr[i]
                base = [x for _, x in tr[:i]]
                for a in en:
                    if a != ch: stack.append(base + [a])
            if len(self.fail) >= 12: return
        if not stack:
            self.exhausted += 1; return
        for _ in range(nrandom):
            run = Run(self.loop, c, rng=random.Random(rng.getrandbits(32))).execute(runs % self.parser_every == 0); runs += 1
            do(run)
            if len(self.fail) >= 12: return


def build_work(tier, seed):
    """the deterministic list of (program, dfs cap, random schedules) for a tier/seed"""
    rng = random.Random(seed); quick = tier != "thorough"
    fs, fp, ff = family_shared(tier), family_pool(tier), family_fanout(tier)
    if quick:
        rng.shuffle(fs); rng.shuffle(fp); rng.shuffle(ff)
        fs, fp, ff = fs[:200], fp[:420], ff[:96]
    cap, nrand = (10, 6) if quick else (80, 40)
    rcap, rrand = (8, 6) if quick else (50, 30)
    nprog = 900 if quick else 8000
    work = [(p, cap, nrand) for p in fs + fp + ff] + [(gen_random(rng), rcap, rrand) for _ in range(nprog)]
    rng.shuffle(work)  # so that a time cut-off keeps a bit of everything
    return work


def worker(tier, seed, work, k, n, budget):
    """explore work[k::n]; every program has its own rng, so the result does not depend on the partition"""
    ex = Explorer(); ex.parser_every = 4 if tier != "thorough" else 2
    truncated = False
    try:
        for i in range(k, len(work), n):
            p, c_, n_ = work[i]; ex.idx = i
            ex.explore(p, c_, n_, random.Random("%d:%d" % (seed, i)))
            if len(ex.fail) >= 12: break
            if time.time() - T0 > budget:
                truncated = True; break
    finally:
        ex.close()
    return {"cases": ex.cases, "distinct": list(ex.distinct), "fail": ex.fail, "known": ex.known, "programs": ex.programs,
            "exhausted": ex.exhausted, "truncated": truncated}


def run_parallel(tier, seed, work, budget):
    """fork a few worker processes (before any thread or event loop exists in this process); fall back to in-process"""
    import os
    try:
        import multiprocessing as mp
        ncpu = len(os.sched_getaffinity(0)) if hasattr(os, "sched_getaffinity") else (os.cpu_count() or 2)
        n = max(1, min(8, ncpu // 2))
        if n == 1: raise RuntimeError("single cpu")
        ctx = mp.get_context("fork")
        def child(conn, k):
            try:
                conn.send(worker(tier, seed, work, k, n, budget))
            except BaseException as e:
                conn.send({"error": repr(e)})
            finally:
                conn.close()
        procs = []
        for k in range(n):
            a, b = ctx.Pipe(duplex=False)
            pr = ctx.Process(target=child, args=(b, k), daemon=True); pr.start(); b.close(); procs.append((pr, a))
        res = []
        for pr, a in procs:
            try:
                r = a.recv() if a.poll(budget + 120) else {"error": "worker timed out"}
            except EOFError:
                r = {"error": "worker died"}
            res.append(r)
        for pr, a in procs:
            pr.join(5)
            if pr.is_alive(): pr.terminate()
        return res
    except Exception as e:
        sys.stderr.write("c05: no worker processes (%r), running in-process\n" % (e,))
        return [worker(tier, seed, work, 0, 1, budget)]


def pick(recs):
    """at most 5, in program order, distinct signatures first"""
    recs = sorted(recs, key=lambda r: r["_i"]); out = []; seen = set()
    for r in recs:
        key = json.dumps(r["signature"], sort_keys=True)
        if key not in seen and len(out) < 5: seen.add(key); out.append(r)
    for r in recs:
        if len(out) >= min(5, max(2, len(seen))): break
        if r not in out: out.append(r)
    out.sort(key=lambda r: r["_i"])
    return [{k: v for k, v in r.items() if k != "_i"} for r in out]


def main():
    quick = args.tier != "thorough"
    budget = 31.0 if quick else 800.0
    if args.scenario:
        ex = Explorer()
        try:
            sc = json.loads(args.scenario)
            if sc.get("schedule") is None: ex.explore(sc["program"], 3000, 300, random.Random(args.seed))
            else: ex.one(sc["program"], sc["schedule"])
        finally:
            ex.close()
        res = [{"cases": ex.cases, "distinct": list(ex.distinct), "fail": ex.fail, "known": ex.known, "programs": max(1, ex.programs),
                "exhausted": ex.exhausted, "truncated": False}]
    else:
        res = run_parallel(args.tier, args.seed, build_work(args.tier, args.seed), budget)
    fails = []; known = []; cases = 0; distinct = set(); programs = exhausted = 0; truncated = False
    for r in res:
        if "error" in r:
            fails.append({"signature": {"clause": "error", "unit": "driver"}, "scenario": None, "observed": [r["error"]], "_i": -1}); continue
        cases += r["cases"]; distinct.update(r["distinct"]); fails += r["fail"]; known += r["known"]
        programs += r["programs"]; exhausted += r["exhausted"]; truncated = truncated or r["truncated"]
    out = {"cases": cases, "distinct": len(distinct), "failures": pick(fails), "known": pick(known),
           "bound": "%d programs (%d of them with ALL schedules enumerated); <= 5 concurrent units (asyncio tasks, fresh threads, reused 1-worker-pool "
                    "threads, preserve_context and copy_context hand-offs), block nesting <= 5, <= ~16 logging ops per program; per program DFS over "
                    "schedules up to a cap, then seeded-random schedules; pre-emption at every await (tasks) / before every logging call (threads)%s"
                    % (programs, exhausted, "; TIME-TRUNCATED" if truncated else ""),
           "rule": "scenario = (program, schedule). Programs: 3 parametrised families (shared-action context entered by several units x "
                   "construct x exit; pool thread reuse after each exit kind x construct; fan-out/nested spawn x construct x exit) enumerated by "
                   "product (seeded subset in quick) + seeded random programs from the grammar in the module docstring. Schedules: every choice of "
                   "next runnable unit at each pre-emption point. distinct = distinct (program, choices at decision points with >=2 runnable "
                   "units); scenarios with no such decision point are trivial and not counted as distinct"}
    print(json.dumps(out))

if __name__ == "__main__":
    main()
