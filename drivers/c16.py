"""Native driver for C16 (bounded-exhaustive + seeded-random; real code): loggers are safe to write to from many
threads at once.

How interleavings are forced (no sleeping, no reliance on the OS scheduler): every scenario runs 2..3 real threads
under a cooperative token-passing scheduler.  Exactly one managed thread runs at a time; it hands the token over
only at *yield points*:
  * every source line executed in a frame of eliot/_output.py (sys.settrace 'line' events; this is "source-line
    granularity inside the output layer"),
  * every acquisition of a lock owned by the logger under test (threading.Lock objects found on the instance, and
    the Lock factory in eliot._output, are replaced by a scheduler-aware lock with the same interface, so that a
    thread that would block is simply not schedulable instead of dead-locking the schedule),
  * every write()/flush() call on the "py" file kinds (a thin Python wrapper around a real file), which makes the
    file-level atomicity unit (one write call) a yield point regardless of how the source lines are laid out.
A schedule is the list of thread ids chosen at each point where more than one thread is schedulable.  Schedules are
enumerated by iterative context bounding (all schedules with 0, 1, 2, (3) preemptions; breadth first; preemptions
that only make the preempting thread run <=2 source lines and then block on a lock somebody else holds are skipped), capped per program, plus
seeded random walks.  A failure's "scenario" holds the program and the realised choice list and replays exactly.

Two scenario families:
  mem   one MemoryLogger; an optional sequential preload; 2..3 threads each running 1..3 operations out of
        write(kind) / flush_tracebacks(type) / reset / validate / serialize, where kind is a plain message, a typed
        message (serializer adds 1000 to field v, so in-place serialisation by validate() is observable), a typed
        message failing validation, a message that is not JSON-encodable, a traceback message of class EA or EB(EA)
        written directly, or a traceback written through the public write_traceback().
        Oracle (independent of eliot): (1) absolute invariants on the final state: messages/serializers same
        length, every message paired with the serializer it was written with, stored object is the written object
        and its content is f^n(original) for some n, nothing duplicated, without reset nothing missing and
        per-thread order kept, traceback list a duplicate-free sub-list of messages, every traceback either still
        listed or returned by exactly one flush, one failed-validation entry per invalid message; (2) full
        linearizability: the results of all operations (flush lists, validate verdict + the failures it quotes,
        serialize output) and the final state must equal those of SOME sequential order of the operations that
        respects program order and real-time precedence, according to a small sequential model in this file.
        Lock discipline problems surface as "deadlock" (no schedulable thread).
  file  one FileDestination over a real buffered binary file, a text file, an unbuffered binary file, BytesIO,
        StringIO, or the "py" wrappers; 2..3 threads each writing 1..3 messages either by calling the destination
        directly or through Logger.write() with a private Destinations holding the file destination, a list
        destination and global fields.  Message kinds: small, unicode/escapes, 20 kB payload, json_default types,
        typed (serializer), serializer failure, and one dict object shared by all threads.
        Oracle: file ends with a newline, no empty line, every line is exactly one JSON object, the multiset of
        lines equals the independently computed expectation (exactly once, intact), per-thread order kept, content
        already on disk before close, caller's dictionaries not mutated, list destination got each message once.

Prints one JSON line: {cases, distinct, failures:[{signature, scenario, observed}], known:[...], rule, bound}.

KNOWN_ON_UNCHANGED_TREE (genuine violations on the unchanged /repo; still detected, reported under "known"):
  (none found: the unchanged tree passes every clause for every explored interleaving)
"""
import argparse, copy, hashlib, io, json, os, random, re, sys, tempfile, threading, time, warnings

ap = argparse.ArgumentParser(); ap.add_argument("--tier", default="quick"); ap.add_argument("--seed", type=int, default=0)
ap.add_argument("--scenario"); args = ap.parse_args()
warnings.simplefilter("ignore")
T0 = time.time()
THOROUGH = args.tier == "thorough"
DEADLINE = T0 + (780 if THOROUGH else 31)

try:
    from eliot import MemoryLogger, MessageType, Field, ValidationError, write_traceback
    from eliot import _output
    from eliot._output import FileDestination, Destinations, Logger
    from eliot._traceback import TRACEBACK_MESSAGE
except Exception as _e:  # the tree under test cannot even be imported: report it in the protocol's shape
    print(json.dumps({"cases": 1, "distinct": 1, "known": [], "bound": "import", "rule": "import",
                      "failures": [{"signature": {"clause": "import_error"}, "scenario": {"fam": "import"},
                                    "observed": ["importing eliot raised %s: %s" % (type(_e).__name__, str(_e)[:200])]}]}))
    sys.exit(0)

KNOWN_SIGNATURES = []          # signature dicts that are genuine on the unchanged tree (none)

TRACED_FILES = {_output.__file__}
try:
    TRACED_FILES.add(Logger.write.__code__.co_filename)
except Exception:
    pass

def log(*a):
    print(*a, file=sys.stderr)

# ------------------------------------------------------------------------------------------- scheduler

_tls = threading.local()
_REAL_LOCK_TYPES = (type(threading.Lock()), type(threading.RLock()))


class DriverLockError(RuntimeError):
    pass


class SchedLock(object):
    """Drop-in for threading.Lock/RLock whose blocking is visible to the scheduler."""

    def __init__(self, reentrant=False):
        self.owner = None; self.count = 0; self.reentrant = reentrant; self.idx = -1

    def acquire(self, blocking=True, timeout=-1):
        s = getattr(_tls, "sched", None)
        if s is None:
            # unmanaged (sequential set-up in the main thread)
            if self.owner is not None and not (self.reentrant and self.owner == "main"):
                raise DriverLockError("lock is still held (by %r) in sequential code: would block forever" % (self.owner,))
            self.owner = "main"; self.count += 1
            return True
        me = _tls.idx
        if s.abort:
            self.owner = me; self.count += 1
            return True
        if not blocking or (timeout is not None and timeout >= 0 and blocking and timeout == 0):
            if self.owner is None or (self.reentrant and self.owner == me):
                self.owner = me; self.count += 1
                return True
            return False
        s.npos[me] += 1; s.kindlog[me].append(("want", self.idx))
        s.state[me] = "want"; s.want[me] = self
        s.switch(me)
        s.state[me] = "ready"; s.want[me] = None
        self.owner = me; self.count += 1
        return True

    def release(self):
        if self.count <= 0:
            raise RuntimeError("release unlocked lock")
        self.count -= 1
        if self.count == 0:
            self.owner = None

    def locked(self):
        return self.owner is not None

    def __enter__(self):
        self.acquire()
        return self

    def __exit__(self, *a):
        self.release()


class Sched(object):
    MAX_STEPS = 200000

    def __init__(self, n, choices, rng=None, pswitch=0.0, locks=()):
        self.n = n; self.choices = list(choices); self.pos = 0; self.rng = rng; self.pswitch = pswitch
        self.sems = [threading.Semaphore(0) for _ in range(n)]
        self.state = ["ready"] * n; self.want = [None] * n
        self.npos = [0] * n; self.kindlog = [[("start",)] for _ in range(n)]
        self.decisions = []; self.slices = []; self.steps = 0; self.ticks = 0
        self.abort = False; self.finished = threading.Event(); self.problems = []; self.mismatch = 0
        self.locks = locks            # live list: locks created during the run are appended by the factory

    def tick(self):
        self.ticks += 1
        return self.ticks

    def _enabled(self):
        out = []
        for t in range(self.n):
            st = self.state[t]
            if st == "ready":
                out.append(t)
            elif st == "want":
                lk = self.want[t]
                if lk.owner is None or (lk.reentrant and lk.owner == t):
                    out.append(t)
        return out

    def _decide(self, me):
        en = self._enabled()
        if not en:
            return None
        if len(en) == 1:
            return en[0]
        cur = me if (me is not None and me in en) else None
        default = cur if cur is not None else en[0]
        if self.pos < len(self.choices):
            nxt = self.choices[self.pos]
            if nxt not in en:
                self.mismatch += 1; nxt = default
        elif self.rng is not None:
            if cur is not None and self.rng.random() >= self.pswitch:
                nxt = cur
            else:
                nxt = self.rng.choice([t for t in en if t != cur] or en)
        else:
            nxt = default
        self.pos += 1
        self.decisions.append({"chosen": nxt, "enabled": en, "cur": cur, "posn": dict((t, self.npos[t]) for t in en),
                               "held": dict((l.idx, l.owner) for l in self.locks if l.owner is not None)})
        return nxt

    def switch(self, me):
        if self.abort:
            return
        self.steps += 1
        if self.steps > self.MAX_STEPS:
            self.problems.append(("livelock", "more than %d scheduling steps" % self.MAX_STEPS)); self._abort()
            return
        nxt = self._decide(me)
        if nxt is None:
            if all(s == "done" for s in self.state):
                self.finished.set()
                return
            stuck = ["T%d waits for lock#%d held by %r" % (t, self.want[t].idx, self.want[t].owner)
                     for t in range(self.n) if self.state[t] == "want"]
            self.problems.append(("deadlock", "no schedulable thread: " + "; ".join(stuck))); self._abort()
            return
        if nxt == me:
            return
        self.slices.append((nxt, self.npos[nxt]))
        self.sems[nxt].release()
        if me is not None and self.state[me] != "done":
            self.sems[me].acquire()

    def _abort(self):
        self.abort = True
        for s in self.sems:
            for _ in range(4):
                s.release()
        self.finished.set()

    def yield_here(self, me, what):
        if self.abort:
            return
        self.npos[me] += 1; self.kindlog[me].append(what)
        self.switch(me)

    def make_tracer(self, me):
        sched = self

        def local(frame, event, arg):
            if event == "line":
                sched.yield_here(me, ("line", frame.f_lineno))
            return local

        def tracer(frame, event, arg):
            if frame.f_code.co_filename in TRACED_FILES:
                return local
            return None
        return tracer


def ext_yield(what):
    s = getattr(_tls, "sched", None)
    if s is not None:
        s.yield_here(_tls.idx, (what,))


class PoolWorker(object):
    """A reusable daemon thread (thread creation is the dominant cost of a run otherwise)."""

    def __init__(self, k):
        self.job = None; self.job_sem = threading.Semaphore(0); self.done_sem = threading.Semaphore(0); self.dead = False
        self.thread = threading.Thread(target=self.loop, name="c16-W%d" % k, daemon=True)
        self.thread.start()

    def loop(self):
        while True:
            self.job_sem.acquire()
            fn = self.job; self.job = None
            if fn is None:
                return
            try:
                fn()
            finally:
                self.done_sem.release()


POOL = []


def pool_get(n):
    for k in range(len(POOL)):
        if POOL[k].dead or not POOL[k].thread.is_alive():
            POOL[k] = PoolWorker(k)
    while len(POOL) < n:
        POOL.append(PoolWorker(len(POOL)))
    return POOL[:n]


def pool_shutdown():
    for w in POOL:
        if not w.dead:
            w.job = None; w.job_sem.release()
    for w in POOL:
        if not w.dead:
            w.thread.join(2)
    del POOL[:]


def run_threads(n, body, choices, rng, pswitch, locks):
    s = Sched(n, choices, rng, pswitch, locks)

    def worker(i):
        _tls.sched = s; _tls.idx = i
        s.sems[i].acquire()
        try:
            if not s.abort:
                sys.settrace(s.make_tracer(i))
            body(s, i)
        except BaseException as e:
            s.problems.append(("driver_thread_crash", "thread %d: %s: %s" % (i, type(e).__name__, str(e)[:200])))
        finally:
            sys.settrace(None)
            s.state[i] = "done"; s.npos[i] += 1; s.kindlog[i].append(("done",))
            s.switch(i)
            _tls.sched = None

    ws = pool_get(n)
    for i, w in enumerate(ws):
        w.job = (lambda i=i: worker(i)); w.job_sem.release()
    s.switch(None)
    if not s.finished.wait(8):
        s.problems.append(("hang", "threads did not finish within 8s (blocked outside the scheduler's control)"))
        s._abort()
    for i, w in enumerate(ws):
        if not w.done_sem.acquire(timeout=3):
            w.dead = True
            s.problems.append(("hang", "thread %d never returned" % i))
    return s


FUTILE_LOOKAHEAD = 2


def futile(s, d, alt):
    """Would scheduling `alt` at decision d only make it block on a lock held by somebody else?"""
    p = d["posn"].get(alt)
    if p is None or s.kindlog[alt][p][0] == "want":
        return False
    log_ = s.kindlog[alt]
    for j in range(p + 1, min(p + 2 + FUTILE_LOOKAHEAD, len(log_))):
        nxt = log_[j]
        if nxt[0] == "line":
            continue          # (at most FUTILE_LOOKAHEAD source lines before it reaches the lock)
        if nxt[0] != "want":
            return False
        owner = d["held"].get(nxt[1])
        return owner is not None and owner != alt
    return False

# ------------------------------------------------------------------------------------------- mem family


class EA(Exception):
    pass


class EB(EA):
    pass


EXC = {"EA": EA, "EB": EB}
OPAQUE = object()
MARK = re.compile(r"MARK(\d+)K")


def _ser_v(v):
    if not isinstance(v, int) or isinstance(v, bool):
        raise ValidationError(v, "not int")
    return v + 1000


SER_T = MessageType("c16:t", [Field("c16id", lambda v: v, "id"), Field("v", _ser_v, "v")])._serializer
SER_TB = TRACEBACK_MESSAGE._serializer
TB_KINDS = ("xa", "xb", "w")
BAD_KINDS = ("b", "j")
KIND_EXC = {"xa": EA, "xb": EB, "w": EB}
MEM_OPS = [["w", "p"], ["w", "t"], ["w", "b"], ["w", "j"], ["w", "xa"], ["w", "xb"], ["w", "w"],
           ["flush", "EA"], ["flush", "EB"], ["reset"], ["validate"], ["serialize"]]


def mem_well_specified(pre, threads):
    ops = list(pre) + [o for t in threads for o in t]
    kinds = [o[1] for o in ops if o[0] == "w"]
    nval = sum(1 for o in ops if o[0] == "validate"); nser = sum(1 for o in ops if o[0] == "serialize")
    has_tb = any(k in TB_KINDS for k in kinds)
    if nser and any(k not in ("t",) + TB_KINDS for k in kinds):
        return False          # serialize() of a serializer-less / invalid message is unspecified (raises)
    if has_tb and (nval > 1 or (nval and nser)):
        return False          # re-serialising an already in-place-serialised traceback is unspecified (raises)
    return True


class Registry(object):
    """All messages of one mem scenario: originals, serializers, identity maps, expected contents."""

    def __init__(self, pre, threads):
        self.kind = {}; self.dicts = {}; self.sers = {}; self.excs = {}; self.byid = {}; self.byexc = {}; self.orig = {}
        self.opmid = {}         # (where, k) -> mid ; where = "pre" or thread index
        mid = 0
        for where, ops in [("pre", pre)] + list(enumerate(threads)):
            for k, op in enumerate(ops):
                if op[0] != "w":
                    continue
                mid += 1
                self.opmid[(where, k)] = mid
                self._build(op[1], mid)
        self.thread_mids = [[self.opmid[(i, k)] for k, op in enumerate(ops) if op[0] == "w"] for i, ops in enumerate(threads)]
        self.pre_mids = [self.opmid[("pre", k)] for k, op in enumerate(pre) if op[0] == "w"]

    def _build(self, kind, mid):
        base = {"task_uuid": "c16-uuid-%d" % mid, "task_level": [1], "timestamp": 1000.0 + mid}
        self.kind[mid] = kind
        d = None; ser = None
        if kind == "p":
            d = dict(base, message_type="c16:p", c16id=mid, payload="plain-%d" % mid)
        elif kind == "t":
            d = dict(base, message_type="c16:t", c16id=mid, v=mid * 7); ser = SER_T
        elif kind == "b":
            d = dict(base, message_type="c16:t", c16id=mid, v="MARK%dK" % mid); ser = SER_T
        elif kind == "j":
            d = dict(base, message_type="c16:j", c16id=mid, payload="MARK%dK" % mid, blob=OPAQUE)
        elif kind in ("xa", "xb"):
            e = KIND_EXC[kind]("MARK%dK" % mid); self.excs[mid] = e; self.byexc[id(e)] = mid
            d = dict(base, message_type="eliot:traceback", reason=e, traceback="tb-%d" % mid, exception=type(e)); ser = SER_TB
        elif kind == "w":
            e = KIND_EXC[kind]("MARK%dK" % mid); self.excs[mid] = e; self.byexc[id(e)] = mid; ser = SER_TB
        else:
            raise ValueError(kind)
        self.dicts[mid] = d; self.sers[mid] = ser
        if d is not None:
            self.byid[id(d)] = mid
        self.orig[mid] = dict(d) if d is not None else None

    def ident(self, d):
        if not isinstance(d, dict):
            return None
        m = self.byid.get(id(d))
        if m is not None:
            return m
        r = d.get("reason")
        if isinstance(r, BaseException) and id(r) in self.byexc:
            return self.byexc[id(r)]
        if isinstance(r, str):
            g = MARK.search(r)
            if g and int(g.group(1)) in self.kind:
                return int(g.group(1))
        c = d.get("c16id")
        if isinstance(c, int) and c in self.kind:
            return c
        return None

    def matches(self, d, mid, n):
        """Is d exactly message `mid` after n in-place serialisations?"""
        kind = self.kind[mid]
        if kind in ("p", "b", "j"):
            return n == 0 and d == self.orig[mid]
        if kind == "t":
            e = dict(self.orig[mid]); e["v"] = e["v"] + 1000 * n
            return d == e and type(d.get("v")) is int
        cls = KIND_EXC[kind]
        if n > 1:
            return False
        if kind in ("xa", "xb"):
            e = dict(self.orig[mid])
            if n == 1:
                e["reason"] = "MARK%dK" % mid; e["exception"] = "%s.%s" % (cls.__module__, cls.__name__)
            return d == e and (n == 1 or d.get("reason") is self.excs[mid])
        # "w": created inside eliot by write_traceback
        if set(d) != {"task_uuid", "task_level", "timestamp", "message_type", "reason", "traceback", "exception"}:
            return False
        if d["message_type"] != "eliot:traceback" or d["task_level"] != [1] or not isinstance(d["task_uuid"], str):
            return False
        if not isinstance(d["timestamp"], float) or not isinstance(d["traceback"], str) or ("MARK%dK" % mid) not in d["traceback"]:
            return False
        if n == 0:
            return d["reason"] is self.excs[mid] and d["exception"] is cls
        return d["reason"] == "MARK%dK" % mid and d["exception"] == "%s.%s" % (cls.__module__, cls.__name__)

    def classify(self, d):
        mid = self.ident(d)
        if mid is None:
            return ("?", "unknown")
        for n in range(0, 6):
            if self.matches(d, mid, n):
                return (mid, n)
        return (mid, "corrupt")


def markers(text):
    return [int(x) for x in MARK.findall(text)]


class Model(object):
    """Sequential reference semantics of a MemoryLogger (written from the documentation, not from the code)."""

    def __init__(self, reg):
        self.reg = reg; self.msgs = []; self.tbs = []; self.failed = []; self.nser = {}

    def clone(self):
        m = Model(self.reg); m.msgs = list(self.msgs); m.tbs = list(self.tbs); m.failed = list(self.failed); m.nser = dict(self.nser)
        return m

    def key(self):
        return (tuple(self.msgs), tuple(self.tbs), tuple(self.failed), tuple(sorted(self.nser.items())))

    def final(self):
        return ([(m, self.nser[m]) for m in self.msgs], list(self.tbs), list(self.failed))

    def apply(self, op, mid):
        kind = self.reg.kind
        if op[0] == "w":
            if kind[mid] in BAD_KINDS:
                self.failed.append(mid)
            self.msgs.append(mid); self.nser[mid] = 0
            if kind[mid] in TB_KINDS:
                self.tbs.append(mid)
            return ("ok",)
        if op[0] == "flush":
            cls = EXC[op[1]]
            hit = [m for m in self.tbs if self.nser[m] == 0 and issubclass(KIND_EXC[kind[m]], cls)]
            self.tbs = [m for m in self.tbs if m not in hit]
            return ("ok", hit)
        if op[0] == "reset":
            self.msgs = []; self.tbs = []; self.failed = []
            return ("ok",)
        if op[0] == "validate":
            for m in self.msgs:
                if kind[m] == "b":
                    return ("raise", "ValidationError", list(self.failed))
                if kind[m] == "j":
                    return ("raise", "TypeError", list(self.failed))
                if kind[m] != "p":
                    if kind[m] in TB_KINDS and self.nser[m] >= 1:
                        raise AssertionError("driver generated an unspecified program (validate twice over a traceback)")
                    self.nser[m] += 1
            return ("ok",)
        if op[0] == "serialize":
            out = []
            for m in self.msgs:
                if kind[m] in ("p", "b", "j") or (kind[m] in TB_KINDS and self.nser[m] >= 1):
                    raise AssertionError("driver generated an unspecified program (serialize)")
                out.append((m, self.nser[m] + 1))
            return ("ok", out)
        raise ValueError(op)


def do_mem_op(logger, reg, op, mid):
    if op[0] == "w":
        if op[1] == "w":
            r = write_traceback(logger, exc_info=(type(reg.excs[mid]), reg.excs[mid], None))
        else:
            r = logger.write(reg.dicts[mid], reg.sers[mid])
        return ("ok",) if r is None else ("returned", repr(r)[:60])
    if op[0] == "flush":
        r = (logger.flushTracebacks if op[1] == "EA" else logger.flush_tracebacks)(EXC[op[1]])
        return ("ok", [reg.ident(d) or "?" for d in r])
    if op[0] == "reset":
        r = logger.reset()
        return ("ok",) if r is None else ("returned", repr(r)[:60])
    if op[0] == "validate":
        try:
            r = logger.validate()
        except (TypeError, ValidationError) as e:
            return ("raise", type(e).__name__, markers(str(e)))
        return ("ok",) if r is None else ("returned", repr(r)[:60])
    if op[0] == "serialize":
        r = logger.serialize()
        out = []
        for d in r:
            c = reg.classify(d)
            if isinstance(d, dict) and id(d) in reg.byid:
                c = (c[0], "aliased")
            out.append(c)
        return ("ok", out)
    raise ValueError(op)


class patched_locks(object):
    """While active, locks created by eliot._output (its `Lock`/`RLock` names) are scheduler-aware ones."""

    def __init__(self):
        self.created = []; self.saved = {}

    def _factory(self, reentrant):
        def factory(*a, **k):
            l = SchedLock(reentrant); l.idx = len(self.created); self.created.append(l)
            return l
        return factory

    def adopt(self, obj):
        """Replace real lock objects stored on obj by scheduler-aware ones."""
        for name, val in list(getattr(obj, "__dict__", {}).items()):
            if isinstance(val, _REAL_LOCK_TYPES):
                setattr(obj, name, self._factory(isinstance(val, _REAL_LOCK_TYPES[1]))())

    def __enter__(self):
        for name, reentrant in (("Lock", False), ("RLock", True)):
            if hasattr(_output, name):
                self.saved[name] = getattr(_output, name); setattr(_output, name, self._factory(reentrant))
        return self

    def __exit__(self, *a):
        for name, val in self.saved.items():
            setattr(_output, name, val)


def run_mem(prog, choices, rng=None, pswitch=0.0):
    """Returns (sched, problems, realised choices). problems: list of (clause, text)."""
    with patched_locks() as pl:
        return _run_mem(prog, choices, rng, pswitch, pl)


def _run_mem(prog, choices, rng, pswitch, pl):
    pre = prog.get("pre", []); threads = prog["threads"]
    reg = Registry(pre, threads)
    logger = MemoryLogger()
    pl.adopt(logger)
    locks = pl.created
    problems = []
    model0 = Model(reg)
    try:
        for k, op in enumerate(pre):
            mid = reg.opmid.get(("pre", k))
            got = do_mem_op(logger, reg, op, mid)
            exp = model0.apply(op, mid)
            if got != exp:
                problems.append(("sequential_preload", "preload op %r gave %r, sequential model says %r" % (op, got, exp)))
    except DriverLockError as e:
        return None, [("deadlock", "sequential preload: %s" % e)], []
    except Exception as e:
        return None, [("sequential_preload", "preload raised %s: %s" % (type(e).__name__, str(e)[:150]))], []
    obs = [[] for _ in threads]

    def body(s, i):
        for k, op in enumerate(threads[i]):
            mid = reg.opmid.get((i, k))
            st = s.tick()
            try:
                res = do_mem_op(logger, reg, op, mid)
            except Exception as e:
                res = ("raise", type(e).__name__, str(e)[:80])
            obs[i].append((st, s.tick(), res))

    s = run_threads(len(threads), body, choices, rng, pswitch, locks)
    realised = [d["chosen"] for d in s.decisions]
    for p in s.problems:
        problems.append(p)
    if s.problems:
        return s, problems, realised
    problems += check_mem(prog, reg, logger, obs, model0)
    return s, problems, realised


def check_mem(prog, reg, logger, obs, model0):
    problems = []
    threads = prog["threads"]
    has_reset = any(op[0] == "reset" for t in threads for op in t)
    msgs = list(getattr(logger, "messages", [])); sers = list(getattr(logger, "serializers", []))
    tbs = list(getattr(logger, "tracebackMessages", [])); failed = list(getattr(logger, "_failed_validations", []))
    cls = [reg.classify(d) for d in msgs]
    ids = [c[0] for c in cls]
    # -- unexpected exceptions / return values
    for i, t in enumerate(obs):
        for k, (st, en, res) in enumerate(t):
            if res[0] == "returned":
                problems.append(("exception", "T%d op %r returned %s" % (i, threads[i][k], res[1])))
            if res[0] == "raise" and not (threads[i][k][0] == "validate" and res[1] in ("TypeError", "ValidationError") and isinstance(res[2], list)):
                problems.append(("exception", "T%d op %r raised %s: %s" % (i, threads[i][k], res[1], res[2])))
    # -- clause: each message paired with its own serializer
    if len(msgs) != len(sers):
        problems.append(("pairing", "len(messages)=%d but len(serializers)=%d" % (len(msgs), len(sers))))
    for i, (d, sz) in enumerate(zip(msgs, sers)):
        m = ids[i]
        if m != "?" and sz is not reg.sers[m]:
            problems.append(("pairing", "messages[%d] is message #%d (kind %s) but serializers[%d] is not the serializer it was written with" % (i, m, reg.kind[m], i)))
            break
    # -- clause: recorded exactly once and intact
    for i, c in enumerate(cls):
        if c[0] == "?":
            problems.append(("intact", "messages[%d] is not a message anybody wrote: %r" % (i, repr(msgs[i])[:80])))
        elif c[1] == "corrupt":
            problems.append(("intact", "messages[%d] (message #%d, kind %s) has corrupted content %r" % (i, c[0], reg.kind[c[0]], repr(msgs[i])[:120])))
        elif reg.dicts[c[0]] is not None and msgs[i] is not reg.dicts[c[0]]:
            problems.append(("intact", "messages[%d] is not the dictionary object that was written" % i))
    known_ids = [m for m in ids if m != "?"]
    if len(set(known_ids)) != len(known_ids):
        problems.append(("exactly_once", "a message is recorded more than once: ids %r" % (ids,)))
    if not has_reset:
        want = set(reg.kind)
        if set(known_ids) != want:
            problems.append(("exactly_once", "written messages %r but recorded %r (missing %r)" % (sorted(want), ids, sorted(want - set(known_ids)))))
        for i, tm in enumerate(reg.thread_mids):
            seq = [m for m in ids if m in tm]
            if seq != tm and set(seq) == set(tm):
                problems.append(("exactly_once", "thread %d wrote %r in that order but they are recorded as %r" % (i, tm, seq)))
    # -- clause: traceback list consistent
    tb_ids = [reg.ident(d) or "?" for d in tbs]
    msg_obj = set(id(d) for d in msgs)
    flushed = []
    for i, t in enumerate(obs):
        for k, (st, en, res) in enumerate(t):
            if threads[i][k][0] == "flush" and res[0] == "ok":
                flushed += res[1]
    if len(set(tb_ids)) != len(tb_ids):
        problems.append(("traceback_list", "tracebackMessages holds a message twice: %r" % (tb_ids,)))
    for d, m in zip(tbs, tb_ids):
        if id(d) not in msg_obj:
            problems.append(("traceback_list", "tracebackMessages holds message #%s which is not in messages (messages=%r)" % (m, ids)))
            break
        if m != "?" and reg.kind[m] not in TB_KINDS:
            problems.append(("traceback_list", "tracebackMessages holds non-traceback message #%s" % m))
    both = flushed + tb_ids
    if len(set(both)) != len(both):
        problems.append(("traceback_list", "a traceback was flushed twice or flushed and still listed: flushed %r, listed %r" % (flushed, tb_ids)))
    if not has_reset:
        for m in known_ids:
            if reg.kind[m] in TB_KINDS and m not in both:
                problems.append(("traceback_list", "traceback message #%d is recorded in messages but is neither in tracebackMessages nor in any flush result (lost)" % m))
    # -- failed validations: one entry per invalid message
    f_ids = []
    for entry in failed:
        got = sorted(set(markers(str(entry))))
        f_ids.append(got[0] if len(got) == 1 else "?")
    if not has_reset:
        want = sorted(m for m in reg.kind if reg.kind[m] in BAD_KINDS)
        if sorted(map(str, f_ids)) != sorted(map(str, want)):
            problems.append(("failed_validations", "invalid messages written: %r, failed-validation entries for: %r" % (want, f_ids)))
    # -- linearizability
    final = ([tuple(c) for c in cls], tb_ids, f_ids)
    if not linearizable(reg, threads, obs, model0, final):
        desc = []
        for i, t in enumerate(obs):
            desc.append("T%d: " % i + ", ".join("%s->%s@[%d,%d]" % ("/".join(map(str, threads[i][k])), _short(res), st, en) for k, (st, en, res) in enumerate(t)))
        problems.append(("not_linearizable", "no sequential order of the operations explains results+final state; " + " | ".join(desc) +
                         " | final messages(id,times serialised)=%r tracebacks=%r failed=%r" % (final[0], tb_ids, f_ids)))
    return problems


def _short(res):
    return json.dumps(res, default=str)[:90]


def linearizable(reg, threads, obs, model0, final):
    n = len(threads)
    memo = set()
    want_final = ([tuple(x) for x in final[0]], list(final[1]), list(final[2]))

    def rec(idx, model):
        key = (idx, model.key())
        if key in memo:
            return False
        memo.add(key)
        pend = [t for t in range(n) if idx[t] < len(threads[t])]
        if not pend:
            f = model.final()
            return ([tuple(x) for x in f[0]], f[1], f[2]) == want_final
        for t in pend:
            st = obs[t][idx[t]][0]
            if any(u != t and obs[u][idx[u]][1] < st for u in pend):
                continue      # real-time order: another pending op finished before this one started
            m2 = model.clone()
            op = threads[t][idx[t]]
            exp = m2.apply(op, reg.opmid.get((t, idx[t])))
            got = obs[t][idx[t]][2]
            if _norm(exp) != _norm(got):
                continue
            nidx = idx[:t] + (idx[t] + 1,) + idx[t + 1:]
            if rec(nidx, m2):
                return True
        return False
    return rec((0,) * n, model0.clone())


def _norm(r):
    return json.loads(json.dumps(r, default=str))

# ------------------------------------------------------------------------------------------- file family

FILE_KINDS = ["wb", "w", "wb0", "bio", "sio", "pyb", "pyt"]
SER_FT = MessageType("c16:ft", [Field("c16id", lambda v: v, "id"), Field("v", _ser_v, "v"), Field("thread", lambda v: v, "t")])._serializer
SHARED_ID = 9999


class PyFile(object):
    """Pure-Python file object around a real file; each write()/flush() call is a scheduling point."""

    def __init__(self, real):
        self._real = real

    def write(self, data):
        ext_yield("file.write")
        return self._real.write(data)

    def flush(self):
        ext_yield("file.flush")
        return self._real.flush()


def file_msg(kind, mid, thread, mode):
    """-> (dict to write, serializer or None, expected logged dict (JSON types) or None for 'sf')"""
    base = {"task_uuid": "c16-uuid-%d" % mid, "task_level": [1], "timestamp": 1.5, "c16id": mid, "thread": thread}
    ser = None
    if kind == "s":
        d = dict(base, message_type="c16:s", payload="x" * 10); exp = dict(d)
    elif kind == "u":
        d = dict(base, message_type="c16:u", payload="hé☃ \"quoted\" \n newline \\ backslash  ", nested={"a": [1, 2, {"b": None}]}); exp = copy.deepcopy(d)
    elif kind == "L":
        d = dict(base, message_type="c16:L", payload="L%d" % mid + "z" * 20000); exp = dict(d)
    elif kind == "d":
        d = dict(base, message_type="c16:d", c=complex(1, 2), s={7}); exp = dict(base, message_type="c16:d", c={"real": 1.0, "imag": 2.0}, s=[7])
    elif kind == "t":
        d = dict(base, message_type="c16:ft", v=mid * 3); exp = dict(d)
        if mode == "logger":
            ser = SER_FT; exp["v"] = mid * 3 + 1000
    elif kind == "sf":
        d = dict(base, message_type="c16:ft", v="MARK%dK" % mid); exp = dict(d)
        if mode == "logger":
            ser = SER_FT; exp = None
    else:
        raise ValueError(kind)
    return d, ser, exp


def run_file(prog, choices, rng=None, pswitch=0.0):
    with patched_locks() as pl:
        return _run_file(prog, choices, rng, pswitch, pl)


def _run_file(prog, choices, rng, pswitch, pl):
    fkind = prog["file"]; mode = prog["mode"]; threads = prog["threads"]
    problems = []
    path = None; f = None; real = None
    if fkind in ("wb", "w", "wb0", "pyb", "pyt"):
        fd, path = tempfile.mkstemp(prefix="c16drv"); os.close(fd)
    try:
        if fkind == "wb":
            f = real = open(path, "wb")
        elif fkind == "w":
            f = real = open(path, "w", encoding="utf-8", newline="")
        elif fkind == "wb0":
            f = real = open(path, "wb", buffering=0)
        elif fkind == "bio":
            f = real = io.BytesIO()
        elif fkind == "sio":
            f = real = io.StringIO(newline="")
        elif fkind == "pyb":
            real = open(path, "wb"); f = PyFile(real)
        elif fkind == "pyt":
            real = open(path, "w", encoding="utf-8", newline=""); f = PyFile(real)
        else:
            raise ValueError(fkind)
        dest = FileDestination(file=f)
        pl.adopt(dest)
        got = []
        lg = None
        if mode == "logger":
            dests = Destinations(); dests.addGlobalFields(c16host="h1"); dests.add(dest, got.append)
            lg = Logger(); lg._destinations = dests
            pl.adopt(dests); pl.adopt(lg)
        shared = {"task_uuid": "c16-shared", "task_level": [1], "timestamp": 2.5, "c16id": SHARED_ID, "thread": -1, "message_type": "c16:ft", "v": 5}
        shared_exp = dict(shared)
        if mode == "logger":
            shared_exp["v"] = 1005
        plan = []; expected = []; snapshots = []; sf_ids = []
        mid = 0
        for ti, kinds in enumerate(threads):
            row = []
            for kind in kinds:
                mid += 1
                if kind == "sh":
                    d, ser, exp = shared, (SER_FT if mode == "logger" else None), shared_exp
                else:
                    d, ser, exp = file_msg(kind, mid, ti, mode)
                row.append((d, ser, kind, mid))
                snapshots.append((d, copy.deepcopy(d), kind, mid))
                if exp is None:
                    sf_ids.append(mid)
                else:
                    e = dict(exp)
                    if mode == "logger":
                        e["c16host"] = "h1"
                    expected.append(e)
            plan.append(row)
        errors = []

        def body(s, i):
            for d, ser, kind, m in plan[i]:
                try:
                    r = dest(d) if mode == "direct" else lg.write(d, ser)
                    if r is not None:
                        errors.append("T%d write of #%d returned %r" % (i, m, r))
                except Exception as e:
                    errors.append("T%d write of #%d (%s) raised %s: %s" % (i, m, kind, type(e).__name__, str(e)[:100]))

        s = run_threads(len(threads), body, choices, rng, pswitch, pl.created)
        realised = [d["chosen"] for d in s.decisions]
        if s.problems:
            return s, list(s.problems), realised
        for e in errors:
            problems.append(("exception", e))
        # content visible before close?
        if path is not None:
            with open(path, "rb") as g:
                before_close = g.read()
        else:
            before_close = None
        if fkind == "bio":
            raw = real.getvalue()
        elif fkind == "sio":
            raw = real.getvalue().encode("utf-8")
        else:
            real.close()
            with open(path, "rb") as g:
                raw = g.read()
        if before_close is not None and before_close != raw:
            problems.append(("unflushed", "after every write returned the file on disk held %d bytes, after close %d bytes" % (len(before_close), len(raw))))
        problems += check_file(prog, raw, expected, sf_ids, plan, got if mode == "logger" else None)
        for d, snap, kind, m in snapshots:
            if d != snap:
                problems.append(("mutated_input", "the dictionary passed for message #%d (%s) was mutated: %r" % (m, kind, repr(d)[:120])))
                break
        return s, problems, realised
    finally:
        try:
            if real is not None and not real.closed:
                real.close()
        except Exception:
            pass
        if path is not None:
            try:
                os.unlink(path)
            except OSError:
                pass


def _canon(d):
    return json.dumps(d, sort_keys=True)


def check_file(prog, raw, expected, sf_ids, plan, got):
    problems = []
    nexp = len(expected) + 2 * len(sf_ids)
    if nexp and not raw.endswith(b"\n"):
        problems.append(("torn_or_merged", "file does not end with a line break: ...%r" % raw[-60:]))
    lines = raw.split(b"\n")
    if lines and lines[-1] == b"":
        lines = lines[:-1]
    parsed = []
    for ln in lines:
        if ln == b"":
            problems.append(("torn_or_merged", "empty line in the log file (%d lines, %d messages written)" % (len(lines), nexp)))
            continue
        try:
            o = json.loads(ln.decode("utf-8"))
            if not isinstance(o, dict):
                raise ValueError("not an object")
        except ValueError:
            problems.append(("torn_or_merged", "line is not exactly one JSON object: %r%s" % (ln[:100], "..." if len(ln) > 100 else "")))
            continue
        parsed.append(o)
    problems += compare_delivery("file", parsed, expected, sf_ids, plan)
    if got is not None:
        if any(not isinstance(g, dict) for g in got):
            problems.append(("dropped_or_duplicated", "list destination received a non-dict"))
        else:
            try:
                norm = [json.loads(json.dumps(g, default=_jd)) for g in got]
            except Exception as e:
                norm = None
                problems.append(("intact", "list destination received something unexpected: %s" % e))
            if norm is not None:
                problems += compare_delivery("list destination", norm, expected, sf_ids, plan)
    return problems[:6]


def _jd(o):
    if isinstance(o, complex):
        return {"real": o.real, "imag": o.imag}
    if isinstance(o, set):
        return list(o)
    raise TypeError


def compare_delivery(where, parsed, expected, sf_ids, plan):
    problems = []
    rest = []
    sf_tb = {}; sf_fail = {}
    for o in parsed:
        mt = o.get("message_type")
        if mt == "eliot:traceback":
            for m in set(markers(str(o.get("reason", "")))):
                sf_tb[m] = sf_tb.get(m, 0) + 1
        elif mt == "eliot:serialization_failure":
            for m in set(markers(str(o.get("message", "")))):
                sf_fail[m] = sf_fail.get(m, 0) + 1
        else:
            rest.append(o)
    for m in sf_ids:
        if sf_tb.get(m, 0) != 1 or sf_fail.get(m, 0) != 1:
            problems.append(("dropped_or_duplicated", "%s: serializer failure of message #%d reported by %d traceback and %d serialization_failure messages (want 1 and 1)" % (where, m, sf_tb.get(m, 0), sf_fail.get(m, 0))))
    if set(sf_tb) - set(sf_ids) or set(sf_fail) - set(sf_ids):
        problems.append(("dropped_or_duplicated", "%s: unexpected failure reports" % where))
    a = sorted(_canon(o) for o in rest); b = sorted(_canon(json.loads(json.dumps(e))) for e in expected)
    if a != b:
        ids_got = sorted(o.get("c16id", "?") for o in rest if isinstance(o.get("c16id", 0), int)); ids_exp = sorted(e["c16id"] for e in expected)
        if ids_got != ids_exp:
            problems.append(("dropped_or_duplicated", "%s: message ids written %r but ids present %r" % (where, ids_exp, ids_got)))
        else:
            bad = [x for x in a if x not in b][:1]
            problems.append(("intact", "%s: a delivered message differs from what was written: %s" % (where, bad[0][:160] if bad else "?")))
    for ti, row in enumerate(plan):
        want = [m for (d, ser, kind, m) in row if kind not in ("sh",) and m not in sf_ids]
        seq = [o.get("c16id") for o in rest if o.get("thread") == ti and o.get("c16id") != SHARED_ID]
        if sorted(seq) == sorted(want) and seq != want:
            problems.append(("order", "%s: thread %d wrote %r but its lines appear as %r" % (where, ti, want, seq)))
    return problems

# ------------------------------------------------------------------------------------------- exploration

RUNNERS = {"mem": run_mem, "file": run_file}


class Stats(object):
    def __init__(self):
        self.cases = 0; self.seen = set(); self.failures = []; self.known = []; self.failing_runs = 0; self.sigs = set()
        self.maxpre = 0; self.programs = 0

    def stop(self):
        return len(self.failures) >= 5 or self.failing_runs >= 60 or time.time() > DEADLINE


def record(stats, prog, s, problems, realised):
    stats.cases += 1
    pkey = json.dumps(prog, sort_keys=True)
    stats.seen.add(hashlib.md5((pkey + repr(s.slices if s is not None else "setup")).encode("utf-8")).digest())
    if not problems:
        return
    stats.failing_runs += 1
    clause = problems[0][0]
    sig = {"family": prog["fam"], "clause": clause}
    if prog["fam"] == "file":
        sig["mode"] = prog["mode"]
    sc = dict(prog); sc["choices"] = rle(realised)
    entry = {"signature": sig, "scenario": sc, "observed": [("%s: %s" % p)[:400] for p in problems[:4]]}
    target = stats.known if sig in KNOWN_SIGNATURES else stats.failures
    if sum(1 for e in target if e["signature"] == sig) >= 2:
        return                    # at most two examples per signature
    if len(target) < 5:
        target.append(entry)


def rle(choices):
    out = []
    for c in choices:
        if out and out[-1][0] == c:
            out[-1][1] += 1
        else:
            out.append([c, 1])
    return out


def unrle(r):
    out = []
    for item in r:
        if isinstance(item, list):
            out += [item[0]] * item[1]
        else:
            out.append(item)
    return out


def safe_runner(fam):
    inner = RUNNERS[fam]

    def run(prog, choices, rng=None, pswitch=0.0):
        try:
            return inner(prog, choices, rng, pswitch)
        except DriverLockError as e:
            return None, [("deadlock", "sequential set-up: %s" % e)], []
        except Exception as e:
            return None, [("setup_exception", "%s: %s" % (type(e).__name__, str(e)[:200]))], []
    return run


def explore(stats, prog, cap, pbound, nrandom, rng):
    runner = safe_runner(prog["fam"])
    stats.programs += 1
    levels = [[] for _ in range(pbound + 2)]
    levels[0].append([])
    runs = 0
    for lvl in range(pbound + 1):
        q = levels[lvl]
        if len(q) > cap - runs:
            rng.shuffle(q)
        qi = 0
        while qi < len(q) and runs < cap and not stats.stop():
            prefix = q[qi]; qi += 1
            s, problems, realised = runner(prog, prefix)
            runs += 1
            record(stats, prog, s, problems, realised)
            if s is None:
                return
            stats.maxpre = max(stats.maxpre, lvl)
            decs = s.decisions
            for i in range(len(prefix), len(decs)):
                d = decs[i]
                for alt in d["enabled"]:
                    if alt == d["chosen"]:
                        continue
                    c = lvl + (1 if (d["cur"] is not None and alt != d["cur"]) else 0)
                    if c > pbound or futile(s, d, alt):
                        continue
                    levels[c].append([x["chosen"] for x in decs[:i]] + [alt])
    if os.environ.get("C16_DEBUG"):
        log("prog %s runs=%d levels=%r t=%.1f" % (json.dumps(prog)[:150], runs, [len(l) for l in levels], time.time() - T0))
    for r in range(nrandom):
        if stats.stop():
            break
        r2 = random.Random(rng.random())
        s, problems, realised = runner(prog, [], r2, r2.choice([0.05, 0.15, 0.3, 0.5]))
        record(stats, prog, s, problems, realised)


def mem_programs(rng):
    progs = []
    # A: every unordered pair of operations, one per thread, over a preloaded logger
    for i in range(len(MEM_OPS)):
        for j in range(i, len(MEM_OPS)):
            threads = [[MEM_OPS[i]], [MEM_OPS[j]]]
            pre = []
            for cand in (["w", "t"], ["w", "xa"], ["w", "p"], ["w", "xb"], ["w", "t"]):
                if mem_well_specified(pre + [cand], threads):
                    pre = pre + [cand]
            if mem_well_specified(pre, threads):
                progs.append(("A", {"fam": "mem", "pre": pre, "threads": threads}))
    # B: curated two-thread programs with two operations each (races the notes in the statement call out)
    curated = [
        ([["w", "xa"]], [[["w", "xb"], ["w", "t"]], [["flush", "EA"], ["reset"]]]),
        ([["w", "t"]], [[["w", "t"], ["validate"]], [["w", "b"], ["validate"]]]),
        ([["w", "b"]], [[["w", "j"], ["w", "p"]], [["validate"], ["reset"]]]),
        ([["w", "t"], ["w", "xa"]], [[["w", "w"], ["serialize"]], [["w", "t"], ["flush", "EB"]]]),
        ([], [[["w", "p"], ["w", "t"]], [["w", "xa"], ["w", "b"]]]),
        ([["w", "xb"]], [[["flush", "EB"], ["w", "w"]], [["flush", "EA"], ["w", "xa"]]]),
        ([["w", "p"]], [[["reset"], ["w", "t"]], [["w", "xa"], ["reset"]]]),
        ([["w", "t"]], [[["validate"], ["w", "t"]], [["w", "t"], ["validate"]]]),
        ([["w", "t"]], [[["serialize"], ["w", "xa"]], [["w", "t"], ["serialize"]]]),
    ]
    for pre, threads in curated:
        assert mem_well_specified(pre, threads), (pre, threads)
        progs.append(("B", {"fam": "mem", "pre": pre, "threads": threads}))
    # C: seeded random programs, 2..3 threads, 1..3 operations each
    nrand = 320 if THOROUGH else 30
    tries = 0
    while nrand and tries < 10000:
        tries += 1
        nt = rng.choice([2, 2, 3])
        maxops = 3 if THOROUGH else 2
        threads = [[list(rng.choice(MEM_OPS)) for _ in range(rng.randint(1, maxops))] for _ in range(nt)]
        pre = [list(rng.choice(MEM_OPS[:7])) for _ in range(rng.randint(0, 2))]
        if not mem_well_specified(pre, threads):
            continue
        if sum(1 for t in threads for o in t if o[0] == "w") == 0:
            continue
        progs.append(("C", {"fam": "mem", "pre": pre, "threads": threads}))
        nrand -= 1
    return progs


def file_programs(rng):
    progs = []
    direct_shapes = [[["s"], ["s"]], [["s", "u"], ["L"]], [["u"], ["d"], ["s"]], [["sh", "s"], ["sh"]], [["t", "s"], ["u", "d"]]]
    logger_shapes = [[["s"], ["s"]], [["t"], ["sh"]], [["sf"], ["s"]], [["u", "t"], ["d"]], [["sh"], ["sh"], ["t"]], [["sf", "t"], ["sf"]]]
    for fk in FILE_KINDS:
        for k, sh in enumerate(direct_shapes):
            if THOROUGH or k < 2 or (FILE_KINDS.index(fk) + k) % 3 == 0:
                progs.append(("D", {"fam": "file", "file": fk, "mode": "direct", "threads": sh}))
        for k, sh in enumerate(logger_shapes):
            if THOROUGH or (FILE_KINDS.index(fk) + k) % 3 == 0:
                progs.append(("E", {"fam": "file", "file": fk, "mode": "logger", "threads": sh}))
    nrand = 130 if THOROUGH else 12
    for _ in range(nrand):
        mode = rng.choice(["direct", "logger"])
        kinds = ["s", "u", "L", "d", "t", "sh"] + (["sf"] if mode == "logger" else [])
        nt = rng.choice([2, 2, 3])
        threads = [[rng.choice(kinds) for _ in range(rng.randint(1, 3 if THOROUGH else 2))] for _ in range(nt)]
        progs.append(("F", {"fam": "file", "file": rng.choice(FILE_KINDS), "mode": mode, "threads": threads}))
    return progs


BUDGET = {  # class -> (cap of systematically explored schedules, preemption bound, random walks)
    "quick": {"A": (60, 3, 3), "B": (200, 3, 10), "C": (100, 2, 10), "D": (100, 2, 5), "E": (130, 2, 8), "F": (70, 2, 6)},
    "thorough": {"A": (400, 3, 10), "B": (900, 3, 40), "C": (300, 3, 30), "D": (500, 3, 20), "E": (500, 3, 30), "F": (300, 3, 30)},
}


def main():
    stats = Stats()
    try:
        if args.scenario:
            prog = json.loads(args.scenario)
            choices = unrle(prog.pop("choices", []))
            s, problems, realised = safe_runner(prog["fam"])(prog, choices)
            if s is not None and s.mismatch:
                log("note: %d recorded choices were not schedulable on this tree; default policy used there" % s.mismatch)
            record(stats, prog, s, problems, realised)
        else:
            rng = random.Random(args.seed)
            progs = mem_programs(rng) + file_programs(rng)
            # interleave the two families so that a wall-clock cut-off never starves one of them
            mem = [p for p in progs if p[1]["fam"] == "mem"]; fil = [p for p in progs if p[1]["fam"] == "file"]
            order = []
            while mem or fil:
                if mem:
                    order.append(mem.pop(0))
                if fil:
                    order.append(fil.pop(0))
            budget = BUDGET["thorough" if THOROUGH else "quick"]
            for klass, prog in order:
                if stats.stop():
                    break
                cap, pb, nr = budget[klass]
                explore(stats, prog, cap, pb, nr, random.Random(rng.random()))
            if time.time() > DEADLINE:
                log("note: wall-clock guard hit after %d programs; remaining programs skipped" % stats.programs)
    finally:
        pool_shutdown()
    pb = "3" if THOROUGH else "2 (3 for the pairwise and curated mem programs)"
    guard = time.time() > DEADLINE
    out = {"cases": stats.cases, "distinct": len(stats.seen), "failures": stats.failures[:5], "known": stats.known[:5],
           "bound": "mem: every pair of operations {write x7 kinds, flush x2, reset, validate, serialize} on a preloaded MemoryLogger, curated 2x2 programs and seeded-random programs of 2-3 threads x <=%d operations; file: 7 file kinds x {direct call, Logger.write} x 2-3 threads x <=%d messages; per program all schedules (switch points = every source line of eliot/_output.py, every lock acquisition, every py-file write/flush) with <=%s preemptions, capped breadth-first per program, plus seeded random walks; %d programs%s" % (3 if THOROUGH else 2, 3 if THOROUGH else 2, pb, stats.programs, " (wall-clock guard hit: remaining programs skipped)" if guard else ""),
           "rule": "scenario = (program, schedule); schedules enumerated by iterative context bounding from the run-to-completion schedule, skipping preemptions that only make the preempting thread block on a held lock, then seeded random walks; distinct = distinct (program, realised sequence of thread switches with their positions); every scenario has >=2 threads sharing one logger/destination so all are non-trivial"}
    print(json.dumps(out))


main()
