"""Native driver for C17 (bounded; real code): eliot.testing's LoggedAction / LoggedMessage / assertHasAction /
assertHasMessage against (a) a ground-truth tree recorded by the program executor itself (which API call emitted
which message index, and which program node is nested in which) and (b) the tree eliot.parse builds from the
same messages.
Prints one JSON line: {cases, distinct, failures:[{signature, scenario, observed}], known:[...], rule, bound}.

KNOWN_ON_UNCHANGED_TREE (genuine violations on the unchanged tree; still detected, but reported under "known"
instead of "failures"):
  * signature {"clause": "of_type", "kind": "raises_ValueError_on_unfinished_action"}
    Statement says of_type returns one entry per started-AND-FINISHED action of the type.  When any action of the
    requested type (or any descendant action of such an action) was started but never finished,
    LoggedAction.of_type raises ValueError("Missing end message of type ...") instead of returning the finished ones.
    Smallest input: [{"k":"a","t":"A","o":"open"},{"k":"a","t":"A","o":"ok"}]  (start_action("A") never finished,
    then a complete `with start_action("A")`): LoggedAction.of_type(msgs, "A") -> ValueError, expected 1 entry.
  * signature {"clause": "assertHasAction", "kind": "raises_ValueError_on_unfinished_action"}
    Same root cause seen through assertHasAction: it raises ValueError (neither success nor AssertionError).
"""
import argparse, copy, json, random, sys, time, unittest, warnings

ap = argparse.ArgumentParser(); ap.add_argument("--tier", default="quick"); ap.add_argument("--seed", type=int, default=0)
ap.add_argument("--scenario"); args = ap.parse_args()
warnings.simplefilter("ignore")

from eliot import start_action, start_task, log_message, Action, MemoryLogger, ActionType, MessageType, Message
from eliot import _output
from eliot.parse import Parser, Task
from eliot._action import WrittenAction
from eliot._message import WrittenMessage
from eliot import testing as T

KNOWN_SIGNATURES = [
    {"clause": "of_type", "kind": "raises_ValueError_on_unfinished_action"},
    {"clause": "assertHasAction", "kind": "raises_ValueError_on_unfinished_action"},
]
REMOTE = "eliot:remote_task"
ABSENT = "zz:absent"
INTERNAL = ("task_uuid", "task_level", "timestamp")


class Boom(Exception):
    pass


class FastCase(unittest.TestCase):
    """A TestCase whose type-specific equality assertions skip the (slow) difflib failure message."""
    def runTest(self): pass
    def _cheap(self, first, second, msg=None):
        if not first == second: raise self.failureException(msg or "not equal")
    def __init__(self, *a, **kw):
        unittest.TestCase.__init__(self, *a, **kw)
        for ty in (dict, list, tuple, set, frozenset, str): self.addTypeEqualityFunc(ty, self._cheap)

_AOBJ = {}; _MOBJ = {}


# ----------------------------------------------------------------------------------------------- executor
class Run(object):
    """Executes a program (list of items) with the real eliot API against one MemoryLogger and records, without
    ever looking at task_uuid/task_level, which call emitted which message index and who is nested in whom.

    item := {"k":"m","t":type,"f":{..},"d":"now|parent|end","v":0|1}            message (d!=now: logged on the
                                                                                 parent Action object after it ended)
          | {"k":"a","t":type,"sf":{..},"ef":{..},"o":"ok|fail|open","d":...,"task":0|1,"c":[items]}
                 action; d!=now: start message now, body + finish later (like a worker thread / callback)
          | {"k":"r","t":type?,"sf":{..},"ef":{..},"o":...,"d":...,"s":0|1,"c":[items]}
                 remote sub-task: serialize_task_id() now, Action.continue_task later
    d = "parent": right after the enclosing action's end message; d = "end": after the whole program.
    """

    def __init__(self, explicit):
        self.logger = MemoryLogger()
        self.explicit = explicit
        self.roots = []; self.actions = []; self.messages = []; self.endq = []; self.problems = []

    @property
    def msgs(self):
        return self.logger.messages

    def largs(self):
        return (self.logger,) if self.explicit else ()

    def one(self, fn, what):
        n = len(self.msgs)
        r = fn()
        if len(self.msgs) != n + 1:
            self.problems.append("%s emitted %d messages, expected 1" % (what, len(self.msgs) - n))
        return n, r

    def execute(self, prog):
        prev = _output._DEFAULT_LOGGER
        if not self.explicit:
            _output._DEFAULT_LOGGER = self.logger
        try:
            self.items(prog, None, None, None)
            while self.endq:
                q, self.endq = self.endq, []
                for th in q:
                    th()
        finally:
            _output._DEFAULT_LOGGER = prev

    def items(self, items, prec, pact, pq):
        for it in items:
            k = it["k"]
            if k == "m": self.do_msg(it, prec, pact, pq)
            elif k == "a": self.do_act(it, prec, pact, pq)
            elif k == "r": self.do_remote(it, prec, pact, pq)
            else: raise ValueError("bad item %r" % (it,))

    def defer(self, d, pq, thunk):
        if d == "parent" and pq is not None: pq.append(thunk)
        elif d == "end" and pq is not None: self.endq.append(thunk)
        else: thunk()

    def do_msg(self, it, prec, pact, pq):
        t = it["t"]; f = dict(it.get("f") or {}); d = it.get("d", "now")
        late = pact is not None and d != "now"
        def go():
            if pact is None:
                if self.explicit: fn = lambda: Message(dict(f, message_type=t)).write(self.logger)
                else: fn = lambda: log_message(t, **f)
            elif late or it.get("v"): fn = lambda: pact.log(t, **f)
            else: fn = lambda: log_message(t, **f)
            i, _ = self.one(fn, "message")
            rec = {"k": "M", "t": t, "i": i}
            self.messages.append(rec)
            if prec is not None: prec["c"].append(rec)
        self.defer(d if late else "now", pq, go)

    def run_body(self, it, rec, a, use_with):
        o = it.get("o", "ok"); ef = dict(it.get("ef") or {}); myq = []
        if use_with and o != "open":
            mark = [None]
            try:
                with a:
                    self.items(it.get("c") or [], rec, a, myq)
                    if o == "ok" and ef: a.add_success_fields(**ef)
                    mark[0] = len(self.msgs)
                    if o == "fail": raise Boom("boom")
            except Boom:
                pass
            if len(self.msgs) != mark[0] + 1:
                self.problems.append("leaving the with block emitted %d messages, expected 1" % (len(self.msgs) - mark[0]))
            rec["e"] = mark[0]
        else:
            with a.context():
                self.items(it.get("c") or [], rec, a, myq)
            if o == "ok":
                if ef: a.addSuccessFields(**ef)
                rec["e"], _ = self.one(a.finish, "finish")
            elif o == "fail":
                rec["e"], _ = self.one(lambda: a.finish(Boom("boom")), "finish(exception)")
        rec["ok"] = None if o == "open" else (o == "ok")
        for th in myq:
            th()

    def do_act(self, it, prec, pact, pq):
        t = it["t"]; sf = dict(it.get("sf") or {}); d = it.get("d", "now") if pact is not None else "now"
        newtask = pact is None or bool(it.get("task"))
        if newtask and pact is not None: starter = lambda: start_task(*self.largs(), action_type=t, **sf)
        else: starter = lambda: start_action(*self.largs(), action_type=t, **sf)
        s, a = self.one(starter, "start_action")
        rec = {"k": "A", "t": t, "s": s, "e": None, "ok": None, "c": []}
        self.actions.append(rec)
        (self.roots if newtask else prec["c"]).append(rec)
        self.defer(d, pq, lambda: self.run_body(it, rec, a, d == "now"))

    def do_remote(self, it, prec, pact, pq):
        if pact is None: raise ValueError("remote sub-task needs an enclosing action")
        tid = pact.serialize_task_id()
        if it.get("s"): tid = tid.decode("ascii")
        t = it.get("t") or REMOTE; sf = dict(it.get("sf") or {})
        def go():
            kw = dict(sf)
            if t != REMOTE: kw["action_type"] = t
            s, a = self.one(lambda: Action.continue_task(*self.largs(), task_id=tid, **kw), "continue_task")
            rec = {"k": "A", "t": t, "s": s, "e": None, "ok": None, "c": []}
            self.actions.append(rec); prec["c"].append(rec)
            self.run_body(it, rec, a, True)
        self.defer(it.get("d", "now"), pq, go)


# ----------------------------------------------------------------------------------------------- oracle + checks
def first(rec): return rec["s"] if rec["k"] == "A" else rec["i"]
def gshape(rec):
    if rec["k"] == "M": return ("M", rec["i"])
    return ("A", rec["s"], rec["e"], rec["ok"], [gshape(c) for c in rec["c"]])
def has_open(rec):
    return rec["k"] == "A" and (rec["e"] is None or any(has_open(c) for c in rec["c"]))
def gtypes(rec):
    return {rec["t"]: [gtypes(c) if c["k"] == "A" else c["t"] for c in rec["c"]]}
def preorder(rec):
    out = []
    for c in rec["c"]:
        out.append(gshape(c))
        if c["k"] == "A": out.extend(preorder(c))
    return out
def canon(sh):
    if sh[0] != "A": return sh
    return sh[:4] + (sorted((canon(c) for c in sh[4]), key=lambda c: (c[1] if isinstance(c[1], int) else -1)),)
def superset(message, fields):
    return all(k in message and message[k] == v for k, v in fields.items())
def user(m): return dict((k, v) for k, v in m.items() if k not in INTERNAL)
def other(v): return 0 if v is None else None
def short(x, n=300):
    s = repr(x); return s if len(s) <= n else s[:n] + "..."


def check(R, plain_case=False):
    P = []
    def add(clause, kind, obs): P.append(({"clause": clause, "kind": kind}, obs))
    for p in R.problems: add("executor", "message_count", p)
    if R.problems: return P
    msgs = R.msgs; logger = R.logger; tc = unittest.TestCase() if plain_case else FastCase()
    for a in R.actions: a["c"].sort(key=first)
    idmap = dict((id(m), i) for i, m in enumerate(msgs))
    def idx(m):
        i = idmap.get(id(m))
        if i is None:
            try: return msgs.index(m)
            except ValueError: return -1
        return i
    def hshape(n):
        if isinstance(n, T.LoggedAction):
            try: ok = n.succeeded
            except Exception as e: ok = "succeeded raised %s" % type(e).__name__
            return ("A", idx(n.startMessage), idx(n.endMessage), ok, [hshape(c) for c in n.children])
        if isinstance(n, T.LoggedMessage): return ("M", idx(n.message))
        return ("?", repr(n)[:60])

    # --- what the parser builds from the same messages
    keyidx = dict(((m["task_uuid"], tuple(m["task_level"])), i) for i, m in enumerate(msgs))
    pnodes = {}
    def pidx(wm): return keyidx.get((wm.task_uuid, tuple(wm.task_level.as_list())), -1)
    def pshape(n):
        if isinstance(n, WrittenAction):
            s = pidx(n.start_message) if n.start_message else None
            e = pidx(n.end_message) if n.end_message else None
            ok = (n.end_message.contents["action_status"] == "succeeded") if n.end_message else None
            return canon(("A", s, e, ok, [pshape(c) for c in n.children]))
        return ("M", pidx(n))
    def pwalk(n):
        if isinstance(n, WrittenAction):
            pnodes[(n.task_uuid, tuple(n.task_level.as_list()))] = n
            for c in n.children: pwalk(c)
    try:
        bytask = {}
        for t in Parser.parse_stream(msgs):
            root = t.root(); bytask.setdefault(root.task_uuid, []).append(t)
        for u, ts in bytask.items():
            if len(ts) > 1:  # parser split the task (message after the root's end): feed one Task directly
                t = Task()
                for m in msgs:
                    if m["task_uuid"] == u: t = t.add(m)
                ts = [t]
            pwalk(ts[0].root())
    except Exception as e:
        add("parser", "exception:" + type(e).__name__, "parsing the captured messages raised %r" % (e,))

    atypes = sorted(set(a["t"] for a in R.actions)); mtypes = sorted(set(m["t"] for m in R.messages))
    alltypes = sorted(set(atypes) | set(mtypes) | set([ABSENT]))
    flip = [0]
    def aobj(t):
        if t not in _AOBJ: _AOBJ[t] = ActionType(t, [], [], "d")
        return _AOBJ[t]
    def mobj(t):
        if t not in _MOBJ: _MOBJ[t] = MessageType(t, [], "d")
        return _MOBJ[t]

    # --- LoggedAction.of_type and the trees hanging off it
    for ty in alltypes:
        started = sorted([a for a in R.actions if a["t"] == ty], key=first)
        openish = any(has_open(a) for a in started)
        try:
            res = T.LoggedAction.of_type(msgs, ty)
        except ValueError as e:
            if openish and "Missing end message" in str(e):
                add("of_type", "raises_ValueError_on_unfinished_action", "of_type(%r) raised %r; %d of %d started actions of that type are finished"
                    % (ty, e, len([a for a in started if a["e"] is not None]), len(started)))
            else:
                add("of_type", "exception:ValueError", "of_type(%r) raised %r" % (ty, e))
            continue
        except Exception as e:
            add("of_type", "exception:" + type(e).__name__, "of_type(%r) raised %r" % (ty, e)); continue
        if not isinstance(res, list):
            add("of_type", "not_a_list", "of_type(%r) returned %s" % (ty, short(res))); continue
        if openish:
            continue  # behaviour with unfinished actions is the known violation; nothing more to compare
        exp = [gshape(a) for a in started]; got = [hshape(x) for x in res]
        if [g[:2] for g in got] != [e[:2] for e in exp]:
            add("of_type", "entries", "of_type(%r): start-message indices %r, expected %r (one per finished action, emission order)"
                % (ty, [g[1] for g in got], [e[1] for e in exp])); continue
        try:
            for form, r2 in (("ActionType object", T.LoggedAction.of_type(msgs, aobj(ty))), ("ofType alias", T.LoggedAction.ofType(msgs, ty))):
                if r2 != res: add("of_type", "alias_or_type_object", "of_type(%r) via %s differs from the str form" % (ty, form))
        except Exception as e:
            add("of_type", "alias_or_type_object", "of_type(%r) via object/alias raised %r" % (ty, e))
        for rec, x, g, e in zip(started, res, got, exp):
            where = "of_type(%r) entry with start index %d" % (ty, rec["s"])
            if g[2] != e[2]:
                add("of_type", "end_message", "%s: end message index %r, expected %r" % (where, g[2], e[2])); continue
            if x.start_message is not x.startMessage or x.end_message is not x.endMessage:
                add("of_type", "pep8_properties", "%s: start_message/end_message differ from startMessage/endMessage" % where)
            if g[3] != e[3]:
                add("succeeded", "flag", "%s: succeeded=%r, expected %r" % (where, g[3], e[3]))
            if g[4] != e[4]:
                add("children", "tree_mismatch", "%s: children %s, expected %s" % (where, short(g[4]), short(e[4])))
            pn = pnodes.get((msgs[rec["s"]]["task_uuid"], tuple(msgs[rec["s"]]["task_level"][:-1])))
            if pn is None:
                add("parser", "node_missing", "%s: parser has no action at that task level" % where)
            elif pshape(pn) != canon(g):
                add("parser", "tree_differs", "%s: helper tree %s, parser tree %s" % (where, short(canon(g)), short(pshape(pn))))
            try:
                d = [hshape(n) for n in x.descendants()]
                if d != preorder(rec):
                    add("descendants", "not_preorder_of_tree", "%s: descendants() %s, expected %s" % (where, short(d), short(preorder(rec))))
            except Exception as ex:
                add("descendants", "exception:" + type(ex).__name__, "%s: descendants() raised %r" % (where, ex))
            try:
                tt = x.type_tree()
                if tt != gtypes(rec):
                    add("type_tree", "mismatch", "%s: type_tree() %s, expected %s" % (where, short(tt), short(gtypes(rec))))
            except Exception as ex:
                add("type_tree", "exception:" + type(ex).__name__, "%s: type_tree() raised %r" % (where, ex))
            try:
                m = msgs[rec["s"]]
                for nm in ("fromMessages", "from_messages"):
                    y = getattr(T.LoggedAction, nm)(m["task_uuid"], m["task_level"], msgs)
                    if hshape(y) != e: add("of_type", "fromMessages", "%s: %s gives %s, expected %s" % (where, nm, short(hshape(y)), short(e)))
            except Exception as ex:
                add("of_type", "fromMessages", "%s: fromMessages raised %r" % (where, ex))

    # --- LoggedMessage.of_type
    mexp = {}
    for ty in alltypes:
        exp = sorted(m["i"] for m in R.messages if m["t"] == ty); mexp[ty] = exp
        try:
            res = T.LoggedMessage.of_type(msgs, ty)
            got = [idx(x.message) if isinstance(x, T.LoggedMessage) else repr(x)[:40] for x in res]
            if got != exp:
                add("LoggedMessage.of_type", "mismatch", "LoggedMessage.of_type(%r): message indices %r, expected %r" % (ty, got, exp))
            elif T.LoggedMessage.of_type(msgs, mobj(ty)) != res or T.LoggedMessage.ofType(msgs, ty) != res:
                add("LoggedMessage.of_type", "alias_or_type_object", "LoggedMessage.of_type(%r) via MessageType object / ofType differs" % (ty,))
        except Exception as e:
            add("LoggedMessage.of_type", "exception:" + type(e).__name__, "LoggedMessage.of_type(%r) raised %r" % (ty, e))

    # --- assertHasMessage
    for ty in alltypes:
        exp = mexp[ty]; cands = [None, {}, {ABSENT: None}, {ABSENT: 1}]
        if exp:
            F = msgs[exp[0]]; U = user(F)
            cands += [dict(U), dict(F)]
            for k, v in sorted(U.items()):
                cands += [{k: v}, {k: other(v)}, {k: "zz"}, {k: v, ABSENT: None}]
            if len(exp) > 1: cands.append(user(msgs[exp[1]]))
            if len(U) > 1:
                k0 = sorted(U)[0]; bad = dict(U); bad[k0] = other(U[k0]); cands.append(bad)
        for fields in cands:
            want = bool(exp) and superset(msgs[exp[0]], fields or {})
            flip[0] ^= 1
            arg = mobj(ty) if flip[0] else ty
            try:
                r = T.assertHasMessage(tc, logger, arg, copy.deepcopy(fields))
                got = True
            except AssertionError:
                got = False
            except Exception as e:
                add("assertHasMessage", "exception:" + type(e).__name__, "assertHasMessage(%r, %s) raised %r" % (ty, short(fields), e)); continue
            if got != want:
                add("assertHasMessage", "accepted_but_must_fail" if got else "rejected_but_must_pass",
                    "assertHasMessage(%r, fields=%s) %s; first message of that type: %s"
                    % (ty, short(fields), "succeeded" if got else "raised AssertionError", short(user(msgs[exp[0]])) if exp else "none logged"))
            elif got and not (isinstance(r, T.LoggedMessage) and idx(r.message) == exp[0]):
                add("assertHasMessage", "return_value", "assertHasMessage(%r) returned %s, expected the first message (index %d)" % (ty, short(r), exp[0]))

    # --- assertHasAction
    for ty in alltypes:
        started = sorted([a for a in R.actions if a["t"] == ty], key=first)
        openish = any(has_open(a) for a in started)
        cands = [(True, None, None), (False, None, None), (True, {}, {}), (False, {}, {})]
        if started and not openish:
            A = started[0]; S = msgs[A["s"]]; E = msgs[A["e"]]; ok = A["ok"]; US = user(S); UE = user(E)
            cands += [(ok, dict(US), dict(UE)), (ok, dict(S), dict(E)), (not ok, dict(US), dict(UE)),
                      (ok, {ABSENT: None}, None), (ok, None, {ABSENT: None}), (ok, {ABSENT: 1}, None), (ok, None, {ABSENT: 1}),
                      (ok, dict(UE), None), (ok, None, dict(US))]
            for k, v in sorted(US.items()):
                cands += [(ok, {k: v}, None), (ok, {k: other(v)}, None), (ok, {k: "zz"}, {}), (ok, None, {k: v})]
            for k, v in sorted(UE.items()):
                cands += [(ok, None, {k: v}), (ok, None, {k: other(v)}), (ok, {}, {k: "zz"}), (ok, {k: v}, None)]
            if len(started) > 1:
                B = started[1]
                cands += [(B["ok"], user(msgs[B["s"]]), user(msgs[B["e"]])), (ok, user(msgs[B["s"]]), None), (ok, None, user(msgs[B["e"]])), (B["ok"], None, None)]
        for succ, sf, ef in cands:
            flip[0] ^= 1
            arg = aobj(ty) if flip[0] else ty
            if started and not openish:
                want = succ == ok and superset(S, sf or {}) and superset(E, ef or {})
            else:
                want = False
            try:
                r = T.assertHasAction(tc, logger, arg, succ, copy.deepcopy(sf), copy.deepcopy(ef))
                got = True
            except AssertionError:
                got = False
            except ValueError as e:
                if openish and "Missing end message" in str(e):
                    add("assertHasAction", "raises_ValueError_on_unfinished_action", "assertHasAction(%r) raised %r" % (ty, e)); break
                add("assertHasAction", "exception:ValueError", "assertHasAction(%r) raised %r" % (ty, e)); continue
            except Exception as e:
                add("assertHasAction", "exception:" + type(e).__name__, "assertHasAction(%r, %r, %s, %s) raised %r" % (ty, succ, short(sf), short(ef), e)); continue
            if openish:
                continue
            if got != want:
                add("assertHasAction", "accepted_but_must_fail" if got else "rejected_but_must_pass",
                    "assertHasAction(%r, succeeded=%r, startFields=%s, endFields=%s) %s; first action of that type: %s"
                    % (ty, succ, short(sf), short(ef), "succeeded" if got else "raised AssertionError",
                       ("succeeded=%r start=%s end=%s" % (ok, short(US), short(UE))) if started else "none logged"))
            elif got and not (isinstance(r, T.LoggedAction) and hshape(r) == gshape(A)):
                add("assertHasAction", "return_value", "assertHasAction(%r) returned %s, expected the first action of the type" % (ty, short(r)))
    return P


def nontrivial(prog):
    """at least one finished action that has a child"""
    for it in prog:
        if it["k"] in ("a", "r"):
            if (it.get("o", "ok") != "open" and it.get("c")) or nontrivial(it.get("c") or []): return True
    return False


def run_scenario(sc, plain_case=False):
    R = Run(sc.get("lg") == "explicit")
    try:
        R.execute(sc["prog"])
    except Exception as e:
        return [({"clause": "executor", "kind": "exception:" + type(e).__name__}, "running the program raised %r" % (e,))]
    try:
        return check(R, plain_case)
    except Exception as e:
        import traceback; traceback.print_exc(file=sys.stderr)
        return [({"clause": "driver", "kind": "exception:" + type(e).__name__}, "checking raised %r" % (e,))]


# ----------------------------------------------------------------------------------------------- enumeration
TOP_ACT = [{"k": "a", "t": t, "o": o} for t in ("A", "B") for o in ("ok", "fail")]
TOP_MSG = [{"k": "m", "t": t} for t in ("m", "A")]
NEST_ACT = [dict(a, d=d) for a in TOP_ACT for d in ("now", "parent", "end")]
NEST_MSG = [dict(m, d=d) for m in TOP_MSG for d in ("now", "parent")]
NEST_REM = [{"k": "r", "o": "ok", "d": d} for d in ("now", "parent", "end")]

def forests(n, nested):
    if n == 0:
        yield []; return
    for k in range(1, n + 1):
        for tr in trees(k, nested):
            for rest in forests(n - k, nested):
                yield [tr] + rest

def trees(k, nested):
    conts = (NEST_ACT + NEST_REM) if nested else TOP_ACT
    if k == 1:
        for lab in (NEST_MSG if nested else TOP_MSG) + conts: yield dict(lab)
        return
    for lab in conts:
        for ch in forests(k - 1, True):
            yield dict(lab, c=ch)

def decorate(prog):
    """deterministic fields for the exhaustively enumerated shapes"""
    n = [0]
    def walk(items):
        for it in items:
            i = n[0]; n[0] += 1
            if it["k"] == "m": it["f"] = {"x": i % 2}; it["v"] = i % 2
            else:
                it["sf"] = {"x": i % 2} if i % 3 else {"x": None, "y": 1}
                it["ef"] = {"y": None} if i % 2 else {"y": 1, "x": 0}
                if it["k"] == "r": it["s"] = i % 2
                walk(it.get("c") or [])
    prog = copy.deepcopy(prog); walk(prog); return prog

VALUES = [0, 1, 2, None, "s", "", [1], {"k": 0}]
def rfields(rng):
    return dict((k, copy.deepcopy(rng.choice(VALUES))) for k in rng.sample(["x", "y", "z"], rng.choice([0, 1, 1, 2, 3])))

def gen_program(rng):
    types = rng.choice([["A"], ["A", "B"], ["A", "A:x", "B"], ["A", "B", "C"], ["A", "A", "B", REMOTE, ""]])
    mts = rng.choice([["m"], ["m", "n"], ["m", "m:x", "A:x"], ["m", "A", ""], ["A", "B"]])
    depth = rng.randint(1, 6); p_act = rng.uniform(0.3, 0.75); p_rem = rng.choice([0, 0.1, 0.25]); p_def = rng.choice([0, 0.15, 0.4])
    p_open = rng.choice([0, 0, 0, 0, 0, 0, 0.1]); p_fail = rng.choice([0, 0.2, 0.5]); p_task = rng.choice([0, 0, 0, 0.12])
    budget = [rng.randint(3, 26)]
    def dsel(): return rng.choice(["parent", "end"]) if rng.random() < p_def else "now"
    def items(dl, nested):
        out = []
        for _ in range(rng.randint(0 if nested else 1, 4)):
            if budget[0] <= 0: break
            budget[0] -= 1
            r = rng.random()
            if dl > 0 and r < p_act:
                o = "open" if rng.random() < p_open else ("fail" if rng.random() < p_fail else "ok")
                it = {"k": "a", "t": rng.choice(types), "sf": rfields(rng), "ef": rfields(rng), "o": o}
                if nested:
                    it["d"] = dsel()
                    if rng.random() < p_task: it["task"] = 1
                it["c"] = items(dl - 1, True)
            elif nested and dl > 0 and r < p_act + p_rem:
                o = "open" if rng.random() < p_open else ("fail" if rng.random() < p_fail else "ok")
                it = {"k": "r", "sf": rfields(rng) if rng.random() < 0.3 else {}, "ef": rfields(rng), "o": o, "d": dsel(), "s": rng.randint(0, 1)}
                if rng.random() < 0.2: it["t"] = rng.choice(types)
                it["c"] = items(dl - 1, True)
            else:
                it = {"k": "m", "t": rng.choice(mts), "f": rfields(rng), "v": rng.randint(0, 1)}
                if nested and rng.random() < p_def * 0.6: it["d"] = rng.choice(["parent", "end"])
            out.append(it)
        return out
    prog = items(depth, False)
    if rng.random() < 0.06:  # a wide action: more than 9 direct children
        prog.append({"k": "a", "t": rng.choice(types), "o": "ok", "c":
                     [({"k": "m", "t": "m", "f": {"x": i}} if i % 4 else {"k": "a", "t": rng.choice(types), "o": "ok", "sf": {"x": i}, "c": [{"k": "m", "t": "m"}]})
                      for i in range(rng.randint(10, 13))]})
    if rng.random() < 0.3:  # the same program twice: identical task-level structure under different task uuids
        prog = prog + copy.deepcopy(prog)
    return prog

FIXED = [
    # equal-typed chain
    [{"k": "a", "t": "A", "sf": {"x": 0}, "c": [{"k": "a", "t": "A", "sf": {"x": 1}, "c": [{"k": "a", "t": "A", "sf": {"x": 2}, "o": "fail", "c": [{"k": "m", "t": "A"}]}, {"k": "m", "t": "m"}]}]}],
    # the known violation, smallest form
    [{"k": "a", "t": "A", "o": "open"}, {"k": "a", "t": "A", "o": "ok"}],
]


def main():
    quick = args.tier != "thorough"
    rng = random.Random(args.seed)
    if args.scenario:
        scs = [json.loads(args.scenario)]
    else:
        scs = []
        for i, p in enumerate(FIXED):
            scs.append({"lg": "default" if i % 2 else "explicit", "prog": p})
        exh = []
        for n in (1, 2, 3) if quick else (1, 2, 3, 4):
            allf = list(forests(n, False))
            cap = (900 if quick else (len(allf) if n <= 3 else 12000))
            if len(allf) > cap:
                rng.shuffle(allf); allf = allf[:cap]
            exh += allf
        for i, p in enumerate(exh):
            scs.append({"lg": "default" if i % 2 else "explicit", "prog": decorate(p)})
        for i in range(450 if quick else 12000):
            scs.append({"lg": "default" if rng.random() < 0.5 else "explicit", "prog": gen_program(rng)})
    fails = []; known = []; cases = 0; seen = set(); t0 = time.time()
    budget = 33 if quick else 840
    for sc in scs:
        if not args.scenario and time.time() - t0 > budget:
            sys.stderr.write("time budget reached after %d scenarios\n" % cases); break
        cases += 1
        if nontrivial(sc["prog"]): seen.add(json.dumps(sc["prog"], sort_keys=True))
        groups = {}
        for sig, obs in run_scenario(sc, plain_case=bool(args.scenario) or cases % 8 == 1):
            groups.setdefault(json.dumps(sig, sort_keys=True), (sig, []))[1].append(obs)
        for key in sorted(groups):
            sig, obs = groups[key]
            entry = {"signature": sig, "scenario": sc, "observed": obs[:3]}
            if sig in KNOWN_SIGNATURES:
                if len(known) < 5: known.append(entry)
            else:
                fails.append(entry)
        if len(fails) >= 5: break
    sys.stderr.write("%d scenarios in %.1fs\n" % (cases, time.time() - t0))
    print(json.dumps({
        "cases": cases, "distinct": len(seen), "failures": fails[:5], "known": known,
        "bound": ("every forest of <= %d program nodes over {action A/B ok/fail, message m/A, remote sub-task} x {inline, body deferred until after the parent's end, deferred to program end}"
                  " (larger sizes sampled by seed), plus %s seeded random programs of nesting depth <= 6 and <= ~65 nodes with repeated/equal types at several depths, failed and unfinished actions,"
                  " remote sub-tasks, nested new tasks, late messages, duplicate task shapes, > 9 siblings, default vs explicit logger;"
                  " user field names never collide with eliot's reserved names")
                 % (3 if quick else 4, "450" if quick else "12000"),
        "rule": "a scenario is a JSON program executed through the real eliot API on one MemoryLogger; the executor records which call emitted which message index and the static nesting,"
                " giving a ground-truth tree independent of task levels; every action/message type present (and one absent) is queried and ~10-40 expected-field variants per type are asserted;"
                " distinct = distinct program JSON; non-trivial = contains a finished action with at least one child"}))

main()
