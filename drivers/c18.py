"""Native driver for C18 (bounded; real code): log_call is transparent -- same result, same exceptions,
faithful argument log, metadata kept -- over generated function signatures x call lists x decorator options.
Prints one JSON line: {cases, distinct, failures:[{signature, scenario, observed}], known:[...], bound, rule}.

KNOWN_ON_UNCHANGED_TREE (genuine violations of the property statement on the unchanged tree; still detected,
reported under "known" with these signatures, never under "failures"):
  1. {"clause": "call-transparency", "kind": "positional-only-marker-dropped"}
     boltons.funcutils.wraps rebuilds the wrapper without the `/` marker.  `def f(a, /, b, **kw)`:
     f(1, 2, a=9) is valid undecorated (kw == {'a': 9}) but the wrapper raises TypeError (multiple values for 'a');
     the invalid f(a=1, b=2) is accepted by the wrapper; inspect.signature(w, follow_wrapped=False) lacks `/`.
     Classified as known only if the decorated behaviour is *exactly* that of the same function without `/`.
  2. {"clause": "argument-log", "kind": "param-name-equals-eliot-field"}
     a parameter called task_uuid / task_level / timestamp / action_status / action_type is overwritten in the
     start message by Eliot's own field of that name (call behaviour stays transparent).
  3. {"clause": "call-transparency", "kind": "param-named-_call"}
     a parameter (any kind) called `_call` shadows the name boltons' generated wrapper uses for the wrapped
     callable: `@log_call def f(_call): ...; f(1)` raises TypeError("'int' object is not callable").
  4. {"clause": "call-transparency", "kind": "include_args-lists-self"}
     `@log_call(include_args=["self"]) def m(self, x)`: accepted at decoration time, every call raises KeyError('self').
  5. {"clause": "metadata", "kind": "absent-docstring-becomes-empty-string"}
     a function without a docstring (__doc__ is None) gets a wrapper whose __doc__ is ''.
"""
import argparse, inspect, itertools, json, random, sys, time

ap = argparse.ArgumentParser(); ap.add_argument("--tier", default="quick"); ap.add_argument("--seed", type=int, default=0)
ap.add_argument("--scenario"); args = ap.parse_args()
from eliot import log_call, start_action, current_action, log_message, add_destinations, remove_destination

MOD = "c18_generated_module"
ELIOT_FIELDS = ("task_uuid", "task_level", "timestamp", "action_type", "action_status")
RESERVED = set(ELIOT_FIELDS)
K_POSONLY = {"clause": "call-transparency", "kind": "positional-only-marker-dropped"}
K_RESERVED = {"clause": "argument-log", "kind": "param-name-equals-eliot-field"}
K_CALL = {"clause": "call-transparency", "kind": "param-named-_call"}
K_INCSELF = {"clause": "call-transparency", "kind": "include_args-lists-self"}
K_DOC = {"clause": "metadata", "kind": "absent-docstring-becomes-empty-string"}
KNOWN_SIGS = [K_POSONLY, K_RESERVED, K_CALL, K_INCSELF, K_DOC]

PLAIN = {"po": ["a", "b", "c", "d", "e", "f"], "pk": ["x", "y", "z", "w", "u", "v"], "va": ["rest"],
         "ko": ["k1", "k2", "k3", "k4", "k5", "k6"], "vk": ["extra"]}
# names that coincide with something in eliot / log_call / boltons / inspect.getcallargs
COLLIDE = ["logger", "action_type", "_serializers", "fields", "args", "kwargs", "result", "self", "exception", "reason",
           "wrapped_function", "include_args", "include_result", "callargs", "ctx", "parent", "action", "func",
           "positional", "named", "message_type", "cls", "task_uuid", "task_level", "timestamp", "action_status",
           "_call", "serializers", "kw", "level", "log_call", "logging_wrapper", "k", "task_id", "exc_info", "__eliot_logger__"]
DEFAULTS = [100, "dflt", [7], None, 0, ""]
POSVALS = [10, "s1", [12], None, 14, "s5", 16, 17, 18]
CONTEXTS = ["top", "nested", "nested_logcall", "deep"]
BEHAVIOURS = ["ret_obj", "ret_none", "raise_exc", "ret_zero", "raise_base", "ret_empty", "raise_key", "ret_false", "raise_type"]
IA_VARIANTS = ["none", "empty_list", "first", "empty_tuple", "all_rev", "bogus", "all_set", "dup", "self", "empty_set"]
AT_VARIANTS = [None, "c18:custom", ""]


class C18Error(ValueError): pass
class C18Base(BaseException): pass
class Ret(object):
    def __init__(self, payload): self.payload = payload


class Ctl(object):
    def reset(self, behaviour, log):
        self.behaviour = behaviour; self.log = log; self.runs = 0; self.snap = None; self.cur = None
        self.returned = None; self.has_returned = False; self.raised = None
CTL = Ctl(); CTL.reset("ret_obj", False)


def body(snapshot):
    """The body of every generated function: records how Python bound the arguments, then returns/raises."""
    CTL.runs += 1; CTL.snap = snapshot; CTL.cur = current_action()
    if CTL.log: log_message(message_type="c18:inner", n=CTL.runs)
    b = CTL.behaviour
    if b == "ret_obj": r = Ret(snapshot)
    elif b == "ret_none": r = None
    elif b == "ret_zero": r = 0
    elif b == "ret_empty": r = []
    elif b == "ret_false": r = False
    else:
        e = {"raise_exc": C18Error("boom ☃"), "raise_key": KeyError("k"), "raise_type": TypeError("from the body"),
             "raise_base": C18Base("base")}[b]
        CTL.raised = e
        raise e
    CTL.returned = r; CTL.has_returned = True
    return r


class Out(object): pass
def invoke(fn, a, kw, behaviour, log):
    CTL.reset(behaviour, log); o = Out()
    try:
        o.value = fn(*a, **kw); o.kind = "ok"
    except BaseException as e:
        o.value = e; o.kind = "exc"
    o.runs = CTL.runs; o.snap = CTL.snap; o.cur = CTL.cur; o.returned = CTL.returned; o.has_returned = CTL.has_returned; o.raised = CTL.raised
    CTL.log = False
    return o


# ---------------------------------------------------------------- building functions from a signature spec
def implicit_name(target): return {"method": "self", "classmethod": "cls"}.get(target)

def source(sig, target, doc, slash):
    imp = implicit_name(target); seq = []; names = []
    if imp: seq.append(imp); names.append(imp)
    def fmt(i, p): return p[0] if p[2] is None else "%s=__d%d__" % (p[0], i)
    idx = {id(p): i for i, p in enumerate(sig)}
    po = [p for p in sig if p[1] == "po"]; pk = [p for p in sig if p[1] == "pk"]; va = [p for p in sig if p[1] == "va"]
    ko = [p for p in sig if p[1] == "ko"]; vk = [p for p in sig if p[1] == "vk"]
    for p in po: seq.append(fmt(idx[id(p)], p))
    if po and slash: seq.append("/")
    for p in pk: seq.append(fmt(idx[id(p)], p))
    if va: seq.append("*" + va[0][0])
    elif ko: seq.append("*")
    for p in ko: seq.append(fmt(idx[id(p)], p))
    if vk: seq.append("**" + vk[0][0])
    names += [p[0] for p in sig]
    snap = "{" + ", ".join("%r: %s" % (n, n) for n in names) + "}"
    fname = "f" if target == "function" else "m"
    lines = ["@__dec__", "def %s(%s):" % (fname, ", ".join(seq))]
    if doc: lines.append("    'Docstring of the generated function.'")
    lines.append("    return __body__(%s)" % snap)
    if target == "function": return "\n".join(lines) + "\n"
    out = ["class K(object):"]
    if target == "classmethod": out.append("    @classmethod")
    if target == "staticmethod": out.append("    @staticmethod")
    return "\n".join(out + ["    " + l for l in lines]) + "\n"


def make_dec(opts):
    kw = {}
    if opts["action_type"] is not None: kw["action_type"] = opts["action_type"]
    ia = opts["include_args"]
    if ia is not None: kw["include_args"] = {"list": list, "tuple": tuple, "set": set, "frozenset": frozenset}[ia["t"]](ia["names"])
    if not opts["include_result"]: kw["include_result"] = False
    form = opts["form"]
    if form == "bare":
        if kw: raise RuntimeError("driver: bare form with options")
        return log_call
    if form == "factory": return log_call(**kw)
    if form == "direct": return lambda fn: log_call(fn, **kw)
    if form == "explicit":
        return log_call(action_type=kw.get("action_type"), include_args=kw.get("include_args"), include_result=opts["include_result"])
    raise RuntimeError("driver: unknown form %r" % (form,))


class Build(object): pass
def build(sig, target, doc, opts):
    B = Build(); B.sig = sig; B.target = target
    defaults = {"__d%d__" % i: p[2][0] for i, p in enumerate(sig) if p[2] is not None}
    def load(dec, slash):
        ns = {"__name__": MOD, "__dec__": dec, "__body__": body}; ns.update(defaults)
        exec(compile(source(sig, target, doc, slash), "<c18 generated>", "exec"), ns)
        if target == "function": return ns["f"], ns["f"], None, None
        K = ns["K"]; raw = K.__dict__["m"]; raw = getattr(raw, "__func__", raw); inst = K()
        call = {"method": inst.m, "staticmethod": inst.m, "classmethod": K.m}[target]
        return call, raw, inst, K
    B.ref, B.ref_raw, _, _ = load(lambda fn: fn, True)
    B.has_po = any(p[1] == "po" for p in sig)
    B.ref2 = B.ref2_raw = None
    if B.has_po: B.ref2, B.ref2_raw, _, _ = load(lambda fn: fn, False)
    B.expected_type = opts["action_type"] if opts["action_type"] is not None else "%s.%s" % (B.ref_raw.__module__, B.ref_raw.__qualname__)
    B.decor_exc = None; B.dec = B.dec_raw = B.dec_inst = B.dec_cls = None
    try:
        B.dec, B.dec_raw, B.dec_inst, B.dec_cls = load(make_dec(opts), True)
    except Exception as e:
        B.decor_exc = e
    imp = implicit_name(target)
    B.po_names = set(p[0] for p in sig if p[1] == "po") | ({imp} if imp and B.has_po else set())
    B.kinds = {p[0]: p[1] for p in sig}
    B.param_names = ([imp] if imp else []) + [p[0] for p in sig]
    return B

_cache = {}
def get_build(sig, target, doc, opts):
    key = json.dumps([sig, target, doc, opts], sort_keys=True)
    b = _cache.get(key)
    if b is None:
        if len(_cache) > 500: _cache.clear()
        b = _cache[key] = build(sig, target, doc, opts)
    return b


# ---------------------------------------------------------------- oracle
def same_binding(kind, a, b):
    if kind == "va":
        return type(a) is tuple and type(b) is tuple and len(a) == len(b) and all(x is y for x, y in zip(a, b))
    if kind == "vk":
        return type(a) is dict and type(b) is dict and set(a) == set(b) and all(a[k] is b[k] for k in a)
    return a is b

def short(x):
    s = repr(x)
    return s if len(s) < 120 else s[:117] + "..."

def check_decoration(B, opts):
    """Clauses: include_args validated at decoration time; wrapper keeps name, docstring, signature. -> (problems, knowns)"""
    P = []; Kn = []
    ia = opts["include_args"]
    bogus = ia is not None and (set(ia["names"]) - set(B.param_names))
    if bogus:
        if not isinstance(B.decor_exc, ValueError):
            P.append(({"clause": "options", "kind": "unknown-include_args-not-rejected"},
                      "include_args %r names no parameter of %s but decorating gave %s" % (sorted(bogus), B.param_names, short(B.decor_exc) if B.decor_exc else "no error")))
        return P, Kn
    if B.decor_exc is not None:
        P.append(({"clause": "options", "kind": "decoration-raised"}, "decorating a valid function with valid options raised %s" % short(B.decor_exc)))
        return P, Kn
    w, r = B.dec_raw, B.ref_raw
    if not callable(w):
        P.append(({"clause": "metadata", "kind": "not-callable"}, "decorator returned %s" % short(w))); return P, Kn
    if getattr(w, "__name__", None) != r.__name__:
        P.append(({"clause": "metadata", "kind": "name"}, "__name__ %r, undecorated %r" % (getattr(w, "__name__", None), r.__name__)))
    wd = getattr(w, "__doc__", None)
    if wd != r.__doc__:
        if r.__doc__ is None and wd == "": Kn.append((K_DOC, "__doc__ is '' but the undecorated function's is None"))
        else: P.append(({"clause": "metadata", "kind": "docstring"}, "__doc__ %r, undecorated %r" % (wd, r.__doc__)))
    if getattr(w, "__module__", None) != r.__module__:
        P.append(({"clause": "metadata", "kind": "module"}, "__module__ %r, undecorated %r" % (getattr(w, "__module__", None), r.__module__)))
    try: s1 = str(inspect.signature(w))
    except Exception as e: s1 = "signature() raised " + short(e)
    s0 = str(inspect.signature(r))
    if s1 != s0: P.append(({"clause": "metadata", "kind": "signature"}, "inspect.signature %s, undecorated %s" % (s1, s0)))
    try: s2 = str(inspect.signature(w, follow_wrapped=False))
    except Exception as e: s2 = "signature() raised " + short(e)
    if s2 != s0:
        if B.has_po and s2 == str(inspect.signature(B.ref2_raw)): Kn.append((K_POSONLY, "the wrapper's own signature is %s, undecorated %s" % (s2, s0)))
        else: P.append(({"clause": "metadata", "kind": "own-signature"}, "wrapper's own signature (follow_wrapped=False) %s, undecorated %s" % (s2, s0)))
    # defaults are the very same objects
    wdft = getattr(w, "__defaults__", None) or (); rdft = r.__defaults__ or ()
    if s2 == s0 and not (len(wdft) == len(rdft) and all(x is y for x, y in zip(wdft, rdft))):
        P.append(({"clause": "metadata", "kind": "defaults"}, "__defaults__ %s, undecorated %s" % (short(wdft), short(rdft))))
    return P, Kn


def check_call(B, opts, ref, dec, new, ctx):
    """Compare one decorated call with the undecorated reference call, clause by clause. -> problems [(signature, text)], knowns"""
    P = []; Kn = []
    def bad(clause, kind, text): P.append(({"clause": clause, "kind": kind}, text))
    invalid = ref.kind == "exc" and ref.runs == 0
    if invalid and not isinstance(ref.value, TypeError): raise RuntimeError("driver: reference rejected the call with %r" % (ref.value,))
    if invalid:
        if dec.runs: bad("call-transparency", "invalid-call-accepted", "undecorated raises %s; decorated ran the function with %s" % (short(ref.value), short(dec.snap)))
        elif dec.kind != "exc": bad("call-transparency", "invalid-call-accepted", "undecorated raises %s; decorated returned %s" % (short(ref.value), short(dec.value)))
        elif type(dec.value) is not TypeError: bad("exceptions", "invalid-call-wrong-exception", "undecorated raises %s; decorated raised %s" % (short(ref.value), short(dec.value)))
        if new: bad("action-log", "invalid-call-logged", "call rejected with TypeError but %d message(s) logged: %s" % (len(new), short(new[0])))
        return P, Kn
    if ref.runs != 1: raise RuntimeError("driver: reference ran %d times" % ref.runs)
    # --- behaviour
    if dec.runs == 0:
        bad("call-transparency", "valid-call-rejected", "undecorated binds %s; decorated never ran the function and %s" % (
            short({k: v for k, v in ref.snap.items() if k not in ("self", "cls")}), ("raised " + short(dec.value)) if dec.kind == "exc" else ("returned " + short(dec.value))))
        if new and not (len(new) == 2 and new[0].get("action_status") == "started" and new[1].get("action_status") == "failed"):
            bad("action-log", "malformed-action", "function never ran but logged %s" % short([m.get("action_status", m.get("message_type")) for m in new]))
        return P, Kn
    if dec.runs > 1:
        bad("call-transparency", "called-more-than-once", "function body ran %d times for one call" % dec.runs); return P, Kn
    imp = implicit_name(B.target)
    for name in set(ref.snap) | set(dec.snap):
        if name not in ref.snap or name not in dec.snap:
            bad("call-transparency", "arguments-bound-differently", "parameter %r bound only in one of the two calls" % name); continue
        if name == imp:
            want = B.dec_inst if imp == "self" else B.dec_cls
            if dec.snap[name] is not want: bad("call-transparency", "arguments-bound-differently", "%s is %s" % (imp, short(dec.snap[name])))
        elif not same_binding(B.kinds.get(name), ref.snap[name], dec.snap[name]):
            bad("call-transparency", "arguments-bound-differently", "parameter %r: undecorated got %s, decorated got %s" % (name, short(ref.snap[name]), short(dec.snap[name])))
    if ref.kind == "ok":
        if dec.kind != "ok": bad("exceptions", "unexpected-exception", "undecorated returns; decorated raised %s" % short(dec.value))
        elif not (dec.has_returned and dec.value is dec.returned) or type(dec.value) is not type(ref.value):
            bad("result", "return-value-changed", "function returned %s; decorated call gave %s" % (short(dec.returned), short(dec.value)))
    else:
        if dec.kind != "exc": bad("exceptions", "exception-swallowed", "function raised %s; decorated call returned %s" % (short(dec.raised), short(dec.value)))
        elif dec.value is not dec.raised: bad("exceptions", "exception-object-changed", "function raised %s; decorated call raised %s" % (short(dec.raised), short(dec.value)))
    # --- the log: exactly [start, message logged by the body, end]
    if len(new) != 3:
        bad("action-log", "wrong-number-of-messages", "expected start, inner message, end; got %s" % short([m.get("action_status", m.get("message_type")) for m in new]))
        return P, Kn
    start, inner, end = new
    base = ctx["base"]
    for m, n, what in ((start, 1, "start"), (inner, 2, "inner"), (end, 3, "end")):
        if m.get("task_level") != base + [n]: bad("action-log", "task-level", "%s message has task_level %s, expected %s" % (what, short(m.get("task_level")), base + [n]))
        if m.get("task_uuid") != start.get("task_uuid"): bad("action-log", "task-uuid", "%s message task_uuid %s differs from start's %s" % (what, short(m.get("task_uuid")), short(start.get("task_uuid"))))
        if not isinstance(m.get("timestamp"), float): bad("action-log", "timestamp", "%s message timestamp is %s" % (what, short(m.get("timestamp"))))
    if not isinstance(start.get("task_uuid"), str): bad("action-log", "task-uuid", "task_uuid is %s" % short(start.get("task_uuid")))
    elif ctx["parent_uuid"] is None:
        if start["task_uuid"] in ctx["seen_uuids"]: bad("action-log", "task-uuid", "top-level call reused task_uuid %s" % start["task_uuid"])
    elif start["task_uuid"] != ctx["parent_uuid"]: bad("action-log", "task-uuid", "nested call logged under task %s, parent is %s" % (start["task_uuid"], ctx["parent_uuid"]))
    if start.get("action_status") != "started": bad("action-log", "action-status", "start message action_status %s" % short(start.get("action_status")))
    for m, what in ((start, "start"), (end, "end")):
        if m.get("action_type") != B.expected_type or type(m.get("action_type")) is not str:
            bad("action-type", "wrong-action-type", "%s message action_type %s, expected %r" % (what, short(m.get("action_type")), B.expected_type))
    if inner.get("message_type") != "c18:inner": bad("action-log", "inner-message", "second message is %s" % short(inner))
    if dec.cur is None or getattr(dec.cur, "task_uuid", None) != start.get("task_uuid"):
        bad("action-log", "current-action-in-body", "current_action() inside the function was %s" % short(dec.cur))
    # start message: the arguments as Python bound them in the undecorated call
    expected = {k: v for k, v in ref.snap.items() if k != "self"}
    if imp == "cls": expected["cls"] = B.dec_cls
    ia = opts["include_args"]
    if ia is not None: expected = {k: v for k, v in expected.items() if k in ia["names"]}
    got_names = set(start) - set(ELIOT_FIELDS)
    for k in sorted(got_names - set(expected)): bad("argument-log", "extra-field", "start message has %s=%s, not an argument to log (include_args=%s)" % (k, short(start[k]), short(ia and ia["names"])))
    for k in sorted(set(expected) - set(start)): bad("argument-log", "missing-argument", "start message lacks argument %r (=%s)" % (k, short(expected[k])))
    for k in sorted(set(expected) & set(start)):
        if not same_binding(B.kinds.get(k), expected[k], start[k]):
            if k in RESERVED: Kn.append((K_RESERVED, "parameter %r bound to %s but the start message has Eliot's own %s" % (k, short(expected[k]), short(start[k]))))
            else: bad("argument-log", "wrong-argument-value", "argument %r bound to %s but logged as %s" % (k, short(expected[k]), short(start[k])))
    # end message
    if ref.kind == "ok":
        if end.get("action_status") != "succeeded": bad("result-log", "end-status", "function returned but end message action_status %s" % short(end.get("action_status")))
        want = set(ELIOT_FIELDS) | ({"result"} if opts["include_result"] else set())
        if "result" in end and not opts["include_result"]: bad("result-log", "result-logged-despite-include_result-false", "end message has result=%s" % short(end["result"]))
        elif opts["include_result"] and "result" not in end: bad("result-log", "result-missing", "end message %s lacks result (returned %s)" % (short(sorted(end)), short(dec.returned)))
        elif opts["include_result"] and (end["result"] is not dec.returned): bad("result-log", "wrong-result-logged", "returned %s, logged %s" % (short(dec.returned), short(end["result"])))
        if set(end) - want - {"result"}: bad("result-log", "extra-field", "end message has extra fields %s" % sorted(set(end) - want))
    else:
        e = dec.raised
        if end.get("action_status") != "failed": bad("result-log", "end-status", "function raised but end message action_status %s" % short(end.get("action_status")))
        if end.get("exception") != "%s.%s" % (type(e).__module__, type(e).__name__): bad("result-log", "exception-field", "raised %s, end message exception=%s" % (short(e), short(end.get("exception"))))
        if end.get("reason") != str(e): bad("result-log", "reason-field", "raised %s, end message reason=%s" % (short(e), short(end.get("reason"))))
        extra = set(end) - set(ELIOT_FIELDS) - {"exception", "reason"}
        if extra: bad("result-log", "extra-field", "failed end message has extra fields %s" % sorted(extra))
    return P, Kn


# ---------------------------------------------------------------- running one scenario
MSGS = []
SEEN_UUIDS = set()

def outer_plain(thunk): return thunk()
try: outer_lc = log_call(action_type="c18:outer_lc", include_args=[], include_result=False)(outer_plain)
except Exception: outer_lc = log_call(outer_plain)

def run_in_context(context, fn, a, kw, behaviour):
    """Runs the decorated call in the given context. -> (Out, new messages, ctx dict, problems)"""
    P = []; res = {}
    def bad(kind, text): P.append(({"clause": "action-log", "kind": kind}, text))
    def core(parent, prefix, idx):
        n0 = len(MSGS)
        o = invoke(fn, a, kw, behaviour, True)
        n1 = len(MSGS)
        if current_action() is not parent: bad("current-action-not-restored", "after the call current_action() is %s, before it was %s" % (short(current_action()), short(parent)))
        res["out"] = o; res["new"] = MSGS[n0:n1]
        if parent is not None:
            log_message(message_type="c18:post")
            want = prefix + [idx + (1 if res["new"] else 0)]   # a child index is used up iff the call logged an action
            if MSGS[n1].get("task_level") != want: bad("sibling-numbering", "message logged by the caller after the call has task_level %s, expected %s" % (short(MSGS[n1].get("task_level")), want))
        res["ctx"] = {"base": (prefix + [idx]) if parent is not None else [], "parent_uuid": parent.task_uuid if parent is not None else None, "seen_uuids": SEEN_UUIDS}
    if context == "top":
        core(None, [], 0)
    elif context == "nested":
        with start_action(action_type="c18:outer") as o:
            log_message(message_type="c18:pre"); core(o, [], 3)
    elif context == "nested_logcall":
        def thunk(): core(current_action(), [], 2)
        outer_lc(thunk)
    elif context == "deep":
        with start_action(action_type="c18:outer"):
            with start_action(action_type="c18:mid") as mid:
                core(mid, [2], 2)
    else: raise RuntimeError("driver: unknown context")
    if current_action() is not None: bad("current-action-not-restored", "after everything current_action() is %s" % short(current_action()))
    return res["out"], res["new"], res["ctx"], P


def run_scenario(sc):
    """-> (problems, knowns), each a list of (signature dict, text)"""
    sig = sc["sig"]; target = sc["target"]; opts = sc["opts"]
    B = get_build(sig, target, sc["doc"], opts)
    del MSGS[:]
    P, Kn = check_decoration(B, opts)
    if sc["type"] == "decorate": return P, Kn
    if B.dec is None: return P, Kn
    a = sc["call"]["args"]; kw = sc["call"]["kwargs"]; behaviour = sc["behaviour"]
    ref = invoke(B.ref, a, kw, behaviour, False)
    dec, new, ctx, P0 = run_in_context(sc["context"], B.dec, a, kw, behaviour)
    P, Kn = check_call(B, opts, ref, dec, new, ctx)
    P = P + P0
    if P:
        names = set(p[0] for p in sig); ia = opts["include_args"]
        candidates = [(ref, P, Kn)]
        if B.has_po and (set(kw) & B.po_names):
            # known 1: would the decorated behaviour be right for the same function without '/'?
            ref2 = invoke(B.ref2, a, kw, behaviour, False)
            P2, Kn2 = check_call(B, opts, ref2, dec, new, ctx)
            candidates.append((ref2, P2 + P0, Kn2 + [(K_POSONLY, "call passes positional-only name(s) %s by keyword: undecorated %s, decorated %s -- exactly the behaviour of the function without '/'" % (
                sorted(set(kw) & B.po_names), ("raises " + short(ref.value)) if ref.runs == 0 else "accepts it",
                "runs the function" if dec.runs else ("raises " + short(dec.value))))]))
        for r, Px, Knx in candidates:
            if not Px: return [], Knx
            rejected = r.runs == 1 and dec.runs == 0 and dec.kind == "exc" and not new and not P0
            if rejected and "_call" in names and type(dec.value) is TypeError and "object is not callable" in str(dec.value):
                return [], Knx + [(K_CALL, "parameter named _call: undecorated call works, decorated raises %s" % short(dec.value))]
            if rejected and ia is not None and "self" in ia["names"] and "self" in B.param_names and type(dec.value) is KeyError and dec.value.args == ("self",):
                return [], Knx + [(K_INCSELF, "include_args lists 'self': decoration accepted, call raises %s" % short(dec.value))]
        if len(candidates) == 2 and (len(candidates[1][1]) < len(P) or ((dec.runs == 1) == (ref2.runs == 1) and (dec.runs == 1) != (ref.runs == 1))):
            # the known '/' deviation plus something else: report the something else, relative to the '/'-less function
            P, Kn = candidates[1][1], candidates[1][2]
    if len(new) >= 1 and isinstance(new[0].get("task_uuid"), str) and ctx["parent_uuid"] is None: SEEN_UUIDS.add(new[0]["task_uuid"])
    return P, Kn


# ---------------------------------------------------------------- enumeration
def shapes(maxn):
    out = []
    for n_po in range(maxn + 1):
        for n_pk in range(maxn + 1 - n_po):
            for va in (0, 1):
                for n_ko in range(maxn + 1):
                    for vk in (0, 1):
                        if n_po + n_pk + va + n_ko + vk > maxn: continue
                        npos = n_po + n_pk
                        for ndef in range(npos + 1):
                            for kodef in itertools.product((0, 1), repeat=n_ko):
                                kinds = ["po"] * n_po + ["pk"] * n_pk + ["va"] * va + ["ko"] * n_ko + ["vk"] * vk
                                dfl = [0] * (npos - ndef) + [1] * ndef + [0] * va + list(kodef) + [0] * vk
                                out.append(list(zip(kinds, dfl)))
    return out

TIER_PARAMS = {"quick": (3, 3, 3, 12, 300), "thorough": (4, 5, 4, 24, 4000)}   # max params, colliding namings, option sets, calls per function, random signatures
class Enum(object):
    def __init__(self, tier, seed):
        self.tier = tier; self.rng = random.Random(seed); self.c_collide = {}; self.c_opt = seed % 7; self.c_form = 0
        self.c_target = 0; self.c_doc = 0; self.c_ctx = 0; self.c_beh = 0; self.c_dflt = 0
        self.quick = tier == "quick"
        if tier not in TIER_PARAMS: self.tier = "thorough"

    def name_sig(self, shape, collide_positions, target):
        """shape: [(kind, has_default)], collide_positions: indexes that get a colliding name"""
        used = set(); imp = implicit_name(target)
        if imp: used.add(imp)
        cnt = {}; sig = []
        for i, (kind, hasd) in enumerate(shape):
            name = None
            if i in collide_positions:
                for _ in range(len(COLLIDE)):
                    c = self.c_collide.get(kind, 0); self.c_collide[kind] = c + 1
                    cand = COLLIDE[(c * 5 + {"po": 0, "pk": 1, "va": 2, "ko": 3, "vk": 4}[kind]) % len(COLLIDE)]
                    if cand not in used: name = cand; break
            if name is None:
                j = cnt.get(kind, 0); cnt[kind] = j + 1; name = PLAIN[kind][j]
            used.add(name)
            d = None
            if hasd:
                d = [DEFAULTS[self.c_dflt % len(DEFAULTS)]]; self.c_dflt += 1
            sig.append([name, kind, d])
        return sig

    def option_sets(self, sig, target, count):
        names = [p[0] for p in sig]; imp = implicit_name(target)
        allparams = ([imp] if imp else []) + names
        out = []
        forms_default = ["bare", "factory", "direct", "explicit"]; forms_other = ["factory", "direct", "explicit"]
        self.c_form += 1
        out.append({"form": forms_default[self.c_form % 4], "action_type": None, "include_args": None, "include_result": True})
        total = len(IA_VARIANTS) * len(AT_VARIANTS) * 2
        while len(out) < count:
            self.c_opt += 1; i = (self.c_opt * 7) % total          # 7 is coprime with 60
            iav = IA_VARIANTS[i % len(IA_VARIANTS)]; at = AT_VARIANTS[(i // len(IA_VARIANTS)) % 3]; ir = bool((i // (len(IA_VARIANTS) * 3)) % 2)
            if iav == "none": ia = None
            elif iav == "empty_list": ia = {"t": "list", "names": []}
            elif iav == "empty_tuple": ia = {"t": "tuple", "names": []}
            elif iav == "empty_set": ia = {"t": "frozenset", "names": []}
            elif iav == "first": ia = {"t": "list", "names": names[:1]}
            elif iav == "all_rev": ia = {"t": "tuple", "names": names[::-1]}
            elif iav == "all_set": ia = {"t": "set", "names": sorted(names)}
            elif iav == "dup": ia = {"t": "list", "names": names[-1:] * 2}
            elif iav == "bogus": ia = {"t": "list", "names": names[:1] + ["no_such_param"]}
            elif iav == "self": ia = {"t": "list", "names": ["self"] + names[:1]}
            self.c_form += 1
            o = {"form": forms_other[self.c_form % 3], "action_type": at, "include_args": ia, "include_result": ir}
            if o["action_type"] is None and ia is None and ir: continue
            out.append(o)
        return out

    def calls(self, sig, target, B, count):
        """all calls within the bound, classified with the undecorated function, then sampled (valid-heavy)"""
        npos = sum(1 for p in sig if p[1] in ("po", "pk")); has_va = any(p[1] == "va" for p in sig)
        keys = [p[0] for p in sig] + ["zz"]
        if any(p[1] == "vk" for p in sig) or not self.quick: keys.append(self.rng.choice(["logger", "action_type", "self", "wrapped_function", "fields", "func"]))
        if implicit_name(target) and implicit_name(target) not in keys: keys.append(implicit_name(target))
        keys = list(dict.fromkeys(keys))
        maxk = 2 if self.quick else 3
        allc = []
        for np_ in range(npos + 2 + has_va):
            for r in range(maxk + 1):
                for ks in itertools.combinations(keys, r):
                    allc.append({"args": POSVALS[:np_], "kwargs": {k: "kv_" + k for k in ks}})
        valid = []; invalid = []
        for c in allc:
            o = invoke(B.ref, c["args"], c["kwargs"], "ret_none", False)
            (valid if o.runs == 1 else invalid).append(c)
        nv = min(len(valid), max(count - min(len(invalid), count // 3), 1))
        ni = min(len(invalid), count - nv)
        return self.rng.sample(valid, nv) + self.rng.sample(invalid, ni), len(valid) + len(invalid)

    def scenarios_for(self, sig, target, nopts, ncalls):
        self.c_doc += 1; doc = self.c_doc % 4 != 0
        for opts in self.option_sets(sig, target, nopts):
            base = {"sig": sig, "target": target, "doc": doc, "opts": opts}
            yield dict(base, type="decorate")
            B = get_build(sig, target, doc, opts)
            if B.dec is None: continue
            cs, _ = self.calls(sig, target, B, ncalls)
            for c in cs:
                self.c_ctx += 1; self.c_beh += 1
                yield dict(base, type="call", call=c, context=CONTEXTS[self.c_ctx % 4], behaviour=BEHAVIOURS[self.c_beh % 9])

    def all(self):
        q = self.quick
        maxn, ncoll, nopts, ncalls, nrand = TIER_PARAMS[self.tier]
        targets = ["function", "method", "function", "staticmethod", "function", "method", "function", "classmethod"]
        for si, shape in enumerate(shapes(maxn)):
            namings = [set()]
            n = len(shape)
            for r in range(ncoll if n else 0):
                pos = {(si + r) % n}
                if r >= 2 and n > 1: pos.add((si + r + 1 + r // 2) % n)
                if r == 4: pos = set(range(n))
                namings.append(pos)
            for pos in namings:
                self.c_target += 1; target = targets[self.c_target % 8]
                sig = self.name_sig(shape, pos, target)
                for sc in self.scenarios_for(sig, target, nopts, ncalls): yield sc
        # seeded-random larger signatures, names drawn from the whole pool
        for _ in range(nrand):
            n_po = self.rng.choice([0, 0, 1, 2]); n_pk = self.rng.randint(0, 3); va = self.rng.randint(0, 1); n_ko = self.rng.randint(0, 2); vk = self.rng.randint(0, 1)
            npos = n_po + n_pk; ndef = self.rng.randint(0, npos)
            kinds = ["po"] * n_po + ["pk"] * n_pk + ["va"] * va + ["ko"] * n_ko + ["vk"] * vk
            dfl = [0] * (npos - ndef) + [1] * ndef + [0] * va + [self.rng.randint(0, 1) for _ in range(n_ko)] + [0] * vk
            shape = list(zip(kinds, dfl))
            pos = set(i for i in range(len(shape)) if self.rng.random() < 0.5)
            target = self.rng.choice(targets)
            sig = self.name_sig(shape, pos, target)
            for sc in self.scenarios_for(sig, target, 2, 8 if q else 16): yield sc



def stacked_probes():
    """log_call stacked over another (functools.wraps) decorator that supplies an argument itself: the decorated callable must accept and
    reject exactly the calls the undecorated one does, with the same result / exception class (found missing by seeded change C18-4)"""
    import functools
    out = []; n = 0
    def inject(fn):
        @functools.wraps(fn)
        def inner(*a, **kw): return fn("CONN", *a, **kw)
        return inner
    def raw(conn, q, limit=10): return (conn, q, limit)
    def raw_kwonly(conn, q, *, limit=10): return (conn, q, limit)
    calls = [(("q",), {}), (("q",), {"limit": 3}), ((), {"q": "x"}), (("q", 5), {}), ((), {}), (("q",), {"nope": 1})]
    for rawfn in (raw, raw_kwonly):
        plain = inject(rawfn)
        for opts in ({}, {"include_result": False}, {"action_type": "probe"}):
            dec = log_call(inject(rawfn), **opts) if opts else log_call(inject(rawfn))
            for a, kw in calls:
                n += 1
                def run(f):
                    try: return ("ret", f(*a, **kw))
                    except Exception as e: return ("exc", type(e).__name__)
                want, got = run(plain), run(dec)
                if want != got:
                    out.append(({"clause": "transparent-call", "family": "stacked-over-wraps-decorator"},
                                "%s%r %r options %r: undecorated %r, decorated %r" % (rawfn.__name__, a, kw, opts, want, got)))
    return n, out

def main():
    fails = {}; known = {}; cases = 0; seen = set(); t0 = time.time()
    limit = 33 if args.tier == "quick" else 780
    add_destinations(MSGS.append)
    truncated = False
    try:
        scs = [json.loads(args.scenario)] if args.scenario else Enum(args.tier, args.seed).all()
        if not args.scenario:
            pn, pf = stacked_probes()
            cases += pn
            if pf:
                fails[json.dumps(pf[0][0], sort_keys=True)] = {"signature": pf[0][0], "scenario": {"probe": "stacked"}, "observed": [t for _, t in pf[:4]]}
        for sc in scs:
            if time.time() - t0 > limit: truncated = True; break
            cases += 1; seen.add(hash(json.dumps(sc, sort_keys=True)))
            try:
                P, Kn = run_scenario(sc)
            except RuntimeError: raise
            except Exception as e:
                P, Kn = [({"clause": "driver", "kind": "unexpected-" + type(e).__name__}, "checking raised %s" % short(e))], []
            for store, items in ((fails, P), (known, Kn)):
                if items:
                    if store is known and items[0][0] not in KNOWN_SIGS: raise RuntimeError("driver: unknown known signature")
                    key = json.dumps(items[0][0], sort_keys=True)
                    if key not in store and len(store) < 5:
                        store[key] = {"signature": items[0][0], "scenario": sc, "observed": [t for _, t in items[:4]]}
                    elif key in store: store[key]["count"] = store[key].get("count", 1) + 1
    finally:
        remove_destination(MSGS.append)
    for d in list(fails.values()) + list(known.values()): d.pop("count", None)
    q = args.tier == "quick"; TP = TIER_PARAMS.get(args.tier, TIER_PARAMS["thorough"])
    print(json.dumps({"cases": cases, "distinct": len(seen), "failures": list(fails.values()), "known": list(known.values()),
                      "bound": ("36 probe calls of log_call stacked over an argument-injecting functools.wraps decorator; every signature shape with <= %d explicit parameters (positional-only / positional-or-keyword / *args / keyword-only / **kwargs, every trailing-default pattern), "
                                "plain names plus %d namings that put Eliot/boltons/inspect-colliding names (%d names incl. logger, action_type, _serializers, self, fields) at rotating positions, "
                                "as function / method / staticmethod / classmethod; plus %d seeded-random signatures with <= 9 parameters; calls with 0..npos+1(+1) positional values and every keyword subset of size <= %d over "
                                "parameter names + unknown + colliding keys (sampled, valid-heavy, %d per decorated function); options: 4 decorator forms x action_type {default, custom, ''} x 10 include_args variants "
                                "(None, [], (), frozenset(), first, all reversed, set, duplicates, unknown name, 'self') x include_result; contexts top-level / in action / in log_call'd caller / two deep; 9 return/raise behaviours%s"
                                % (TP[0], TP[1], len(COLLIDE), TP[4], 2 if q else 3, TP[3], "; TRUNCATED by the time limit" if truncated else "")),
                      "rule": "scenario = (signature, target kind, docstring?, decorator options, then either 'decorate' (metadata + include_args validation) or one call (args, kwargs, calling context, body behaviour)); "
                              "oracle = the same generated source exec'd with an identity decorator, whose body records the bound arguments; compared clause by clause: TypeError iff undecorated TypeError and body not run, "
                              "identical bound arguments (by identity), returned/raised object identical to what the body returned/raised, exactly start+inner+end messages with right task_uuid/task_level/action_type, "
                              "start fields == bound arguments minus self restricted to include_args, end result iff include_result / exception+reason on failure, current action restored, sibling numbering intact; "
                              "distinct = distinct scenario JSON; every scenario decorates a real function so none is trivial"}))
main()
