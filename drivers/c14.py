"""Native driver for C14 (bounded + seeded-random; real code): test-time validation accepts exactly the
messages matching their declared types; unflushed tracebacks fail the check; capture_logging restores the logger.

Every scenario builds fresh MessageType/ActionType definitions out of a catalogue of field kinds, emits
messages through the real public API (MessageType.log / Message.write / bind, ActionType with/run/finish/as_task,
write_traceback / writeFailure, untyped log_message / start_action) or, for deviations the API cannot express,
through MemoryLogger.write(dict, serializer), optionally interleaved with validate()/check_for_errors()/reset(),
and finally checks the log through one of four entry points: MemoryLogger.validate(), check_for_errors(),
a @validate_logging TestCase, a @capture_logging TestCase (with every test outcome).  The expected verdict comes
from an independent oracle in this file (own isinstance/==/JSON-encodability rules, own model of held messages
and unflushed tracebacks); eliot's serializers are never consulted for the expectation.

Prints one JSON line: {cases, distinct, failures:[{signature, scenario, observed}], known:[...], rule, bound}.

KNOWN_ON_UNCHANGED_TREE (genuine violations on the unchanged /repo; still detected, reported under "known"):
  * signature {"clause": "conforming_rejected", "cause": "int_beyond_64bit_rejected_by_json_backend"}:
    a message that conforms to its declared type (e.g. MessageType("app:msg", [Field.for_types("kq0", [int], "")])
    logged with kq0=2**70, or a field accepting any value) is rejected by validate()/check_for_errors() with
    TypeError "Message {...} doesn't encode to JSON: Integer exceeds 64-bit range", because the orjson backend
    used by MemoryLogger is stricter than JSON (the stdlib json fallback accepts the same message).
"""
import argparse, itertools, json, random, sys, unittest, warnings
from datetime import date
from decimal import Decimal
from pathlib import Path

ap = argparse.ArgumentParser(); ap.add_argument("--tier", default="quick"); ap.add_argument("--seed", type=int, default=0)
ap.add_argument("--scenario"); args = ap.parse_args()
warnings.simplefilter("ignore")

try:
    from eliot import (MemoryLogger, MessageType, ActionType, Field, fields as fields_factory, ValidationError,
                       write_traceback, start_action, log_message)
    from eliot import _output
    from eliot._errors import _error_extraction
    from eliot._traceback import TRACEBACK_MESSAGE, writeFailure
    from eliot.testing import check_for_errors, UnflushedTracebacks, validate_logging, capture_logging
    from eliot.json import EliotJSONEncoder, json_default as eliot_json_default
except Exception as _e:  # the tree under test cannot even be imported: report it in the protocol's shape
    print(json.dumps({"cases": 1, "distinct": 1, "known": [], "bound": "import", "rule": "import",
                      "failures": [{"signature": {"clause": "import_error"}, "scenario": {"fam": "import"},
                                    "observed": ["importing eliot raised %s: %s" % (type(_e).__name__, str(_e)[:200])]}]}))
    sys.exit(0)

# ---------------------------------------------------------------------------------------------- values

class Rich(object):
    def __init__(self, n): self.n = n
    def __repr__(self): return "Rich(%d)" % self.n

class Opaque(object):
    def __repr__(self): return "<Opaque>"

VALUES = {
    "none": lambda: None, "true": lambda: True, "false": lambda: False,
    "i0": lambda: 0, "i7": lambda: 7, "i8": lambda: 8, "ineg": lambda: -3, "i41": lambda: 41, "i42": lambda: 42,
    "ibig": lambda: 2 ** 40, "ihuge": lambda: 2 ** 70,
    "f42": lambda: 42.0, "f1.5": lambda: 1.5,
    "s_empty": lambda: "", "s_hello": lambda: "hello", "s_uni": lambda: "hé☃", "s_42": lambda: "42",
    "s_fixed": lambda: "fixed",
    "l_empty": lambda: [], "l_mixed": lambda: [1, "a", [None, 2.5]], "d_empty": lambda: {},
    "d_nested": lambda: {"k": [1, {"z": None}]},
    "set": lambda: {1}, "path": lambda: Path("/tmp/x"), "date": lambda: date(2020, 1, 2), "complex": lambda: 1 + 2j,
    "bytes": lambda: b"raw", "opaque": lambda: Opaque(), "l_opaque": lambda: [1, Opaque()],
    "d_opaque": lambda: {"k": Opaque()}, "decimal": lambda: Decimal("1.5"),
    "rich5": lambda: Rich(5), "rich_neg": lambda: Rich(-1),
}
VNAMES = list(VALUES)
NONJSON = ["opaque", "l_opaque", "d_opaque", "bytes", "decimal", "rich5"]

def val(name): return VALUES[name]()

OPAQUE_OK = [False]  # set while a scenario uses a custom encoder / json_default that knows Opaque

def custom_default(o):
    if isinstance(o, Opaque): return "opaque!"
    return eliot_json_default(o)

class CustomEncoder(EliotJSONEncoder):
    def default(self, o):
        if isinstance(o, Opaque): return "opaque!"
        return EliotJSONEncoder.default(self, o)

def json_ok(v):
    """Independent oracle: can this value be written as JSON by eliot's documented encoder (JSON types plus the
    json_default extras: set, Path, date/time, complex; plus Opaque when the scenario supplies its own encoder)?
    JSON itself has no integer bound."""
    if isinstance(v, Opaque): return OPAQUE_OK[0]
    if v is None or isinstance(v, (bool, int, float, str)): return True
    if isinstance(v, (list, tuple, set)): return all(json_ok(x) for x in v)
    if isinstance(v, dict): return all(isinstance(k, str) and json_ok(x) for k, x in v.items())
    if isinstance(v, (Path, date, complex)): return True
    return False

def has_huge(v):
    if isinstance(v, bool): return False
    if isinstance(v, int): return not (-2 ** 63 <= v < 2 ** 64)
    if isinstance(v, (list, tuple, set)): return any(has_huge(x) for x in v)
    if isinstance(v, dict): return any(has_huge(x) for x in v.values())
    return False

# ---------------------------------------------------------------------------------------------- field kinds

def _types_kind(classes, good, extra=None, extra_ok=None):
    pyclasses = tuple(type(None) if c is None else c for c in classes)
    def make(key): return Field.for_types(key, list(classes), "d", extra(key) if extra else None)
    def accepts(v):
        if not isinstance(v, pyclasses): return "reject"
        if extra_ok is not None and not extra_ok(v): return "reject"
        return "ok"
    return dict(make=make, accepts=accepts, ser=lambda v: v, idem=True, good=good)

def _even_validator(key):
    def validate(v):
        if v % 2: raise ValidationError(v, "field %r must be even" % (key,))
    return validate

def _rich_serializer(key):
    def ser(v):
        if not isinstance(v, Rich): raise ValidationError(v, "field %r must be Rich" % (key,))
        return v.n
    return ser

def _nonneg_validator(key):
    def validate(v):
        if v.n < 0: raise ValidationError(v, "field %r must not be negative" % (key,))
    return validate

def _eq(a, b):
    try: return bool(a == b)
    except Exception: return False

KINDS = {
    "int": _types_kind([int], "i7"), "str": _types_kind([str], "s_hello"), "float": _types_kind([float], "f1.5"),
    "bool": _types_kind([bool], "true"), "list": _types_kind([list], "l_mixed"), "dict": _types_kind([dict], "d_nested"),
    "none": _types_kind([None], "none"), "int_none": _types_kind([int, None], "none"),
    "str_int": _types_kind([str, int], "s_uni"), "bytes": _types_kind([bytes], "bytes"),
    "int_even": _types_kind([int], "i8", _even_validator, lambda v: v % 2 == 0),
    "kw_int": dict(make=lambda key: fields_factory(**{key: int})[0],
                   accepts=lambda v: "ok" if isinstance(v, int) else "reject", ser=lambda v: v, idem=True, good="i0"),
    "const42": dict(make=lambda key: Field.for_value(key, 42, "d"),
                    accepts=lambda v: "ok" if _eq(v, 42) else "reject", ser=lambda v: 42, idem=True, good="i42"),
    "const_str": dict(make=lambda key: Field.for_value(key, "fixed", "d"),
                      accepts=lambda v: "ok" if _eq(v, "fixed") else "reject", ser=lambda v: "fixed", idem=True, good="s_fixed"),
    "rich": dict(make=lambda key: Field(key, _rich_serializer(key), "d"),
                 accepts=lambda v: "ok" if isinstance(v, Rich) else "reject", ser=lambda v: v.n, idem=False, good="rich5"),
    # serializer raises AttributeError (not ValidationError) on wrong-typed input; extra validator on the rich value
    "rich_pos": dict(make=lambda key: Field(key, lambda v: v.n, "d", _nonneg_validator(key)),
                     accepts=lambda v: "other" if not isinstance(v, Rich) else ("ok" if v.n >= 0 else "reject"),
                     ser=lambda v: v.n, idem=False, good="rich5"),
    "any": dict(make=lambda key: Field(key, lambda v: v, "d"), accepts=lambda v: "ok", ser=lambda v: v, idem=True, good="d_nested"),
    "strof": dict(make=lambda key: Field(key, str, "d"), accepts=lambda v: "ok", ser=lambda v: str(v), idem=True, good="opaque"),
    # internal kinds used only by the oracle for library-defined messages (traceback):
    "_exctype": dict(accepts=lambda v: "ok" if hasattr(v, "__module__") and hasattr(v, "__name__") else "other",
                     ser=lambda v: "x", idem=False),
}
USER_KINDS = [k for k in KINDS if not k.startswith("_")]
IDEM_KINDS = [k for k in USER_KINDS if KINDS[k]["idem"] and k != "bytes"]
RESERVED = ("task_uuid", "task_level", "timestamp")
# extra-field names; those in COLLIDE cannot be passed through the keyword APIs and are written raw
EXTRA_NAMES = ["extra_x", "reason", "exception", "traceback", "errno", "code", "action_type", "action_status",
               "message_type", "_hidden", "task_id"]
COLLIDE = {"action_type", "message_type", "action_status", "logger", "_serializers", "self"} | set(RESERVED)

def problems_of(d, schema, consts, allow_extra):
    """Oracle. d: the full intended message (minus reserved fields).  Returns list of (class-name, key)."""
    probs = []; ser = dict(d)
    for key, kind in schema:
        if key not in d: probs.append(("ValidationError", key)); continue
        a = KINDS[kind]["accepts"](d[key])
        if a == "reject": probs.append(("ValidationError", key))
        elif a == "other": probs.append(("other", key))
        else: ser[key] = KINDS[kind]["ser"](d[key])
    for key, want in consts.items():
        if key not in d or not _eq(d[key], want): probs.append(("ValidationError", key))
        else: ser[key] = want
    declared = set(k for k, _ in schema) | set(consts) | set(RESERVED)
    for key in d:
        if key not in declared and not allow_extra: probs.append(("ValidationError", key))
        elif not isinstance(key, str): probs.append(("TypeError", key))
    for key, v in ser.items():
        if not json_ok(v): probs.append(("TypeError", key))
    return probs

# ---------------------------------------------------------------------------------------------- exceptions

class AppError(Exception):
    def __init__(self, code): Exception.__init__(self, "app error %d" % code); self.code = code
class AppSub(AppError): pass
class AppBad(Exception): pass
class AppRaises(Exception): pass
class AppEmpty(Exception): pass
class Boom(BaseException): pass

EXTRACTORS = {
    AppError: lambda e: {"code": e.code, "detail": [1, "two"]},
    AppBad: lambda e: {"obj": Opaque()},
    AppRaises: lambda e: 1 // 0,
    AppEmpty: lambda e: {},
}
EXCS = {  # name -> (factory, expected extractor fields, extractor itself raises)
    "value": (lambda: ValueError("boom"), lambda e: {}, False),
    "zerodiv": (lambda: ZeroDivisionError("div"), lambda e: {}, False),
    "oserror": (lambda: OSError(5, "io"), lambda e: {"errno": 5}, False),
    "fnf": (lambda: FileNotFoundError(2, "no such file"), lambda e: {"errno": 2}, False),
    "app": (lambda: AppError(17), lambda e: {"code": 17, "detail": [1, "two"]}, False),
    "appsub": (lambda: AppSub(3), lambda e: {"code": 3, "detail": [1, "two"]}, False),
    "app_nonjson": (lambda: AppBad("bad"), lambda e: {"obj": Opaque()}, False),
    "app_raises": (lambda: AppRaises("r"), lambda e: {}, True),
    "app_empty": (lambda: AppEmpty("e"), lambda e: {}, False),
    "base": (lambda: Boom("b"), lambda e: {}, False),
}
EXC_NAMES = list(EXCS)

class FakeFailure(object):
    """Just what eliot._traceback.writeFailure uses of twisted.python.failure.Failure."""
    def __init__(self, value): self.value = value
    def getBriefTraceback(self): return "Traceback: %s" % (self.value.__class__.__name__,)

# ---------------------------------------------------------------------------------------------- model

class Model(object):
    """What the log is known to hold: problems of nonconforming messages (in write order) and tracebacks."""
    def __init__(self): self.reset()
    def reset(self): self.bad = []; self.tbs = []; self.huge = False
    def add(self, probs, full):
        if probs: self.bad.append(probs)
        if any(has_huge(v) for v in full.values()): self.huge = True
    def add_tb(self, cls): self.tbs.append([cls, False])
    def flush(self, cls):
        n = 0
        for t in self.tbs:
            if not t[1] and issubclass(t[0], cls): t[1] = True; n += 1
        return n
    def expect_validate(self):
        if not self.bad: return None
        other = any(c == "other" for p in self.bad for c, _ in p)  # then a foreign exception propagates as is, without the report
        return {"classes": sorted(set(c for c, _ in self.bad[0])), "keys": [] if other else [[k for c, k in p] for p in self.bad]}  # per bad message: any one of its fields
    def expect_check(self):
        if any(not f for _, f in self.tbs): return {"classes": ["UnflushedTracebacks"], "keys": []}
        return self.expect_validate()

class Mismatch(Exception):
    def __init__(self, clause, text): self.clause = clause; self.text = text

def compare(exc, expectation, label, model):
    """exc: exception raised by the check (or None). Returns list of (clause, text)."""
    out = []
    if expectation is None:
        if exc is not None:
            cause = "other"
            if model.huge and isinstance(exc, TypeError) and "64-bit" in str(exc): cause = "int_beyond_64bit_rejected_by_json_backend"
            text = str(exc).replace("\n", " "); i = text.find("doesn't encode to JSON")
            if i > 100: text = text[:100] + " ... " + text[i:]
            out.append(("conforming_rejected:" + cause, "%s raised %s on a conforming log: %s" % (label, type(exc).__name__, text[:230])))
        return out
    classes = expectation["classes"]
    if exc is None:
        what = "unflushed_traceback_accepted" if classes == ["UnflushedTracebacks"] else "deviation_accepted"
        out.append((what, "%s did not raise; expected %s" % (label, "/".join(classes)))); return out
    if "other" not in classes and type(exc).__name__ not in classes:
        out.append(("wrong_exception_class", "%s raised %s, expected %s" % (label, type(exc).__name__, "/".join(classes))))
    elif classes != ["UnflushedTracebacks"]:
        text = str(exc)
        for ks in expectation["keys"]:
            if not any(repr(k) in text for k in ks):
                out.append(("report_lacks_field", "%s: %s text does not mention field %r" % (label, type(exc).__name__, ks[0]))); break
    return out

# ---------------------------------------------------------------------------------------------- emission

def apply_dev(d, dev):
    t = dev["t"]
    if t == "missing": d.pop(dev["key"], None)
    elif t == "extra": d[dev["name"]] = val(dev["value"])
    elif t == "replace": d[dev["key"]] = val(dev["value"])
    elif t == "intkey": d[7] = 1
    else: raise ValueError(dev)

def needs_raw(dev, user):
    if dev is None: return False
    t = dev["t"]
    if t == "intkey": return True
    if t == "extra": return dev["name"] in COLLIDE or dev["name"] in user
    return dev["key"] not in user

def build(user, consts, dev):
    """-> (user fields after deviation, or None if only a raw write can express it; full intended message)"""
    if needs_raw(dev, user):
        full = dict(user); full.update(consts); apply_dev(full, dev); return None, full
    u = dict(user)
    if dev is not None: apply_dev(u, dev)
    full = dict(u); full.update(consts); return u, full

def with_reserved(d):
    d = dict(d); d.setdefault("task_uuid", "uu-1"); d.setdefault("task_level", [1]); d.setdefault("timestamp", 1.5); return d

class default_logger(object):
    """Temporarily make `logger` the default one (driver-side swap, independent of eliot.testing)."""
    def __init__(self, logger): self.logger = logger
    def __enter__(self): self.prev = _output._DEFAULT_LOGGER; _output._DEFAULT_LOGGER = self.logger
    def __exit__(self, *a): _output._DEFAULT_LOGGER = self.prev

def raise_and_catch(exc):
    try: raise exc
    except BaseException: return sys.exc_info()

def emit(spec, logger, explicit, model):
    """Perform the library calls of one message spec and update the model with the oracle's view."""
    L = logger if explicit else None
    target = logger if explicit else _output._DEFAULT_LOGGER
    shape = spec["shape"]; dev = spec.get("dev"); path = spec.get("path")
    if shape == "msg":
        schema = [("kq%d" % i, k) for i, k in enumerate(spec["kinds"])]
        user = dict(("kq%d" % i, val(v)) for i, v in enumerate(spec["vals"]))
        MT = MessageType("app:msg", [KINDS[k]["make"](key) for key, k in schema], "d")
        consts = {"message_type": "app:msg"}
        u, full = build(user, consts, dev)
        model.add(problems_of(full, schema, consts, False), full)
        if u is None or path == "raw": target.write(with_reserved(full), MT._serializer)
        elif path == "log":
            if explicit:
                with default_logger(logger): MT.log(**u)
            else: MT.log(**u)
        elif path == "call_write": MT(**u).write(L)
        elif path == "bind": MT().bind(**u).write(L)
        elif path == "in_action":
            with start_action(L, "ctx:act", ctxfield=1):
                MT.log(**u)
        else: raise ValueError(path)
    elif shape == "action":
        schema = [("kq%d" % i, k) for i, k in enumerate(spec["kinds"])]
        sschema = [("sq%d" % i, k) for i, k in enumerate(spec["skinds"])]
        suser = dict(("kq%d" % i, val(v)) for i, v in enumerate(spec["vals"]))
        euser = dict(("sq%d" % i, val(v)) for i, v in enumerate(spec["svals"]))
        AT = ActionType("app:act", [KINDS[k]["make"](key) for key, k in schema], [KINDS[k]["make"](key) for key, k in sschema], "d")
        end = spec["end"]; exc = None; tb_first = False
        sconsts = {"action_type": "app:act", "action_status": "started"}
        if end == "success":
            econsts = {"action_type": "app:act", "action_status": "succeeded"}; eschema = sschema; eallow = False
        else:
            factory, extra, raises = EXCS[end]; exc = factory()
            econsts = {"action_type": "app:act", "action_status": "failed"}; eschema = [("reason", "str"), ("exception", "str")]; eallow = True
            euser = dict(extra(exc)); euser["exception"] = "%s.%s" % (type(exc).__module__, type(exc).__name__); euser["reason"] = str(exc)
            tb_first = raises
        su, sfull = build(suser, sconsts, dev if dev and dev["where"] == "start" else None)
        eu, efull = build(euser, econsts, dev if dev and dev["where"] == "end" else None)
        raw = su is None or eu is None or path == "raw" or (exc is not None and dev is not None and dev["where"] == "end")
        model.add(problems_of(sfull, schema, sconsts, False), sfull)
        if tb_first and not raw: model.add_tb(ZeroDivisionError)
        model.add(problems_of(efull, eschema, econsts, eallow), efull)
        if raw:
            target.write(with_reserved(sfull), AT._serializers.start)
            d = with_reserved(efull); d["task_level"] = [2]
            target.write(d, AT._serializers.success if exc is None else AT._serializers.failure)
        elif path in ("with", "nested"):
            def go():
                try:
                    with AT(L, **su) as a:
                        if exc is not None: raise exc
                        a.add_success_fields(**eu)
                except BaseException as e:
                    if e is not exc: raise
            if path == "nested":
                with start_action(L, "outer:act"): go()
            else: go()
        elif path == "task":
            a = AT.as_task(L, **su)
            if exc is None: a.addSuccessFields(**eu); a.finish()
            else: a.finish(exc)
        elif path == "run":
            a = AT(L, **su)
            a.run(lambda: a.add_success_fields(**eu) if exc is None else None)
            a.finish(exc)
        else: raise ValueError(path)
    elif shape == "tb":
        factory, extra, raises = EXCS[spec["exc"]]; exc = factory()
        schema = [("reason", "strof"), ("traceback", "strof"), ("exception", "_exctype")]
        consts = {"message_type": "eliot:traceback"}
        user = dict(extra(exc)); user.update(reason=exc, traceback="Traceback (most recent call last): ...", exception=type(exc))
        raw = dev is not None or path == "raw"
        if raw:
            full = dict(user); full.update(consts)
            if dev is not None: apply_dev(full, dev)
        else:
            full = dict(user); full.update(consts)
            if raises: model.add_tb(ZeroDivisionError)
        model.add_tb(type(exc)); model.add(problems_of(full, schema, consts, True), full)
        if raw: target.write(with_reserved(full), TRACEBACK_MESSAGE._serializer)
        elif path == "except":
            try: raise exc
            except BaseException: write_traceback(L)
        elif path == "exc_info": write_traceback(L, exc_info=raise_and_catch(exc))
        elif path == "failure": writeFailure(FakeFailure(exc), L)
        elif path == "in_action":
            with start_action(L, "ctx:act"):
                try: raise exc
                except BaseException: write_traceback(L)
        else: raise ValueError(path)
        fl = spec.get("flush")
        if fl:
            cls = {"exact": type(exc), "base": BaseException if isinstance(exc, Boom) else Exception, "other": KeyError}[fl]
            want = model.flush(cls); got = logger.flush_tracebacks(cls)
            if len(got) != want:
                raise Mismatch("flush_count", "flush_tracebacks(%s) returned %d messages, expected %d" % (cls.__name__, len(got), want))
    elif shape == "untyped":
        user = dict(("uq%d" % i, val(v)) for i, v in enumerate(spec["vals"]))
        u, full = build(user, {}, dev)
        model.add(problems_of(full, [], {}, True), full)
        if u is None or path == "raw":
            full["message_type"] = "untyped:msg"; target.write(with_reserved(full), None)
        elif path == "log_message":
            if explicit: log_message("untyped:msg", __eliot_logger__=logger, **u)
            else: log_message("untyped:msg", **u)
        elif path == "action":
            with start_action(L, "untyped:act", **u) as a:
                a.log("untyped:child", **u)
        else: raise ValueError(path)
    else: raise ValueError(shape)

def spec_tag(spec):
    dev = spec.get("dev"); shape = spec["shape"]
    if dev: return "%s/%s%s" % (shape, dev["t"], ":" + dev["where"] if "where" in dev else "")
    if shape == "tb": return "tb/%s/flush=%s" % (spec["exc"], spec.get("flush"))
    if shape == "action": return "action/%s/ok" % spec["end"]
    return shape + "/ok"

# ---------------------------------------------------------------------------------------------- running

def run_body(sc, logger, explicit, model, found):
    """Run all phases; intermediate ops are checked against the model. `found` collects (clause, text)."""
    phases = sc["phases"]
    for i, ph in enumerate(phases):
        for spec in ph["msgs"]:
            try: emit(spec, logger, explicit, model)
            except Mismatch as m: found.append((m.clause, m.text))
            except Exception as e:
                found.append(("emission_raised", "logging %s raised %s: %s" % (spec_tag(spec), type(e).__name__, str(e)[:120])))
        if i == len(phases) - 1: break
        for op in ph["op"].split("+"):
            if op == "none": continue
            if op == "reset": logger.reset(); model.reset(); continue
            exc = None
            try: logger.validate() if op == "validate" else check_for_errors(logger)
            except Exception as e: exc = e
            found.extend(compare(exc, model.expect_validate() if op == "validate" else model.expect_check(), "intermediate %s (phase %d)" % (op, i), model))

OUTCOMES = ["pass", "fail", "error", "skip", "skip_method", "subtest_fail", "teardown_error", "cleanup_error", "xfail", "xpass"]
ASSERTIONS = ["none", "record", "raises"]

def _raiser(e): raise e

def err_line(text):
    """The 'SomeError: ...' line of a formatted unittest error."""
    for line in text.splitlines():
        head = line.split(":")[0]
        if line[:1] not in (" ", "") and (head.endswith("Error") or head.endswith("Tracebacks") or head.endswith("Exception")): return line[:160]
    return text.strip().splitlines()[-1][:160]

def outcome_action(test, outcome):
    if outcome in ("fail", "xfail"): test.fail("intended failure")
    if outcome == "error": raise RuntimeError("intended error")
    if outcome == "skip": raise unittest.SkipTest("intended skip")
    if outcome == "skip_method": test.skipTest("intended skip")
    if outcome == "subtest_fail":
        with test.subTest(i=1): test.fail("intended subtest failure")

def base_counts(outcome, assertion):
    c = {"errors": 0, "failures": 0, "skipped": 0}
    if outcome in ("fail", "subtest_fail"): c["failures"] += 1
    if outcome in ("error", "teardown_error", "cleanup_error"): c["errors"] += 1
    if outcome in ("skip", "skip_method"): c["skipped"] += 1
    elif assertion == "raises": c["failures"] += 1
    return c

def run_decorated(sc, found):
    entry = sc["entry"]; outcome = sc.get("outcome", "pass"); assertion = sc.get("assertion", "none")
    deco = validate_logging if entry == "validate_logging" else capture_logging
    model = Model(); st = {}; calls = []
    def record(test, logger, *a, **kw): calls.append((test, logger, a, kw))
    def raising(test, logger, *a, **kw): calls.append((test, logger, a, kw)); test.fail("assertion function fails")
    afunc = {"none": None, "record": record, "raises": raising}[assertion]
    aargs = () if afunc is None else (1, "two"); akw = {} if afunc is None else {"kw": 3}
    if sc.get("encoder"): akw = dict(akw, encoder_=CustomEncoder)
    want_kw = dict((k, v) for k, v in akw.items() if k != "encoder_")

    class T(unittest.TestCase):
        def tearDown(self):
            if outcome == "teardown_error": raise RuntimeError("intended tearDown error")
        @deco(afunc, *aargs, **akw)
        def test_it(self, logger):
            st["logger"] = logger; st["during"] = _output._DEFAULT_LOGGER
            if outcome == "cleanup_error": self.addCleanup(_raiser, RuntimeError("intended cleanup error"))
            run_body(sc, logger, entry == "validate_logging", model, found)
            st["after_body"] = _output._DEFAULT_LOGGER
            outcome_action(self, outcome)
        if outcome in ("xfail", "xpass"): test_it = unittest.expectedFailure(test_it)

    original = _output._DEFAULT_LOGGER; sentinel = MemoryLogger(); _output._DEFAULT_LOGGER = sentinel
    try:
        result = unittest.TestResult(); case = T("test_it"); case.run(result)
        after = _output._DEFAULT_LOGGER
    finally:
        _output._DEFAULT_LOGGER = original
    label = "@%s test (%s)" % (entry, outcome)
    if result.testsRun != 1 or "logger" not in st:
        found.append(("test_not_run", "%s: decorated test body did not run" % label)); return
    if not isinstance(st["logger"], MemoryLogger): found.append(("logger_kwarg", "%s: logger kwarg is %r" % (label, st["logger"])))
    if after is not sentinel:
        found.append(("default_logger_not_restored", "%s: default logger afterwards is %s, not the previous one" % (label, "the test's MemoryLogger" if after is st["logger"] else repr(after))))
    if entry == "capture_logging":
        if st["during"] is not st["logger"] or st.get("after_body", st["logger"]) is not st["logger"]:
            found.append(("default_logger_not_swapped", "%s: default logger during the test is not the logger kwarg" % label))
        if sentinel.messages: found.append(("not_captured", "%s: %d messages reached the previous default logger" % (label, len(sentinel.messages))))
    elif st["during"] is not sentinel:
        found.append(("default_logger_changed", "%s: validate_logging changed the default logger" % label))
    skipped = outcome in ("skip", "skip_method")
    if afunc is not None:
        if skipped and calls: found.append(("assertion_called_on_skip", "%s: assertion function called for a skipped test" % label))
        if not skipped and (len(calls) != 1 or calls[0][0] is not case or calls[0][1] is not st["logger"] or calls[0][2] != aargs or calls[0][3] != want_kw):
            found.append(("assertion_call", "%s: assertion function calls: %r" % (label, [(c[2], c[3]) for c in calls])))
    if outcome in ("xfail", "xpass"): return
    expectation = model.expect_check()
    texts = [t for _, t in result.errors]
    counts = base_counts(outcome, assertion)
    if expectation is None:
        got = {"errors": len(result.errors), "failures": len(result.failures), "skipped": len(result.skipped)}
        if got != counts:
            cause = "other"
            if model.huge and any("64-bit" in t for t in texts): cause = "int_beyond_64bit_rejected_by_json_backend"
            found.append(("conforming_rejected:" + cause, "%s with a conforming log reported %r, expected %r; %s" % (label, got, counts, " | ".join(err_line(t) for t in texts[-1:]))))
        return
    classes = expectation["classes"]
    extra_errors = len(result.errors) - counts["errors"]
    hits = [t for t in texts if "other" in classes or any(("." + c + ":") in t or ("\n" + c + ":") in t for c in classes)]
    if result.wasSuccessful() or extra_errors < 1:
        what = "unflushed_traceback_accepted" if classes == ["UnflushedTracebacks"] else "deviation_accepted"
        found.append((what, "%s: expected an extra %s error from the logging check; result errors=%d failures=%d skipped=%d" % (label, "/".join(classes), len(result.errors), len(result.failures), len(result.skipped))))
    elif not hits:
        found.append(("wrong_exception_class", "%s: no error mentions %s: %s" % (label, "/".join(classes), " | ".join(err_line(t) for t in texts))))
    elif classes != ["UnflushedTracebacks"]:
        for ks in expectation["keys"]:
            if not any(repr(k) in t for t in hits for k in ks):
                found.append(("report_lacks_field", "%s: error text does not mention field %r" % (label, ks[0]))); break
    if len(result.failures) != counts["failures"] or len(result.skipped) != counts["skipped"] or extra_errors > 1:
        found.append(("result_counts", "%s: errors=%d failures=%d skipped=%d, expected failures=%d skipped=%d errors=%d" % (label, len(result.errors), len(result.failures), len(result.skipped), counts["failures"], counts["skipped"], counts["errors"] + 1)))

def run_nested(sc, found):
    """A capture_logging test that runs another capture_logging test inside its body."""
    st = {}
    MT = MessageType("app:msg", [Field.for_types("kq0", [int], "d")], "d")
    class Inner(unittest.TestCase):
        @capture_logging(None)
        def test_it(self, logger):
            st["inner"] = logger; st["inner_during"] = _output._DEFAULT_LOGGER
            MT.log(kq0="wrong" if sc["inner_dev"] else 1)
            outcome_action(self, sc["inner"])
        if sc["inner"] in ("xfail", "xpass"): test_it = unittest.expectedFailure(test_it)
    class Outer(unittest.TestCase):
        @capture_logging(None)
        def test_it(self, logger):
            st["outer"] = logger
            MT.log(kq0=1)
            r = unittest.TestResult(); Inner("test_it").run(r); st["inner_result"] = r
            st["after_inner"] = _output._DEFAULT_LOGGER
            MT.log(kq0=2)
            outcome_action(self, sc["outer"])
        if sc["outer"] in ("xfail", "xpass"): test_it = unittest.expectedFailure(test_it)
    original = _output._DEFAULT_LOGGER; sentinel = MemoryLogger(); _output._DEFAULT_LOGGER = sentinel
    try:
        result = unittest.TestResult(); Outer("test_it").run(result); after = _output._DEFAULT_LOGGER
    finally:
        _output._DEFAULT_LOGGER = original
    if "inner" not in st or "after_inner" not in st: found.append(("test_not_run", "nested tests did not run")); return
    if st["inner_during"] is not st["inner"]: found.append(("default_logger_not_swapped", "inner test: default logger is not its logger kwarg"))
    if st["after_inner"] is not st["outer"]:
        found.append(("default_logger_not_restored", "after the inner capture_logging test (%s) the default logger is not the outer test's logger" % sc["inner"]))
    if after is not sentinel:
        found.append(("default_logger_not_restored", "after the outer capture_logging test (%s) the default logger is not the previous one" % sc["outer"]))
    if sentinel.messages: found.append(("not_captured", "messages reached the previous default logger"))
    if [m.get("kq0") for m in st["outer"].messages] != [1, 2]: found.append(("not_captured", "outer logger holds %r" % ([m.get("kq0") for m in st["outer"].messages],)))
    r = st["inner_result"]
    if sc["inner"] not in ("xfail", "xpass"):
        if sc["inner_dev"] and not any("ValidationError" in t for _, t in r.errors):
            found.append(("deviation_accepted", "inner test (%s) with a wrong-typed message reported no ValidationError" % sc["inner"]))
        if not sc["inner_dev"] and len(r.errors) != base_counts(sc["inner"], "none")["errors"]:
            found.append(("conforming_rejected:other", "inner test (%s) with a conforming log reported errors %r" % (sc["inner"], [err_line(t) for _, t in r.errors])))

def run_defs(sc, found):
    """Type definitions: declaring a reserved / duplicate / underscore field, or a non-JSON class, must be refused
    (otherwise 'no undeclared field other than task_uuid, task_level, timestamp' is not well defined)."""
    kind = sc["def"]
    def attempt(f):
        try: f()
        except (ValueError, TypeError): return True
        except Exception as e: found.append(("definition", "%s: unexpected %s" % (kind, type(e).__name__))); return True
        return False
    F = lambda k: Field.for_types(k, [int], "d")
    bad = {
        "reserved_task_uuid": lambda: MessageType("t", [F("task_uuid")]), "reserved_task_level": lambda: MessageType("t", [F("task_level")]),
        "reserved_timestamp": lambda: ActionType("t", [F("timestamp")], []), "reserved_in_success": lambda: ActionType("t", [], [F("task_level")]),
        "duplicate": lambda: MessageType("t", [F("a"), F("a")]), "underscore": lambda: MessageType("t", [F("_a")]),
        "both_types": lambda: MessageType("t", [F("action_type")]), "not_a_field": lambda: MessageType("t", ["a"]),
        "nonjson_class_set": lambda: Field.for_types("a", [set], "d"), "nonjson_class_object": lambda: Field.for_types("a", [object], "d"),
        "fields_factory_nonjson": lambda: fields_factory(a=Opaque),
    }
    if not attempt(bad[kind]): found.append(("definition", "ill-formed definition %s was accepted" % kind))

def run_scenario(sc):
    """-> (signature or None, observed list)"""
    found = []
    fam = sc.get("fam", "log")
    saved_registry = dict(_error_extraction.registry); saved_default = _output._DEFAULT_LOGGER
    for cls, f in EXTRACTORS.items(): _error_extraction.register_exception_extractor(cls, f)
    OPAQUE_OK[0] = bool(sc.get("encoder"))
    try:
        if fam == "nested": run_nested(sc, found)
        elif fam == "defs": run_defs(sc, found)
        elif sc["entry"] in ("validate", "check"):
            enc = sc.get("encoder")
            logger = MemoryLogger(json_default=custom_default) if enc == "default" else MemoryLogger(encoder=CustomEncoder) if enc else MemoryLogger()
            model = Model()
            run_body(sc, logger, True, model, found)
            exc = None
            try: logger.validate() if sc["entry"] == "validate" else check_for_errors(logger)
            except Exception as e: exc = e
            found.extend(compare(exc, model.expect_validate() if sc["entry"] == "validate" else model.expect_check(),
                                 "final %s" % ("logger.validate()" if sc["entry"] == "validate" else "check_for_errors()"), model))
            if _output._DEFAULT_LOGGER is not saved_default: found.append(("default_logger_changed", "default logger changed by a non-capturing scenario"))
        else: run_decorated(sc, found)
    except Exception as e:
        import traceback as _tb
        found.append(("driver_error", "%s: %s @ %s" % (type(e).__name__, str(e)[:120], _tb.format_exc().strip().splitlines()[-3].strip()[:100])))
    finally:
        _error_extraction.registry.clear(); _error_extraction.registry.update(saved_registry)
        _output._DEFAULT_LOGGER = saved_default; OPAQUE_OK[0] = False
    if not found: return None, []
    clause = found[0][0]
    sig = {"clause": clause.split(":")[0], "entry": sc.get("entry", fam)}
    if ":" in clause: sig["cause"] = clause.split(":", 1)[1]
    if fam == "log":
        last = [s for ph in sc["phases"] for s in ph["msgs"]]
        devs = [s for s in last if s.get("dev")]
        sig["what"] = spec_tag((devs or last)[-1]) if last else "empty"
        if len(sc["phases"]) > 1: sig["history"] = "+".join(ph["op"] for ph in sc["phases"][:-1])
    return sig, [t for _, t in found]

def is_known(sig):
    return sig.get("clause") == "conforming_rejected" and sig.get("cause") == "int_beyond_64bit_rejected_by_json_backend"

# ---------------------------------------------------------------------------------------------- enumeration

ENTRIES = ["validate", "check", "validate_logging", "capture_logging"]
MSG_PATHS = ["log", "call_write", "bind", "in_action", "raw"]
ACT_PATHS = ["with", "task", "run", "nested", "raw"]
TB_PATHS = ["except", "exc_info", "failure", "in_action"]
UNT_PATHS = ["log_message", "action", "raw"]
COMBOS = [[], ["int", "str"], ["rich", "const42", "any"], ["int_even", "none", "strof"], ["kw_int", "rich_pos", "dict"],
          ["float", "bool", "list", "const_str"], ["int_none", "str_int"]]

def goods(kinds): return [KINDS[k]["good"] for k in kinds]
def rejected(kind): return [v for v in VNAMES if KINDS[kind]["accepts"](val(v)) != "ok"]
def one(spec, entry, **kw):
    sc = {"fam": "log", "phases": [{"msgs": [spec], "op": "final"}], "entry": entry}; sc.update(kw); return sc
def msg(kinds, dev=None, path="log", vals=None): return {"shape": "msg", "kinds": kinds, "vals": vals or goods(kinds), "dev": dev, "path": path}
def act(kinds, skinds, end="success", dev=None, path="with"):
    return {"shape": "action", "kinds": kinds, "vals": goods(kinds), "skinds": skinds, "svals": goods(skinds), "end": end, "dev": dev, "path": path}
def tb(exc, path="except", flush=None, dev=None): return {"shape": "tb", "exc": exc, "path": path, "flush": flush, "dev": dev}
def untyped(vals, dev=None, path="log_message"): return {"shape": "untyped", "vals": vals, "dev": dev, "path": path}

class Rot(object):
    """Deterministic rotation through a list (so that rotated dimensions are all covered evenly)."""
    def __init__(self, items, full): self.items = items; self.full = full; self.i = 0
    def __call__(self):
        if self.full: return list(self.items)
        self.i += 1; return [self.items[self.i % len(self.items)]]

def gen_iff(full):
    """(kind, value) exhaustive: single-field types, the value accepted iff the oracle's rule for the kind says so."""
    out = []; ent = Rot(ENTRIES, full); mp = Rot(MSG_PATHS[:4], False); apth = Rot(ACT_PATHS[:4], False)
    for kind in USER_KINDS:
        for v in VNAMES:
            for e in ent(): out.append(one(msg([kind], None, mp()[0], [v]), e))
            for e in ent():
                s = act([kind], [], path=apth()[0]); s["vals"] = [v]; out.append(one(s, e))
            for e in ent():
                s = act([], [kind], path=apth()[0]); s["svals"] = [v]; out.append(one(s, e))
    return out

def gen_dev(full):
    """Multi-field types: conforming use through every path x entry, and every single-point deviation (through every
    path; entry points rotate in the quick tier)."""
    out = []; ent = Rot(ENTRIES, full); mp = Rot(MSG_PATHS, True); apth = Rot(ACT_PATHS, True)
    for ci, kinds in enumerate(COMBOS):
        skinds = COMBOS[(ci + 3) % len(COMBOS)]
        for p in MSG_PATHS:
            for e in ENTRIES: out.append(one(msg(kinds, None, p), e))
        for p in ACT_PATHS:
            for e in ENTRIES: out.append(one(act(kinds, skinds, path=p), e))
        # message deviations
        devs = [{"t": "missing", "key": "kq%d" % i} for i in range(len(kinds))] + [{"t": "missing", "key": "message_type"}]
        devs += [{"t": "replace", "key": "message_type", "value": v} for v in ("s_hello", "none")]
        for i, k in enumerate(kinds):
            rej = rejected(k)
            picks = rej[:1] + rej[-1:] + ([v for v in ("i7", "rich_neg") if v in rej][:1])
            if k in ("any",): picks = ["opaque", "bytes"]
            devs += [{"t": "replace", "key": "kq%d" % i, "value": v} for v in dict.fromkeys(picks)]
        devs += [{"t": "extra", "name": n, "value": "i7"} for n in EXTRA_NAMES if n != "message_type"]
        devs += [{"t": "extra", "name": "extra_x", "value": "opaque"}, {"t": "extra", "name": "reason", "value": "s_hello"}, {"t": "intkey"}]
        for d in devs:
            for p in mp():
                for e in ent(): out.append(one(msg(kinds, d, p), e))
        # action deviations (start and success messages)
        for where, ks, pre, other in (("start", kinds, "kq", "message_type"), ("end", skinds, "sq", "message_type")):
            devs = [{"t": "missing", "key": "%s%d" % (pre, i)} for i in range(len(ks))]
            devs += [{"t": "missing", "key": "action_type"}, {"t": "missing", "key": "action_status"},
                     {"t": "replace", "key": "action_status", "value": "s_hello"}, {"t": "replace", "key": "action_type", "value": "s_hello"}]
            for i, k in enumerate(ks):
                rej = rejected(k); picks = rej[:1] + rej[-1:]
                if k == "any": picks = ["l_opaque", "decimal"]
                devs += [{"t": "replace", "key": "%s%d" % (pre, i), "value": v} for v in dict.fromkeys(picks)]
            devs += [{"t": "extra", "name": n, "value": "i7"} for n in EXTRA_NAMES if n not in ("action_type", "action_status")]
            devs += [{"t": "extra", "name": "exception", "value": "s_hello"}, {"t": "intkey"}]
            for d in devs:
                d = dict(d, where=where)
                for p in apth():
                    for e in ent(): out.append(one(act(kinds, skinds, dev=d, path=p), e))
    return out

def gen_failure_tb(full):
    out = []; ent = Rot(ENTRIES, full)
    for x in EXC_NAMES:
        for p in ACT_PATHS:
            for e in ENTRIES: out.append(one(act(["int"], ["str"], end=x, path=p), e))
        # failed-action deviations (raw): declared fields still required, extras allowed if JSON-encodable
        devs = [{"t": "missing", "key": "reason"}, {"t": "missing", "key": "exception"}, {"t": "missing", "key": "action_type"},
                {"t": "missing", "key": "action_status"}, {"t": "replace", "key": "reason", "value": "i7"},
                {"t": "replace", "key": "exception", "value": "none"}, {"t": "replace", "key": "action_status", "value": "s_hello"},
                {"t": "extra", "name": "extra_x", "value": "d_nested"}, {"t": "extra", "name": "extra_x", "value": "opaque"},
                {"t": "extra", "name": "message_type", "value": "s_hello"}, {"t": "intkey"}]
        for d in devs:
            for e in ent(): out.append(one(act(["int"], ["str"], end=x, dev=dict(d, where="end"), path="raw"), e))
        for p in TB_PATHS:
            for fl in (None, "exact", "base", "other"):
                for e in ENTRIES: out.append(one(tb(x, p, fl), e))
        devs = [{"t": "missing", "key": k} for k in ("reason", "traceback", "exception", "message_type")]
        devs += [{"t": "replace", "key": "exception", "value": "i7"}, {"t": "replace", "key": "message_type", "value": "s_hello"},
                 {"t": "extra", "name": "extra_x", "value": "l_mixed"}, {"t": "extra", "name": "extra_x", "value": "l_opaque"}, {"t": "intkey"}]
        for d in devs:
            for fl in ((None,) if d.get("key") == "reason" else (None, "exact", "base")):  # flushing needs the reason field
                for e in ent(): out.append(one(tb(x, "raw", fl, d), e))
    return out

def gen_untyped(full):
    out = []; ent = Rot(ENTRIES, full)
    for p in UNT_PATHS:
        for v in VNAMES:
            for e in ent(): out.append(one(untyped(["i7", v], None, p), e))
        for e in ent(): out.append(one(untyped(["i7"], {"t": "intkey"}, p), e))
        for v in NONJSON:
            for e in ent(): out.append(one(untyped(["s_hello"], {"t": "extra", "name": "extra_x", "value": v}, p), e))
    # the scenario's own encoder / json_default decides what is JSON-encodable (encoder_= of the decorators,
    # encoder= / json_default= of MemoryLogger)
    for enc in ("encoder", "default"):
        for v in NONJSON + ["set", "path", "i7"]:
            for e in ENTRIES:
                out.append(one(untyped(["s_hello"], {"t": "extra", "name": "extra_x", "value": v}, "log_message"), e, encoder=enc))
                out.append(one(msg(["any", "int"], {"t": "replace", "key": "kq0", "value": v}, "call_write"), e, encoder=enc))
                out.append(one(act(["int"], ["str"], end="app_nonjson", path="with"), e, encoder=enc))
                out.append(one(tb("app_nonjson", "except", "exact"), e, encoder=enc))
    return out

LOGSTATES = {
    "clean": lambda: [msg(["int", "str"]), act(["int"], ["str"]), untyped(["d_nested"])],
    "wrong_type": lambda: [msg(["int", "str"]), msg(["int", "str"], {"t": "replace", "key": "kq1", "value": "i7"})],
    "extra": lambda: [act(["int"], ["str"], dev={"t": "extra", "name": "reason", "value": "s_hello", "where": "end"})],
    "nonjson": lambda: [untyped(["i7"], {"t": "extra", "name": "extra_x", "value": "opaque"})],
    "tb_unflushed": lambda: [msg(["int"]), tb("fnf")],
    "tb_flushed": lambda: [tb("app", flush="exact"), act(["int"], ["str"], end="oserror")],
    "empty": lambda: [],
}

def gen_outcomes(full):
    out = []
    for e in ("validate_logging", "capture_logging"):
        for o in OUTCOMES:
            for a in ASSERTIONS:
                if o in ("xfail", "xpass") and a == "raises": continue
                for ls in LOGSTATES:
                    out.append({"fam": "log", "phases": [{"msgs": LOGSTATES[ls](), "op": "final"}], "entry": e, "outcome": o, "assertion": a})
    nested = [o for o in OUTCOMES if o not in ("teardown_error", "cleanup_error")]
    for i in nested:
        for o in nested:
            for d in (False, True): out.append({"fam": "nested", "inner": i, "outer": o, "inner_dev": d})
    for d in ("reserved_task_uuid", "reserved_task_level", "reserved_timestamp", "reserved_in_success", "duplicate", "underscore",
              "both_types", "not_a_field", "nonjson_class_set", "nonjson_class_object", "fields_factory_nonjson"):
        out.append({"fam": "defs", "def": d})
    return out

FINALS = {
    "conform": lambda: [msg(["int", "str"])],
    "wrong_type": lambda: [msg(["int", "str"], {"t": "replace", "key": "kq0", "value": "s_hello"})],
    "missing": lambda: [msg(["int", "str"], {"t": "missing", "key": "kq1"}, "call_write")],
    "extra": lambda: [msg(["int", "str"], {"t": "extra", "name": "exception", "value": "s_hello"}, "bind")],
    "rejected": lambda: [msg(["int_even"], {"t": "replace", "key": "kq0", "value": "i7"}, "in_action")],
    "act_start": lambda: [act(["int"], ["str"], dev={"t": "replace", "key": "kq0", "value": "none", "where": "start"})],
    "act_success": lambda: [act(["int"], ["str"], dev={"t": "extra", "name": "extra_x", "value": "i7", "where": "end"}, path="task")],
    "nonjson": lambda: [untyped(["i7"], {"t": "extra", "name": "extra_x", "value": "opaque"})],
    "tb": lambda: [tb("oserror")],
    "tb_flushed": lambda: [tb("value", flush="exact")],
}

def filler(n, idem):
    pool = [msg(["int", "str"]), untyped(["s_hello", "l_mixed"]), act(["int_even"], ["dict"], path="run"), msg([], None, "bind"),
            act([], ["str_int"], end="oserror", path="task")]
    if not idem: pool += [msg(["rich", "const42"], None, "call_write"), tb("app", flush="base")]
    return [json.loads(json.dumps(pool[i % len(pool)])) for i in range(n)]

def gen_history(full):
    """validate()/check_for_errors()/reset() interleaved with logging on one MemoryLogger."""
    out = []; ent = Rot(ENTRIES, full)
    for n1 in (1, 2, 3, 5):
        for op1 in ("validate+reset", "check+reset", "reset", "validate", "check", "validate+validate", "check+reset+reset"):
            idem = "reset" not in op1
            for first_bad in (None, "wrong_type", "tb"):
                if first_bad and "reset" not in op1: continue
                for n2 in (0, 1, 2, 4):
                    for fin in FINALS:
                        if idem and fin.startswith("tb"): continue
                        pre = filler(n1, idem) + (FINALS[first_bad]() if first_bad else [])
                        if first_bad and (n1 + n2) % 2: continue
                        for e in ent():
                            out.append({"fam": "log", "entry": e, "phases": [{"msgs": pre, "op": op1}, {"msgs": filler(n2, idem) + FINALS[fin](), "op": "final"}]})
    return out

def rand_spec(rnd, idem):
    kinds_pool = IDEM_KINDS if idem else [k for k in USER_KINDS if k != "bytes"]
    shape = rnd.choice(["msg", "msg", "action", "action", "tb", "untyped"] if not idem else ["msg", "msg", "action", "untyped"])
    deviate = rnd.random() < 0.35
    def rdev(keys, where=None, consts=()):
        r = rnd.random()
        if r < 0.3 and (keys or consts): d = {"t": "missing", "key": rnd.choice(list(keys) + list(consts))}
        elif r < 0.6 and keys: d = {"t": "replace", "key": rnd.choice(keys), "value": rnd.choice([v for v in VNAMES if v != "ihuge"])}  # ihuge: see KNOWN
        elif r < 0.9: d = {"t": "extra", "name": rnd.choice(EXTRA_NAMES), "value": rnd.choice(["i7", "s_hello", "opaque", "d_nested"])}
        else: d = {"t": "intkey"}
        if where: d["where"] = where
        return d
    if shape == "msg":
        kinds = [rnd.choice(kinds_pool) for _ in range(rnd.randint(0, 3))]
        d = rdev(["kq%d" % i for i in range(len(kinds))], consts=["message_type"]) if deviate else None
        if d and d["t"] == "extra" and d["name"] == "message_type": d = None
        return msg(kinds, d, rnd.choice(MSG_PATHS))
    if shape == "action":
        kinds = [rnd.choice(kinds_pool) for _ in range(rnd.randint(0, 2))]; skinds = [rnd.choice(kinds_pool) for _ in range(rnd.randint(0, 2))]
        end = "success" if rnd.random() < 0.6 else rnd.choice([x for x in EXC_NAMES if not (idem and x == "app_raises")])
        d = None
        if deviate:
            where = rnd.choice(["start", "end"])
            if where == "start": d = rdev(["kq%d" % i for i in range(len(kinds))], "start", ["action_type", "action_status"])
            elif end == "success": d = rdev(["sq%d" % i for i in range(len(skinds))], "end", ["action_type", "action_status"])
            else: d = rdev(["reason", "exception"], "end", ["action_type", "action_status"])
            if d["t"] == "extra" and d["name"] in ("action_type", "action_status"): d = None
            elif d["t"] == "extra" and end != "success" and where == "end" and d["name"] in ("reason", "exception"): d = None
        return act(kinds, skinds, end, d, rnd.choice(ACT_PATHS))
    if shape == "tb":
        d = rdev(["reason", "traceback", "exception"], consts=["message_type"]) if rnd.random() < 0.2 else None
        if d and d["t"] == "extra" and d["name"] in ("reason", "traceback", "exception", "message_type"): d = None
        if d and d["t"] == "replace" and d["key"] == "reason": d = None  # flushing needs the exception object
        if d and d["t"] == "missing" and d["key"] == "reason": d = None
        return tb(rnd.choice(EXC_NAMES), rnd.choice(TB_PATHS), rnd.choice([None, "exact", "base", "other"]), d)
    vals = [rnd.choice([v for v in VNAMES if json_ok(val(v)) and v != "ihuge"]) for _ in range(rnd.randint(0, 3))]
    d = None
    if deviate: d = {"t": "extra", "name": "extra_x", "value": rnd.choice(NONJSON)} if rnd.random() < 0.8 else {"t": "intkey"}
    return untyped(vals, d, rnd.choice(UNT_PATHS))

def gen_random(rnd, n):
    out = []
    for _ in range(n):
        idem = rnd.random() < 0.4
        phases = []
        for p in range(rnd.randint(1, 3)):
            msgs = [rand_spec(rnd, idem) for _ in range(rnd.randint(0, 4))]
            op = rnd.choice(["validate", "check", "none", "validate+validate"] if idem else ["validate+reset", "check+reset", "reset", "none"])
            phases.append({"msgs": msgs, "op": op})
        phases[-1]["op"] = "final"
        sc = {"fam": "log", "phases": phases, "entry": rnd.choice(ENTRIES)}
        if sc["entry"] in ("validate_logging", "capture_logging"):
            sc["outcome"] = rnd.choice(OUTCOMES[:8]); sc["assertion"] = rnd.choice(ASSERTIONS)
        out.append(sc)
    return out

def non_trivial(sc):
    if sc.get("fam", "log") != "log": return True
    return any(ph["msgs"] for ph in sc["phases"]) or sc["entry"] in ("validate_logging", "capture_logging")

def main():
    quick = args.tier == "quick"
    if args.scenario: scs = [json.loads(args.scenario)]
    else:
        rnd = random.Random(args.seed)
        groups = [gen_iff(not quick), gen_dev(not quick), gen_failure_tb(not quick), gen_untyped(not quick), gen_outcomes(not quick),
                  gen_history(not quick)]
        caps = [None, 3000, None, None, None, None] if quick else [None] * 6
        scs = []
        for g, cap in zip(groups, caps):
            if cap is not None and len(g) > cap:
                idx = sorted(rnd.sample(range(len(g)), cap)); g = [g[i] for i in idx]
            scs += g
        scs += gen_random(rnd, 1200 if quick else 120000)
    cand = {False: [], True: []}; cases = 0; seen = set(); sigs = set(); nfail = 0
    for sc in scs:
        cases += 1
        if non_trivial(sc): seen.add(json.dumps(sc, sort_keys=True))
        sig, observed = run_scenario(sc)
        if sig is None: continue
        k = is_known(sig)
        if not k: nfail += 1
        key = json.dumps(sig, sort_keys=True)
        if key in sigs or len(cand[k]) >= 400: continue
        sigs.add(key); cand[k].append({"signature": sig, "scenario": sc, "observed": observed[:3]})
    def pick(recs):
        """at most 5, distinct signatures, as many distinct clauses as possible (first occurrence of each clause first)"""
        out = []; by = {}
        for r in recs: by.setdefault(r["signature"]["clause"], []).append(r)
        while len(out) < 5 and any(by.values()):
            for c in list(by):
                if by[c] and len(out) < 5: out.append(by[c].pop(0))
        return out
    fails = pick(cand[False]); known = pick(cand[True])
    sys.stderr.write("c14: %d cases, %d failing scenarios (%d distinct signatures shown), %d known\n" % (cases, nfail, len(fails), len(known)))
    print(json.dumps({
        "cases": cases, "distinct": len(seen), "failures": fails, "known": known,
        "bound": "types of 0-4 fields over %d field kinds (for_types incl. unions/None/bytes, extra validators, for_value, custom serializers, fields() factory) x %d values; "
                 "messages, action start/success/failure (10 exception classes incl. builtin errno and registered/raising/non-JSON extractors), tracebacks (4 ways of logging x 4 flush choices), untyped messages; "
                 "all single-point deviations (missing / extra (11 names) / replaced value / non-JSON / non-str key, on user and on type/status fields); "
                 "entry points validate(), check_for_errors(), @validate_logging, @capture_logging x 10 test outcomes x 3 assertion-function variants, nested capture_logging; "
                 "histories of up to 3 phases with validate/check/reset in between; %s" % (len(USER_KINDS), len(VNAMES), "seeded sample (quick)" if quick else "full product plus 120000 seeded random histories"),
        "rule": "exhaustive (kind x value) single-field types; every single-point deviation of 7 multi-field type combos through every emission path; exception class x logging path x flush choice; "
                "outcome x assertion x log state; phase histories; plus seeded-random multi-message multi-phase scenarios. Expected verdict from the driver's own oracle (conforms and JSON-encodable <=> accepted; "
                "unflushed traceback => UnflushedTracebacks; default logger identical before/after). distinct = distinct scenario descriptions that log at least one message or run a decorated test",
    }))

main()
