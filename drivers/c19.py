"""Native driver for C19 (bounded; real code, real threads, forced interleavings): eliot.logwriter.ThreadedWriter
passes every message offered between startService and stopService exactly once, in the order offered, to the
wrapped destination on one thread that is not the caller's; offering never blocks on a slow destination;
stopService completes only after everything offered before it has been written; an exception from the wrapped
destination loses only that message.

Prints one JSON line: {cases, distinct, failures:[{signature, scenario, observed}], known:[...], bound, rule}.

KNOWN_ON_UNCHANGED_TREE (kept detected, reported under "known", excluded from "failures"):
  signature {"clause": "delivered_all", "after_failure": "BaseException", "cycle": "first"}   (and "cycle": "later")
    w = ThreadedWriter(dest, reactor); w.startService(); w({"n": 0}); w({"n": 1}); w.stopService()
    where dest raises an exception that derives from BaseException but not from Exception (SystemExit,
    GeneratorExit, KeyboardInterrupt, class X(BaseException)) for message 0:  _reader only catches Exception,
    so the writer thread dies on message 0, message 1 (and everything after it in that start/stop cycle) is
    never passed to dest, and stopService's Deferred nevertheless fires (join of a dead thread).  What the dead
    thread left on the queue (unwritten messages, the unread stop marker) is consumed by the thread of the next
    startService: e.g. cycle 1 = offer m0, offer m1 (raises SystemExit), stopService; cycle 2 = startService,
    offer m2 -> the new thread reads cycle 1's stop marker and exits at once, m2 is never written.

How it works.  The wrapped destination is a gate: every call records (message, thread) and then parks until
the scheduler hands it a permit, so the writer thread's progress is a scheduler step like any other.  Producers
are real threads (never the scheduler thread) that perform one offer when told to - either writer(msg)
directly or eliot.log_message(...) through the globally registered writer - and stopService runs on yet
another thread.  A scenario is an explicit schedule over {offer by producer p, writer finishes one destination
call, stop}; the oracle is a tiny model (offered list, entered/exited counters) plus the recorded calls.
Time-outs are only ever reached on failing trees (a message that never arrives); a dead writer thread is
detected directly.  An additional "stress" family runs unsynchronised producers and checks the
interleaving-independent part (exactly once, per-producer order, one foreign thread, stop waits).
"""
import argparse, hashlib, itertools, json, os, queue, random, sys, threading, time

ap = argparse.ArgumentParser(); ap.add_argument("--tier", default="quick"); ap.add_argument("--seed", type=int, default=0)
ap.add_argument("--scenario"); args = ap.parse_args()

from eliot import add_destinations, remove_destination, log_message
from eliot.logwriter import ThreadedWriter

T = 2.0          # how long a message may stay undelivered before it is declared lost (failing trees only)


def err(*a):
    print(*a, file=sys.stderr)


# ---------------------------------------------------------------- exceptions the wrapped destination can raise
class DestError(Exception): pass
class DestBase(BaseException): pass

EXC = {
    "RuntimeError": lambda: RuntimeError("disk full"), "OSError": lambda: OSError(28, "No space left on device"),
    "IOError": lambda: IOError("io"), "ValueError": lambda: ValueError("bad"), "KeyError": lambda: KeyError("k"),
    "TypeError": lambda: TypeError("not serializable"), "UnicodeEncodeError": lambda: UnicodeEncodeError("ascii", "\xe9", 0, 1, "ordinal"),
    "AssertionError": lambda: AssertionError(), "StopIteration": lambda: StopIteration(), "MemoryError": lambda: MemoryError(),
    "DestError": lambda: DestError("custom"), "AttributeError": lambda: AttributeError("x"), "RecursionError": lambda: RecursionError(),
    "BrokenPipeError": lambda: BrokenPipeError(32, "pipe"), "TimeoutError": lambda: TimeoutError(), "ZeroDivisionError": lambda: ZeroDivisionError(),
    "NotImplementedError": lambda: NotImplementedError(), "EOFError": lambda: EOFError(), "BufferError": lambda: BufferError(),
}
EXC_NAMES = sorted(EXC)
BASE = {"DestBase": lambda: DestBase("base"), "SystemExit": lambda: SystemExit(1), "GeneratorExit": lambda: GeneratorExit(),
        "KeyboardInterrupt": lambda: KeyboardInterrupt()}
BASE_NAMES = sorted(BASE)


class Reactor(object):
    """what ThreadedWriter needs from the reactor"""
    def getThreadPool(self): return self
    def callFromThread(self, f, *a, **k): f(*a, **k)


# ---------------------------------------------------------------- persistent caller threads (producers, stopper)
class Worker(object):
    def __init__(self, name):
        self.q = queue.SimpleQueue()
        self.thread = threading.Thread(target=self._loop, name=name); self.thread.daemon = True; self.thread.start()

    def _loop(self):
        while True:
            fn, box, ev = self.q.get()
            try: box.append(("ok", fn()))
            except BaseException as e: box.append(("raised", e))
            ev.set()

    def submit(self, fn):
        box = []; ev = threading.Event(); self.q.put((fn, box, ev)); return box, ev

PRODUCERS = [Worker("c19-producer-%d" % i) for i in range(4)]
STOPPER = Worker("c19-stopper")
STARTER = Worker("c19-starter")
replacements = []


def producer(p):
    """a producer that is not stuck in an earlier (broken) scenario"""
    return PRODUCERS[p]


def caller_threads():
    return set([threading.main_thread()] + [w.thread for w in PRODUCERS] + [STOPPER.thread, STARTER.thread])


# ---------------------------------------------------------------- the gated destination
class Dest(object):
    def __init__(self):
        self.lock = threading.Lock()
        self.entries = []        # (n, thread, msg) at entry
        self.exits = []          # (n, "written"|exc name)
        self.written = []
        self.plan = {}           # n -> exception name
        self.entered_sem = threading.Semaphore(0)
        self.exited_sem = threading.Semaphore(0)
        self.permits = threading.Semaphore(0)
        self.open = False
        self.on_caller = []
        self.callers = caller_threads()

    def open_gates(self):
        self.open = True
        for _ in range(64): self.permits.release()

    def __call__(self, msg):
        th = threading.current_thread()
        n = msg.get("c19n") if isinstance(msg, dict) else None
        with self.lock: self.entries.append((n, th, msg))
        self.entered_sem.release()
        if th in self.callers:
            with self.lock: self.on_caller.append((n, th.name))
        elif not self.open:
            while not self.permits.acquire(timeout=0.25):
                if self.open: break
        exc = self.plan.get(n)
        with self.lock:
            self.exits.append((n, exc or "written"))
            if exc is None: self.written.append(n)
        self.exited_sem.release()
        if exc is not None:
            raise (EXC.get(exc) or BASE[exc])()


# ---------------------------------------------------------------- one scheduled scenario
class Abort(Exception): pass


class Run(object):
    def __init__(self, sc):
        self.sc = sc
        self.problems = []       # (clause, after_failure, cycle, text)
        self.after_failure = "none"
        self.cycle = 0
        self.next_n = 0
        self.dest = Dest()
        self.writer = ThreadedWriter(self.dest, Reactor())
        self.prev_ns = set()     # ids offered in earlier cycles or outside any cycle

    def problem(self, clause, text):
        self.problems.append((clause, self.after_failure, "first" if self.cycle == 0 else "later", text))

    # -- steps
    def offer(self, p, via, n):
        w = self.writer
        if via == "o":
            m = {"c19n": n, "payload": [n, "x"]}
            fn = lambda: w(m)
        else:
            fn = lambda: log_message(message_type="c19:msg", c19n=n, payload=[n, "x"])
        box, ev = producer(p).submit(fn)
        if not ev.wait(T):
            self.problem("offer_nonblocking", "offering message %d (%s) did not return while the destination was busy" % (n, "direct call" if via == "o" else "log_message"))
            PRODUCERS[p] = Worker("c19-producer-%d-r%d" % (p, len(replacements))); replacements.append(p)
            raise Abort()
        if box[0][0] == "raised":
            self.problem("offer_nonblocking", "offering message %d raised %r" % (n, box[0][1])); raise Abort()

    def wait_entry(self, what):
        d = self.dest; deadline = time.monotonic() + T
        while True:
            if d.entered_sem.acquire(timeout=0.02): return
            with d.lock: ths = [e[1] for e in d.entries[self.cyc_e0:] if e[1] not in d.callers][-1:]
            ths = ths or self.new_threads      # no call yet in this cycle: the thread(s) startService created
            dead = bool(ths) and not any(t.is_alive() for t in ths)
            if dead or time.monotonic() > deadline:
                if d.entered_sem.acquire(blocking=False): return
                self.problem("delivered_all", "%s was never passed to the destination (%s)" % (what, "the writer thread has terminated" if dead else "waited %.1fs; writer idle or gone" % T))
                raise Abort()

    def wait_exit(self, n):
        d = self.dest; deadline = time.monotonic() + T
        while not d.exited_sem.acquire(timeout=0.05):
            if time.monotonic() > deadline:
                self.problem("delivered_all", "destination call for message %d was released but never finished" % n); raise Abort()

    def run_cycle(self, steps):
        d = self.dest; w = self.writer
        self.cyc_e0 = len(d.entries); x0 = len(d.exits)
        before = set(threading.enumerate())
        box, ev = STARTER.submit(w.startService)
        if not ev.wait(T): self.problem("start", "startService did not return"); raise Abort()
        if box[0][0] == "raised": self.problem("start", "startService raised %r" % (box[0][1],)); raise Abort()
        self.started = True; self.stop_requested = False
        self.new_threads = [t for t in threading.enumerate() if t not in before and t not in d.callers]
        offered = []; entered = 0; exited = 0; stopped = False
        comp = {"ev": threading.Event(), "exits": None}
        self.comp = comp

        def release_one():
            nonlocal entered, exited
            n = offered[exited]
            k = d.plan.get(n)
            d.permits.release(); self.wait_exit(n); exited += 1
            if k is not None:
                lvl = "BaseException" if k in BASE else "Exception"
                if self.after_failure != "BaseException": self.after_failure = lvl
            if entered < len(offered):
                self.wait_entry("message %d (queued behind message %d, which %s)" % (offered[entered], n, "raised " + k if k else "was written")); entered += 1

        def do_stop():
            nonlocal stopped
            stopped = True; self.stop_requested = True
            def on_done(_r):
                with d.lock: comp["exits"] = list(d.exits[x0:]); comp["alive"] = [e[1].name for e in d.entries[self.cyc_e0:] if e[1].is_alive() and e[1] not in d.callers]
                comp["ev"].set()
            def stop():
                r = w.stopService()
                if hasattr(r, "addBoth"): r.addBoth(on_done)
                else:
                    def waiter():
                        (r.wait if hasattr(r, "wait") else r.result)(); on_done(None)
                    t = threading.Thread(target=waiter); t.daemon = True; t.start()
            sbox, sev = STOPPER.submit(stop)
            self.stop_box = sbox
            sev.wait(0.5 if entered > exited else T)   # normally returns at once; a synchronous stop is tolerated
            if sbox and sbox[0][0] == "raised":
                self.problem("stop_completes", "stopService raised %r" % (sbox[0][1],)); raise Abort()

        for st in list(steps) + [["s"]]:
            k = st[0]
            if k in ("o", "l"):
                if stopped: continue
                n = self.next_n; self.next_n += 1
                if st[2]: d.plan[n] = st[2]
                self.offer(st[1], k, n)
                offered.append(n)
                if entered == exited:
                    self.wait_entry("message %d (offered while the writer was idle)" % n); entered += 1
            elif k == "w":
                if entered > exited: release_one()
            elif k == "s":
                if stopped: continue
                do_stop()
        # drain: stop has been requested; completion must not be reported while anything is pending
        while exited < len(offered):
            if comp["ev"].is_set():
                self.problem("stop_waits", "stopService completed while %d message(s) offered before it were still unwritten (%s)" % (len(offered) - exited, offered[exited:]))
                break
            release_one()
        if not comp["ev"].wait(T):
            # either the writer never finishes, or it is parked in a destination call the model does not expect
            with d.lock: extra = [e[0] for e in d.entries[self.cyc_e0:]][len(offered):]
            d.open_gates()
            if not extra or not comp["ev"].wait(T):
                self.problem("stop_completes", "stopService did not complete within %.1fs after all %d offered messages had been handled" % (T, len(offered)))
                raise Abort()
            n0 = len(self.problems); self.check_cycle(offered, self.cyc_e0, x0)
            if len(self.problems) == n0: self.problem("exactly_once", "unexpected destination calls %s" % (extra,))
            raise Abort()
        self.started = False
        exp_exits = [(n, d.plan.get(n) or "written") for n in offered]
        if comp["exits"] != exp_exits and not any(p[0] == "stop_waits" for p in self.problems):
            self.problem("stop_waits", "at the moment stopService completed the destination had handled %s, expected %s" % (comp["exits"], exp_exits))
        if comp.get("alive"):
            self.problem("thread_exits", "writer thread %s still alive when stopService completed" % comp["alive"])
        self.check_cycle(offered, self.cyc_e0, x0)
        # a message logged through eliot while the service is stopped must not reach the writer (checked in later cycles)
        n = self.next_n; self.next_n += 1; self.prev_ns.add(n)
        log_message(message_type="c19:while_stopped", c19n=n)
        self.prev_ns.update(offered)

    def check_cycle(self, offered, e0, x0):
        d = self.dest
        with d.lock: entries = list(d.entries[e0:]); exits = list(d.exits[x0:]); on_caller = list(d.on_caller)
        got = [e[0] for e in entries]
        if got != offered:
            stray = [n for n in got if n not in offered]
            missing = [n for n in offered if n not in got]
            dups = sorted(set(n for n in got if got.count(n) > 1))
            if stray: self.problem("exactly_once", "messages %s not offered in this start/stop cycle were passed to the destination (offered %s, passed %s)" % (stray, offered, got))
            if missing: self.problem("delivered_all", "messages %s were never passed to the destination (offered %s, passed %s)" % (missing, offered, got))
            if dups: self.problem("exactly_once", "messages %s were passed more than once (offered %s, passed %s)" % (dups, offered, got))
            if not (stray or missing or dups): self.problem("order", "offered in order %s, passed to the destination in order %s" % (offered, got))
        exp_written = [n for n in offered if n not in d.plan]
        wr = [n for n, r in exits if r == "written"]
        if wr != exp_written and got == offered:
            self.problem("order", "written %s, expected %s" % (wr, exp_written))
        for n, th, msg in entries:
            if not isinstance(msg, dict) or msg.get("payload") != [n, "x"]:
                self.problem("content", "destination received %r for message %r" % (msg, n)); break
        if on_caller:
            self.problem("off_thread", "destination was called on the caller's thread: %s" % (on_caller[:3],))
        ths = []
        for e in entries:
            if e[1] not in ths: ths.append(e[1])
        if len(ths) > 1:
            self.problem("single_thread", "messages of one start/stop cycle were written on %d threads: %s" % (len(ths), [t.name for t in ths]))

    def run(self):
        self.started = False; self.comp = None; self.stop_requested = False
        try:
            for ci, steps in enumerate(self.sc["cycles"]):
                self.cycle = ci
                self.run_cycle(steps)
        except Abort:
            pass
        except Exception as e:
            import traceback; err(traceback.format_exc())
            self.problem("driver_or_library_error", "scenario aborted: %r" % (e,))
        finally:
            self.teardown()
        return self.problems

    def teardown(self):
        d = self.dest; d.open_gates()
        if self.started:
            if not self.stop_requested:
                try:
                    box, ev = Worker("c19-cleanup").submit(self.writer.stopService); ev.wait(0.5)
                except Exception: pass
            if self.comp is not None: self.comp["ev"].wait(0.3)
        for _ in range(3):
            try: remove_destination(self.writer)
            except ValueError: break
            except Exception as e: err("teardown:", e); break


# ---------------------------------------------------------------- unsynchronised producers (interleaving-independent oracle)
def run_stress(sc):
    s = sc["stress"]; P = s["producers"]; N = s["per"]; mode = s["mode"]; problems = []
    def problem(clause, text, ci): problems.append((clause, "Exception" if s.get("fail_every") else "none", "first" if ci == 0 else "later", text))
    d = Dest(); w = ThreadedWriter(d, Reactor()); nid = 0
    old = sys.getswitchinterval(); sys.setswitchinterval(1e-5)
    try:
        for ci in range(s["cycles"]):
            e0 = len(d.entries); x0 = len(d.exits)
            d.permits = threading.Semaphore(0); d.open = (mode == "free")     # nobody is parked between cycles
            w.startService()
            ids = []
            for p in range(P):
                ids.append(list(range(nid, nid + N))); nid += N
            for p in range(P):
                for j, n in enumerate(ids[p]):
                    if s.get("fail_every") and (n % s["fail_every"]) == 0: d.plan[n] = EXC_NAMES[n % len(EXC_NAMES)]
            go = threading.Event()
            def prod(p):
                go.wait()
                for n in ids[p]:
                    if (n + p) % 2 and s.get("via") != "o": log_message(message_type="c19:msg", c19n=n, payload=[n, "x"])
                    else: w({"c19n": n, "payload": [n, "x"]})
            evs = [producer(p).submit(lambda p=p: prod(p)) for p in range(P)]
            go.set()
            for box, ev in evs:
                if not ev.wait(5 * T): problem("offer_nonblocking", "producers did not finish offering while the destination was %s" % ("parked" if not d.open else "running"), ci); raise Abort()
                if box[0][0] == "raised": problem("offer_nonblocking", "offer raised %r" % (box[0][1],), ci); raise Abort()
            comp = {"ev": threading.Event()}
            def on_done(_r):
                with d.lock: comp["exits"] = list(d.exits[x0:])
                comp["ev"].set()
            sbox, sev = STOPPER.submit(lambda: w.stopService().addBoth(on_done))
            sev.wait(T)
            if sbox and sbox[0][0] == "raised": problem("stop_completes", "stopService raised %r" % (sbox[0][1],), ci); raise Abort()
            if mode == "backlog":
                if comp["ev"].is_set(): problem("stop_waits", "stopService completed while the whole backlog was unwritten", ci)
                d.open_gates()
            if not comp["ev"].wait(5 * T): problem("stop_completes", "stopService did not complete", ci); raise Abort()
            total = sorted(n for l in ids for n in l)
            if sorted(n for n, _ in comp["exits"]) != total:
                problem("stop_waits", "when stopService completed %d of %d offered messages had been handled" % (len(comp["exits"]), len(total)), ci)
            with d.lock: entries = list(d.entries[e0:]); exits = list(d.exits[x0:])
            got = [e[0] for e in entries]
            if sorted(got) != total:
                missing = [n for n in total if n not in got]; extra = [n for n in got if got.count(n) > 1 or n not in total]
                if missing: problem("delivered_all", "%d of %d messages never passed to the destination, e.g. %s" % (len(missing), len(total), missing[:5]), ci)
                if extra: problem("exactly_once", "messages passed more than once or not offered in this cycle: %s" % sorted(set(extra))[:5], ci)
            for p in range(P):
                seq = [n for n in got if n in set(ids[p])]
                if seq != ids[p] and sorted(seq) == ids[p]:
                    problem("order", "producer %d offered %s..., destination saw them as %s..." % (p, ids[p][:6], seq[:6]), ci); break
            if [n for n, r in exits if r == "written"] != [n for n in got if n not in d.plan] and sorted(got) == total:
                problem("order", "written sequence differs from passed sequence minus failures", ci)
            ths = set(e[1] for e in entries)
            if ths & d.callers: problem("off_thread", "destination called on a caller's thread", ci)
            if len(ths) > 1: problem("single_thread", "written on %d threads" % len(ths), ci)
            if any(t.is_alive() for t in ths - d.callers): problem("thread_exits", "writer thread alive after stopService completed", ci)
    except Abort:
        pass
    except Exception as e:
        import traceback; err(traceback.format_exc()); problems.append(("driver_or_library_error", "none", "first", "aborted: %r" % (e,)))
    finally:
        sys.setswitchinterval(old); d.open_gates()
        for _ in range(3):
            try: remove_destination(w)
            except ValueError: break
    return problems


def run_scenario(sc):
    if "stress" in sc: return run_stress(sc)
    return Run(sc).run()


# ---------------------------------------------------------------- enumeration
def words(M):
    """all schedules with M offers 'O' and at most M writer steps 'W', a W only when a destination call is parked"""
    out = []
    def rec(w, o, k):
        if o == M: out.append(w)
        if o < M: rec(w + "O", o + 1, k)
        if k < o: rec(w + "W", o, k + 1)
    rec("", 0, 0)
    return out


def rgs(M, pmax):
    """producer assignments up to renaming"""
    out = []
    def rec(a, mx):
        if len(a) == M: out.append(a); return
        for p in range(min(mx + 1, pmax - 1) + 1): rec(a + [p], max(mx, p))
    rec([], -1)
    return out


def build_cycle(word, prods, mask, rng, base=None):
    steps = []; i = 0
    for ch in word:
        if ch == "O":
            exc = None
            if mask & (1 << i): exc = rng.choice(EXC_NAMES) if base is None else base
            steps.append([rng.choice("ol"), prods[i], exc]); i += 1
        else:
            steps.append(["w"])
    steps.append(["s"])
    return steps


def gen_exhaustive(M, pmax, rng):
    for word in words(M):
        for prods in rgs(M, pmax):
            for mask in range(1 << M):
                yield {"cycles": [build_cycle(word, prods, mask, rng)]}


def random_cycle(rng, mmax, pmax, pfail):
    M = rng.randint(0, mmax); word = ""; o = k = 0
    while o < M:
        if k < o and rng.random() < 0.4: word += "W"; k += 1
        else: word += "O"; o += 1
    while k < o and rng.random() < 0.4: word += "W"; k += 1
    mask = 0
    for i in range(M):
        if rng.random() < pfail: mask |= 1 << i
    return build_cycle(word, [rng.randrange(pmax) for _ in range(M)], mask, rng)


def gen_base_probes():
    for b in BASE_NAMES:
        yield {"cycles": [[["o", 0, b], ["o", 1, None], ["w"], ["s"]]]}
        yield {"cycles": [[["o", 0, None], ["w"], ["s"]], [["l", 0, None], ["o", 0, b], ["l", 1, None], ["s"]]]}
    # failing message is the last one of its cycle (costs one time-out on the unchanged tree, so only one class)
    yield {"cycles": [[["o", 0, None], ["o", 0, "DestBase"], ["s"]], [["o", 0, None], ["s"]]]}


def gen_all(tier, seed):
    quick = tier == "quick"
    rng = random.Random(seed * 1000003 + 19)
    info = {}
    out = []
    # A: exhaustive single cycle
    mx = 3 if quick else 4
    A = []
    for M in range(0, mx + 1): A += list(gen_exhaustive(M, 2 if M > 3 else 3, rng))
    info["A"] = len(A); out += A
    # A': sample of the next size
    nxt = list(gen_exhaustive(mx + 1, 2, rng)); rng.shuffle(nxt); nxt = nxt[:400 if quick else 6000]
    info["A2"] = len(nxt); out += nxt
    # B: every exhaustive schedule with <= 3 messages as the 2nd (or 3rd) cycle of the same writer
    B = []
    for sc in A:
        if quick and rng.random() < 0.5: continue
        pre = [random_cycle(rng, 2, 2, 0.3) for _ in range(rng.choice([1, 1, 2]))]
        B.append({"cycles": pre + [json.loads(json.dumps(sc["cycles"][0]))]})
    info["B"] = len(B); out += B
    # C: random multi-cycle
    C = [{"cycles": [random_cycle(rng, 5, 3, 0.35) for _ in range(rng.randint(2, 4 if quick else 6))]} for _ in range(300 if quick else 8000)]
    info["C"] = len(C); out += C
    # D: longer single cycles
    D = [{"cycles": [random_cycle(rng, 10, 4, 0.4)]} for _ in range(200 if quick else 4000)]
    info["D"] = len(D); out += D
    # E: BaseException probes
    E = list(gen_base_probes()); info["E"] = len(E); out += E
    # F: stress
    F = []
    for i in range(12 if quick else 150):
        F.append({"stress": {"producers": rng.randint(2, 4), "per": rng.choice([20, 50, 120] if quick else [50, 200, 600]), "mode": ["free", "backlog"][i % 2],
                             "cycles": rng.randint(1, 3), "fail_every": rng.choice([0, 2, 3, 7]), "via": rng.choice(["o", "mix"])}})
    info["F"] = len(F); out += F
    return out, info


KNOWN_SIGNATURES = [{"clause": "delivered_all", "after_failure": "BaseException", "cycle": "first"},
                    {"clause": "delivered_all", "after_failure": "BaseException", "cycle": "later"}]


def nontrivial(sc):
    if "stress" in sc: return True
    return any(st[0] in "ol" for c in sc["cycles"] for st in c)


def main():
    sink = lambda m: None
    add_destinations(sink)                      # so that eliot never buffers messages for "the first destination"
    old_hook = threading.excepthook
    threading.excepthook = lambda a: err("[thread %s died: %s]" % (a.thread.name if a.thread else "?", a.exc_type.__name__))
    fails = []; known = []; cases = 0; seen = set(); sigs_seen = set(); failing = 0
    t0 = time.monotonic()
    try:
        if args.scenario:
            scs = [json.loads(args.scenario)]; bound = "one given scenario"
        else:
            scs, info = gen_all(args.tier, args.seed)
            quick = args.tier == "quick"
            bound = ("single start/stop cycle, exhaustive: every schedule of M<=%d offers and writer steps (a writer step = the parked destination call finishes) followed by stop, x every assignment of offers to <=3 producer threads (<=2 when M=4) up to renaming, x every failure mask (%d scenarios); "
                     "%d sampled schedules with M=%d; %d of those schedules replayed as 2nd/3rd cycle of a reused writer; %d random scenarios of 2-%d cycles (<=5 messages, <=3 producers each); %d random single cycles with <=10 messages and 4 producers; "
                     "%d probes with BaseException-only exceptions; %d stress runs with 2-4 unsynchronised producers x up to %d messages x 1-3 cycles; 19 Exception classes; offers by direct call and via eliot.log_message"
                     ) % (3 if quick else 4, info["A"], info["A2"], 4 if quick else 5, info["B"], info["C"], 4 if quick else 6, info["D"], info["E"], info["F"], 120 if quick else 600)
        for sc in scs:
            cases += 1
            if nontrivial(sc): seen.add(hashlib.md5(json.dumps(sc, sort_keys=True).encode("utf-8")).digest())
            probs = run_scenario(sc)
            if not probs: continue
            by_sig = {}
            for p in probs:
                s = {"clause": p[0], "after_failure": p[1], "cycle": p[2]}
                by_sig.setdefault(json.dumps(s, sort_keys=True), (s, []))[1].append(p[3])
            real = False
            for sk, (s, texts) in by_sig.items():
                entry = {"signature": s, "scenario": sc, "observed": texts[:3]}
                if s in KNOWN_SIGNATURES:
                    if sk not in sigs_seen and len(known) < 5: known.append(entry)
                    sigs_seen.add(sk)
                else:
                    real = True
                    if sk not in sigs_seen and len(fails) < 5: fails.append(entry); sigs_seen.add(sk)
            failing += real
            if len(fails) >= 5 or failing >= 4: break
            if failing and args.tier == "quick" and time.monotonic() - t0 > 28: break      # failing trees only (time-outs add up)
    finally:
        threading.excepthook = old_hook
        try: remove_destination(sink)
        except Exception as e: err("cleanup:", e)
    try:
        from eliot import Logger
        left = [x for x in getattr(Logger._destinations, "_destinations", []) if isinstance(x, ThreadedWriter) or x is sink]
        if left and not fails: err("c19: WARNING destinations left registered: %r" % (left,))
    except Exception as e: err("cleanup check:", e)
    err("c19: %d cases in %.1fs" % (cases, time.monotonic() - t0))
    print(json.dumps({"cases": cases, "distinct": len(seen), "failures": fails, "known": known, "bound": bound,
                      "rule": "a scenario = start/stop cycles on one ThreadedWriter, each an explicit schedule of steps [o|l, producer, exception-or-null] (offer by direct call | via log_message), [w] (writer finishes the parked destination call), [s] (stopService; remaining writes then released one by one); "
                              "checked per cycle: offers return while the destination is parked, destination sees exactly the offered ids in offer order, written = offered minus failing, one thread that is no caller thread, stop not complete while anything is pending, "
                              "everything handled at the instant of completion, writer thread gone, nothing from outside the cycle delivered; stress scenarios check the order-independent part under free-running producers; distinct = distinct scenario JSON with >= 1 offered message"}))
    sys.stdout.flush(); sys.stderr.flush()
    os._exit(0)        # a broken tree can leave non-daemon writer threads blocked forever
main()
