"""Native driver for C07 (bounded; real code): "Logging never raises into, or alters, the application".

A scenario is a JSON-able dict
    {"logger": default|private|memory, "dests": [...], "extractors": [[class, behaviour], ...], "value": <hostile value kind>,
     "ser": {...typed-field serializer behaviour...}, "globals": bool, "prog": [ops...], "corner": optional tag}
It is interpreted against the REAL eliot public API.  Every eliot call is made through a guard that records an
"api_raised" violation if anything (BaseException) leaves it; application exceptions raised inside actions must come
out as the identical object (args/cause/context untouched); return values must be the identical object; the current
action must be restored; and a healthy observer destination must see exactly the messages an independent model
predicts (one start / one end per action with the right status, exception name and reason, one traceback per
reported failure, one destination-failure report per failing destination call, one serialization-failure report per
failing serializer call).

Prints one JSON line: {cases, distinct, failures:[{signature, scenario, observed}], known:[...], bound, rule}.

KNOWN_ON_UNCHANGED_TREE  (genuine violations of C07 on the unchanged /repo; still detected on every run, but reported
under the top-level key "known" instead of "failures".  K1, K2, K5 are exercised only by dedicated scenarios carrying
a "corner" tag and are matched on (corner, clause, api, raised exception type, innermost eliot frame), so they can
never mask a failure of the general space.  K3, K4 concern MemoryLogger only and are matched by location, see below.)
  K1 corner "exc_module_str_raises": an application exception whose class has a __module__ object whose __str__
     raises (type("ShyError", (Exception,), {"__module__": <obj whose __str__ raises ValueError>})) fails an action:
     Action.finish formats "%s.%s" % (cls.__module__, cls.__name__) outside any guard, so the ValueError leaves
     Action.__exit__ / Action.finish / a log_call-decorated function and REPLACES the application's exception; the
     action gets no end message.
  K2 corner "extractor_nonstr_keys": a registered exception extractor returning a dict with a non-string key
     (register_exception_extractor(KeyError, lambda e: {1: 2})): write_traceback()/writeTraceback()/writeFailure() do
     msg.bind(**fields) -> TypeError("keywords must be strings") leaves the call (Action.finish with the same
     extractor is fine).
  K3 "memory_logger_formats_validation_error" (MemoryLogger only; the real Logger is fine): MemoryLogger.write catches
     the validation error of a message and then formats it with "{}: {}".format(e, ...); str(e) raises when
       (a) e is an exception raised by a field serializer whose own __str__ raises
           (corner "memory_serializer_badstr_exc": MessageType("t", [Field("v", ser)]).log(v=1, __eliot_logger__=MemoryLogger())
           with ser raising an exception class whose __str__ raises), or
       (b) e carries the message dictionary (ValidationError(message, "Field 'v' is missing" / "Unexpected field"),
           TypeError(dictionary, "1 is not unicode"), TypeError("Message %s doesn't encode to JSON")) and a value in
           it has a raising __repr__, a __repr__ returning a non-string (TypeError), is an integer of more than 4300
           digits (ValueError: int->str conversion limit) or is nested too deeply (RecursionError)
           (corner "memory_write_nonstr_key_badrepr": MemoryLogger().write({1: <object whose repr raises>}); also e.g.
           MessageType.log(other=<such object>) with the declared field missing).
     The error then leaves the public logging call (log_message, MessageType.log, Message.write, start_action,
     ActionType(), Action.__exit__ ...).
     Classified by location, not by scenario: the logger is a MemoryLogger AND the innermost eliot frame of the escaping
     exception is MemoryLogger.write itself (where == "_output.py:write" or "_output.py:write>driver", i.e. its own
     format call going straight into hostile __str__/__repr__ or failing inside str()); an exception that passed
     through a deeper eliot frame (_validate_message, a serializer, ...) is never this finding.
  K4 "memory_logger_repr_raises_baseexception" (MemoryLogger only): a field value whose __repr__/__str__ raises a
     BaseException that is not an Exception (value kind badboth_AppBase): MemoryLogger.write only guards its
     validation with "except Exception", so the BaseException leaves log_message()/start_action()/... (the real Logger's
     bare excepts swallow it).  Matched on logger == memory, that value kind, that exception type, raised by driver code.
  K5 corner "stdlib_handler_message_str_raises": eliot.stdlib.EliotHandler.emit calls record.getMessage() unguarded
     (and never uses Handler.handleError), so logging.Logger("x").info(obj) with an EliotHandler attached raises
     obj.__str__'s exception into the application (stdlib handlers swallow/print such errors instead).
"""
import argparse, collections, io, itertools, json, os, random, sys, tempfile, time, warnings

sys.dont_write_bytecode = True  # never leave __pycache__ in the tree under test

ap = argparse.ArgumentParser()
ap.add_argument("--tier", default="quick")
ap.add_argument("--seed", type=int, default=0)
ap.add_argument("--scenario")
args = ap.parse_args()
warnings.simplefilter("ignore")
T0 = time.time()
try:  # a runaway allocation in a broken tree must end in MemoryError, not in the OOM killer taking the driver down
    import resource
    import signal
    resource.setrlimit(resource.RLIMIT_AS, (4 << 30, resource.getrlimit(resource.RLIMIT_AS)[1]))
    signal.signal(signal.SIGXFSZ, signal.SIG_IGN)  # oversized temp file: write() fails with EFBIG instead of killing us
    resource.setrlimit(resource.RLIMIT_FSIZE, (256 << 20, resource.getrlimit(resource.RLIMIT_FSIZE)[1]))
except BaseException:
    pass


def emit(cases, distinct, failures, known, bound, rule):
    print(json.dumps({"cases": cases, "distinct": distinct, "failures": failures[:5], "known": known[:60],
                      "bound": bound, "rule": rule}))
    sys.stdout.flush()


try:
    import eliot
    from eliot import (start_action, start_task, startTask, current_action, log_message, log_call, preserve_context,
                       add_destinations, remove_destination, add_global_fields, write_traceback, writeTraceback,
                       writeFailure, register_exception_extractor, Action, Logger, MemoryLogger, Message, MessageType,
                       ActionType, Field, FileDestination, ValidationError)
    from eliot._output import Destinations
    from eliot.stdlib import EliotHandler
    import logging
    import eliot._errors as _eliot_errors
except BaseException as _e:  # a tree that cannot even be imported violates everything
    emit(1, 1, [{"signature": {"clause": "import_failed", "raised": type(_e).__name__}, "scenario": {}, "observed": [repr(_e)[:200]]}],
         [], "none", "import of eliot failed")
    sys.exit(0)

SAFE_STR_FALLBACK = "eliot: unknown, str() raised exception"

# ----------------------------------------------------------------------------------------------------------------
# hostile material
# ----------------------------------------------------------------------------------------------------------------


class AppError(Exception):
    pass


class AppSubError(AppError):
    pass


class AppBase(BaseException):
    pass


class BadStrExc(Exception):
    def __str__(self):
        raise ValueError("str of exception fails")


class BadStrExcK(Exception):
    def __str__(self):
        raise KeyError("str of exception fails with KeyError")


class BadStrBaseExc(Exception):
    def __str__(self):
        raise AppBase("str of exception fails with a BaseException")


class FalsyExc(Exception):
    def __bool__(self):
        return False

    def __len__(self):
        return 0


class BoolRaisesExc(Exception):
    # (a raising __bool__ is not used: the standard library's own traceback module cannot format such an exception)
    def __eq__(self, other):
        raise TypeError("comparison of this exception is undefined")

    __hash__ = Exception.__hash__


class BadReprExc(Exception):
    def __repr__(self):
        raise RuntimeError("repr of exception fails")


class BadBothExc(Exception):
    def __str__(self):
        raise AppError("str fails")

    def __repr__(self):
        raise AppError("repr fails")


class NonStrStrExc(Exception):
    def __str__(self):
        return 42


class BadErrno(OSError):
    @property
    def errno(self):
        raise AttributeError("no errno here")


class _ModuleWithBadStr(object):
    def __str__(self):
        raise ValueError("module name cannot be shown")

    __repr__ = __str__


NoModule = type("RemoteError", (Exception,), {"__module__": None})
IntModule = type("NumberedError", (Exception,), {"__module__": 7})
NoModuleOS = type("RemoteOSError", (OSError,), {"__module__": None})
BadStrModule = type("ShyError", (Exception,), {"__module__": _ModuleWithBadStr()})


def _hostile_args():
    return ValueError(Hostile("str", "ValueError"), Hostile("repr", "KeyError"))


def _chained():
    a = ValueError("a")
    b = KeyError("b")
    a.__cause__ = b
    b.__cause__ = a
    return a


def _noted():
    e = RuntimeError("noted")
    e.__notes__ = ["a note", "\ud800 lone"]
    return e


EXC = {
    "ValueError": lambda: ValueError("bad value"),
    "KeyError": lambda: KeyError("missing"),
    "LookupError": lambda: LookupError("lookup"),
    "IndexError": lambda: IndexError("index"),
    "OSError": lambda: OSError(5, "i/o problem"),
    "FileNotFoundError": lambda: FileNotFoundError(2, "nope", "/x"),
    "RuntimeError": lambda: RuntimeError("runtime"),
    "TypeError": lambda: TypeError("type"),
    "AssertionError": lambda: AssertionError(),
    "AttributeError": lambda: AttributeError("attr"),
    "ZeroDivisionError": lambda: ZeroDivisionError("div"),
    "MemoryError": lambda: MemoryError(),
    "RecursionError": lambda: RecursionError("too deep"),
    "StopIteration": lambda: StopIteration("stop"),
    "UnicodeEncodeError": lambda: UnicodeEncodeError("ascii", "\xe9", 0, 1, "ordinal not in range"),
    "UnicodeDecodeError": lambda: UnicodeDecodeError("utf-8", b"\xff", 0, 1, "invalid start byte"),
    "ValidationError": lambda: ValidationError("v", "invalid"),
    "Custom": lambda: AppError("custom", 42),
    "CustomSub": lambda: AppSubError("sub"),
    "BadStrExc": lambda: BadStrExc("x"),
    "BadStrExcK": lambda: BadStrExcK("x"),
    "BadStrBaseExc": lambda: BadStrBaseExc("x"),
    "FalsyExc": lambda: FalsyExc("falsy"),
    "BoolRaisesExc": lambda: BoolRaisesExc("no truth"),
    "BadReprExc": lambda: BadReprExc("x"),
    "BadBothExc": lambda: BadBothExc("x"),
    "NonStrStrExc": lambda: NonStrStrExc("x"),
    "BadErrno": lambda: BadErrno(3, "x"),
    "NoModule": lambda: NoModule("backend unavailable"),
    "IntModule": lambda: IntModule("numbered"),
    "NoModuleOS": lambda: NoModuleOS(7, "remote os"),
    "HostileArgs": _hostile_args,
    "SurrogateMsg": lambda: ValueError("lone \ud800 surrogate"),
    "BytesMsg": lambda: ValueError(b"\xff\xfe"),
    "ExcGroup": lambda: ExceptionGroup("group", [ValueError(1), KeyError(2)]),
    "Chained": _chained,
    "Noted": _noted,
    "SyntaxError": lambda: SyntaxError("syn", ("f.py", 3, 2, "x = (\n")),
    # only used by dedicated corner scenarios:
    "BadStrModule": lambda: BadStrModule("shy"),
    # BaseException kinds: only ever raised by *application* code
    "KeyboardInterrupt": lambda: KeyboardInterrupt(),
    "SystemExit": lambda: SystemExit(3),
    "GeneratorExit": lambda: GeneratorExit(),
    "AppBase": lambda: AppBase("base"),
}
BASE_KINDS = ["KeyboardInterrupt", "SystemExit", "GeneratorExit", "AppBase"]
CORNER_EXC = ["BadStrModule"]
FAULT_KINDS = [k for k in EXC if k not in BASE_KINDS and k not in CORNER_EXC]  # Exception subclasses
APP_KINDS = FAULT_KINDS + BASE_KINDS
CORE_FAULTS = ["ValueError", "KeyError", "OSError", "Custom", "BadStrExc", "NoModule", "RecursionError", "TypeError"]

CLS = {"Exception": Exception, "BaseException": BaseException, "ValueError": ValueError, "KeyError": KeyError,
       "LookupError": LookupError, "OSError": OSError, "RuntimeError": RuntimeError, "TypeError": TypeError,
       "Custom": AppError, "CustomSub": AppSubError, "BadStrExc": BadStrExc, "NoModule": NoModule,
       "AttributeError": AttributeError, "RecursionError": RecursionError}
KIND_CLASS = {"ValueError": ValueError, "KeyError": KeyError, "LookupError": LookupError, "OSError": OSError,
              "RuntimeError": RuntimeError, "TypeError": TypeError, "Custom": AppError, "CustomSub": AppSubError,
              "BadStrExc": BadStrExc, "NoModule": NoModule, "AttributeError": AttributeError,
              "RecursionError": RecursionError}


class Hostile(object):
    """str and/or repr raise (or return a non-string)."""

    def __init__(self, what, exc):
        self._what = what
        self._exc = exc

    def _boom(self):
        if self._exc == "nonstr":
            return 17
        raise EXC[self._exc]()

    def __str__(self):
        if self._what in ("str", "both"):
            return self._boom()
        return "hostile-str"

    def __repr__(self):
        if self._what in ("repr", "both"):
            return self._boom()
        return "<hostile>"


class BadClassAttr(object):
    """isinstance(x, T) falls back to x.__class__, which raises."""

    @property
    def __class__(self):
        raise RuntimeError("__class__ is not available")


class BadItemsDict(dict):
    def items(self):
        raise RuntimeError("items fails")

    def __iter__(self):
        raise RuntimeError("iter fails")

    def __repr__(self):
        raise RuntimeError("repr fails")


class StrSub(str):
    def __str__(self):
        raise ValueError("str subclass fails")

    def __repr__(self):
        raise ValueError("str subclass repr fails")


class Slotted(object):
    __slots__ = ()


def _deep_list(n=3000):
    x = []
    for _ in range(n):
        x = [x]
    return x


def _deep_dict(n=3000):
    x = {}
    for _ in range(n):
        x = {"k": x}
    return x


def _cyclic():
    x = [1]
    x.append(x)
    return x


def _cyclic_dict():
    x = {"a": 1}
    x["self"] = x
    return x


def _gen():
    yield 1


VALUES = collections.OrderedDict([
    # trivial baselines
    ("int", lambda: 1), ("text", lambda: "hello"), ("list", lambda: [1, "a", None]),
    # str/repr raising, each with several exception classes
    ("badstr_ValueError", lambda: Hostile("str", "ValueError")),
    ("badrepr_ValueError", lambda: Hostile("repr", "ValueError")),
    ("badboth_ValueError", lambda: Hostile("both", "ValueError")),
    ("badboth_KeyError", lambda: Hostile("both", "KeyError")),
    ("badboth_TypeError", lambda: Hostile("both", "TypeError")),
    ("badboth_RuntimeError", lambda: Hostile("both", "RuntimeError")),
    ("badboth_Custom", lambda: Hostile("both", "Custom")),
    ("badboth_OSError", lambda: Hostile("both", "OSError")),
    ("badboth_RecursionError", lambda: Hostile("both", "RecursionError")),
    ("badboth_UnicodeDecodeError", lambda: Hostile("both", "UnicodeDecodeError")),
    ("badboth_BadStrExc", lambda: Hostile("both", "BadStrExc")),
    ("badboth_NoModule", lambda: Hostile("both", "NoModule")),
    ("badboth_StopIteration", lambda: Hostile("both", "StopIteration")),
    ("badboth_MemoryError", lambda: Hostile("both", "MemoryError")),
    ("badboth_AppBase", lambda: Hostile("both", "AppBase")),
    ("badboth_nonstr", lambda: Hostile("both", "nonstr")),
    ("in_list_badboth", lambda: [1, [Hostile("both", "ValueError")]]),
    ("in_dict_badboth", lambda: {"a": {"b": Hostile("both", "KeyError")}}),
    ("badkey_repr", lambda: {Hostile("repr", "ValueError"): 1}),
    # non-string keys
    ("nonstr_keys", lambda: {1: "a", (1, 2): "b", None: 3, 2.5: 4}),
    ("mixed_keys", lambda: {1: "a", "1": "b"}),
    ("bytes_key", lambda: {b"k": 1}),
    ("nested_nonstr_keys", lambda: [{"a": {True: {frozenset([1]): 2}}}]),
    # numbers
    ("int_2_63", lambda: 2 ** 63), ("int_2_64", lambda: 2 ** 64), ("int_neg_2_70", lambda: -(2 ** 70)),
    ("int_huge", lambda: 10 ** 5000), ("nan", lambda: float("nan")), ("inf", lambda: float("inf")),
    ("neg_inf_in_list", lambda: [float("-inf")]),
    # bytes / text
    ("bytes_ascii", lambda: b"abc"), ("bytes_bad_utf8", lambda: b"\xff\xfe\x00"), ("bytearray", lambda: bytearray(b"\xff")),
    ("surrogate", lambda: "\ud800"), ("surrogate_pairish", lambda: "a\udc80b\ud83d"), ("surrogate_key", lambda: {"\udfff": 1}),
    ("nul_text", lambda: "\x00\x1f"), ("str_subclass_bad", lambda: StrSub("s")),
    # unsupported objects
    ("object", lambda: object()), ("klass", lambda: Hostile), ("function", lambda: _deep_list), ("lambda", lambda: (lambda: 0)),
    ("generator", _gen), ("module", lambda: json), ("exception_instance", lambda: ValueError("as value")),
    ("badstr_exception_instance", lambda: BadStrExc("v")), ("slotted", lambda: Slotted()), ("ellipsis", lambda: Ellipsis),
    ("bad_class_attr", lambda: BadClassAttr()), ("bad_items_dict", lambda: BadItemsDict(a=1)),
    ("memoryview", lambda: memoryview(b"ab")), ("range", lambda: range(3)), ("tuple_of_objects", lambda: (object(), object())),
    ("set_of_tuples", lambda: {(1, 2)}), ("set_unsortable", lambda: {1, "a", None}), ("complex", lambda: 1 + 2j),
    ("frozenset", lambda: frozenset([1])),
    # nesting
    ("deep_list", _deep_list), ("deep_dict", _deep_dict), ("cyclic_list", _cyclic), ("cyclic_dict", _cyclic_dict),
    ("deep_with_hostile_leaf", lambda: [[[[[{"k": [Hostile("both", "ValueError")]}]]]]]),
])
TRIVIAL_VALUES = ("int", "text", "list")
CORE_VALUES = ["badboth_ValueError", "nonstr_keys", "int_2_64", "nan", "bytes_bad_utf8", "surrogate", "object", "deep_list",
               "badboth_KeyError", "badboth_nonstr", "cyclic_list", "bad_class_attr"]


def safe_type(o):
    try:
        return type(o).__name__
    except BaseException:
        return "?"


_ELIOT_DIR = os.path.dirname(os.path.abspath(eliot.__file__))
_THIS = os.path.abspath(__file__)


def where_of(e):
    """innermost eliot frame the exception passed through, as 'file.py:function' (+ '>driver' if it was raised by
    hostile driver code called from there)"""
    try:
        tb = e.__traceback__
        last = None
        tail_driver = False
        n = 0
        while tb is not None and n < 100000:
            n += 1
            fn = os.path.abspath(tb.tb_frame.f_code.co_filename)
            if fn.startswith(_ELIOT_DIR + os.sep):
                last = "%s:%s" % (os.path.basename(fn), tb.tb_frame.f_code.co_name)
                tail_driver = False
            elif fn == _THIS and last is not None:
                tail_driver = True
            tb = tb.tb_next
        if last is None:
            return "?"
        return last + (">driver" if tail_driver else "")
    except BaseException:
        return "?"


def model_exc_name(cls):
    try:
        return "%s.%s" % (cls.__module__, cls.__name__)
    except BaseException:
        return None


def model_reason(e):
    try:
        return str(e)
    except BaseException:
        return SAFE_STR_FALLBACK


def fires(when, i, kind=None):
    if not when:
        return True
    m = when.get("m")
    if m == "all":
        return True
    if m == "none":
        return False
    if m == "idx":
        return bool((when["bits"] >> (i % when["n"])) & 1)
    if m == "after":
        return i >= when["k"]
    if m == "before":
        return i < when["k"]
    if m == "kind":
        return kind in when["kinds"]
    raise ValueError("bad when %r" % (when,))


MSG_KINDS = ["start", "end_ok", "end_fail", "msg", "tb", "dfail", "sfail"]


def classify(m):
    try:
        st = m.get("action_status")
        if st == "started":
            return "start"
        if st == "succeeded":
            return "end_ok"
        if st == "failed":
            return "end_fail"
        mt = m.get("message_type")
        if mt == "eliot:traceback":
            return "tb"
        if mt == "eliot:destination_failure":
            return "dfail"
        if mt == "eliot:serialization_failure":
            return "sfail"
    except BaseException:
        pass
    return "msg"


class RaisingFile(object):
    """File-like object for FileDestination whose write/flush raise on a subset of calls."""

    def __init__(self, run, spec):
        self.run, self.spec, self.n = run, spec, 0
        self.data = []

    def write(self, b):
        if b == b"":
            return 0
        i = self.n
        self.n += 1
        if self.spec.get("on", "write") == "write" and fires(self.spec.get("when"), i):
            raise EXC[self.spec["exc"]]()
        self.data.append(b)
        return len(b)

    def flush(self):
        if self.spec.get("on") == "flush" and fires(self.spec.get("when"), self.n):
            raise EXC[self.spec["exc"]]()


class Dest(object):
    """A destination under test.  Records every exception it lets out, with the kind of message it was given."""

    def __init__(self, run, spec):
        self.run, self.spec, self.calls, self.raised = run, spec, 0, []
        self.seen = []
        self.dfail_seen = 0
        self.tmp = None
        k = spec["k"]
        self.inner = None
        if k == "jsonb":
            self.inner = FileDestination(file=io.BytesIO())
        elif k == "jsont":
            self.inner = FileDestination(file=io.StringIO())
        elif k == "file":
            self.inner = FileDestination(file=RaisingFile(run, spec))
        elif k == "closed":
            f = io.BytesIO()
            self.inner = FileDestination(file=f)
            f.close()
        elif k == "tmpfile":
            fd, self.tmp = tempfile.mkstemp(prefix="c07drv")
            os.close(fd)
            self.fobj = open(self.tmp, "w", encoding=spec.get("enc", "utf-8"))
            self.inner = FileDestination(file=self.fobj)

    def __call__(self, m):
        kind = classify(m)
        i = self.calls
        self.calls += 1
        k = self.spec["k"]
        if k == "good":
            self.seen.append(m)
            return
        if kind == "dfail":
            # A failure report is only ever produced for a failure on a non-report message, so no destination can be
            # handed more reports than there were such failures.  If it is, reports are being generated for reports:
            # stop feeding the loop (each round doubles the size of the embedded message) and flag it.
            self.dfail_seen += 1
            if self.dfail_seen > sum(1 for d in self.run.dests for kd, _ in d.raised if kd != "dfail"):
                if not self.run.runaway:
                    self.run.runaway = True
                    self.run.bad("runaway_destination_failure_reports", "destination")
            if self.run.runaway:
                return
        try:
            if k == "raise":
                if fires(self.spec.get("when"), i, kind):
                    raise EXC[self.spec["exc"]]()
            else:
                self.inner(m)
        except Exception as e:
            self.raised.append((kind, e))
            raise

    def cleanup(self):
        if self.tmp is not None:
            try:
                self.fobj.close()
            except BaseException:
                pass
            try:
                os.unlink(self.tmp)
            except OSError:
                pass


class FakeFailure(object):
    """Duck-typed twisted Failure: writeFailure only uses .value and .getBriefTraceback()."""

    def __init__(self, value):
        self.value = value
        self.type = value.__class__

    def getBriefTraceback(self):
        return "Traceback: brief\n"


SENTINEL = object()


class Run(object):
    def __init__(self, sc):
        self.sc = sc
        self.viol = []
        self.counter = 0
        self.site = None
        self.ser_calls = 0
        self.ser_raised = []  # (site, exception)
        self.ext_raised = []  # exceptions raised by extractors
        self.ext_calls = 0
        self.actions = []  # expectation records
        self.msgs = []  # expectation records for plain messages
        self.tb_expected = []  # (name, reason) of application-requested tracebacks
        self.tb_excs = []
        self.mode = sc.get("logger", "default")
        self.val = VALUES[sc.get("value", "int")]()
        self.dests = []
        self.obs = None
        self.lg = None
        self.extractor_model = []  # (class, behaviour, tag)
        self.runaway = False
        self.stdlib_expected = 0

    # ---- bookkeeping
    def bad(self, clause, api, **detail):
        d = {"clause": clause, "api": api}
        d.update(detail)
        self.viol.append(d)

    def nid(self):
        self.counter += 1
        return self.counter

    def call(self, api, fn, *a, **kw):
        try:
            return True, fn(*a, **kw)
        except BaseException as e:
            if os.environ.get("C07_DEBUG"):
                import traceback
                traceback.print_exc(file=sys.stderr)
            self.bad("api_raised", api, raised=type(e).__name__, where=where_of(e))
            return False, None

    # ---- set-up / tear-down of global state
    def setup(self):
        sc = self.sc
        self.saved_registry = dict(_eliot_errors._error_extraction.registry)
        gd = Logger._destinations
        self.saved_global_fields = dict(getattr(gd, "_globalFields", {}))
        for spec in sc.get("dests", [{"k": "good"}]):
            d = Dest(self, spec)
            self.dests.append(d)
            if spec["k"] == "good" and self.obs is None:
                self.obs = d
        if self.mode == "default":
            self.lg = None
            self.dset = gd
            if sc.get("globals"):
                self.call("add_global_fields", add_global_fields, g=self.val)
            self.call("add_destinations", add_destinations, *self.dests)
        elif self.mode == "private":
            self.lg = Logger()
            self.dset = Destinations()
            self.lg._destinations = self.dset
            if sc.get("prebuffer"):
                # messages logged before any destination exists are buffered and re-delivered by add()
                self.run_ops(sc["prebuffer"], None)
            if sc.get("globals"):
                self.call("Destinations.addGlobalFields", self.dset.addGlobalFields, g=self.val)
            self.call("Destinations.add", self.dset.add, *self.dests)
        else:
            self.lg = MemoryLogger()
            self.dset = None
        for cname, beh in sc.get("extractors", []):
            tag = "x%d" % self.nid()
            fn = self.make_extractor(cname, beh, tag)
            self.extractor_model.append((CLS[cname], beh, tag))
            self.call("register_exception_extractor", register_exception_extractor, CLS[cname], fn)

    def teardown(self):
        if self.mode == "default":
            for d in self.dests:
                try:
                    remove_destination(d)
                except BaseException:
                    pass
            gf = getattr(Logger._destinations, "_globalFields", None)
            if gf is not None:
                gf.clear()
                gf.update(self.saved_global_fields)
        for d in self.dests:
            d.cleanup()
        reg = _eliot_errors._error_extraction.registry
        reg.clear()
        reg.update(self.saved_registry)

    def make_extractor(self, cname, beh, tag):
        run = self

        def extractor(e):
            run.ext_calls += 1
            if run.ext_calls > 1500:
                raise RuntimeError("extractor called too often")
            try:
                if beh == "ok":
                    return {"xk": tag}
                if beh == "hostile":
                    return {"xk": tag, "xv": run.val}
                if beh == "nonstr_keys":
                    return {1: 2}
                if beh == "raise_self":
                    raise e.__class__(*getattr(e, "args", ()))
                if beh == "reraise":
                    raise e
                if beh == "registered_class":
                    raise EXC[cname]() if cname in EXC else CLS[cname]("from extractor")
                if beh.startswith("raise:"):
                    raise EXC[beh[6:]]()
                raise AssertionError("unknown extractor behaviour " + beh)
            except BaseException as x:
                run.ext_raised.append(x)
                raise

        return extractor

    def model_default_extractor_failure(self, e):
        reg = {EnvironmentError: "errno"}
        for cls, beh, tag in self.extractor_model:
            reg[cls] = beh
        for k in type(e).__mro__:
            if k in reg:
                if reg[k] == "errno":
                    try:
                        e.errno
                    except BaseException as x:
                        return x
                return None
        return None

    def model_extract(self, e):
        """(expected extra fields or None if unpredictable) for exception e, per the registry we set up."""
        reg = {}
        reg[EnvironmentError] = ("errno", None)
        for cls, beh, tag in self.extractor_model:
            reg[cls] = (beh, tag)
        for k in type(e).__mro__:
            if k in reg:
                beh, tag = reg[k]
                if beh == "errno":
                    try:
                        return {"errno": e.errno}
                    except BaseException:
                        return {}
                if beh in ("ok", "hostile"):
                    return {"xk": tag}
                if beh == "nonstr_keys":
                    return None
                return {}
        return {}

    # ---- typed definitions
    def make_ser(self):
        spec = self.sc.get("ser") or {"mode": "id"}
        run = self

        def ser(x):
            i = run.ser_calls
            run.ser_calls += 1
            mode = spec["mode"]
            try:
                if mode == "raise":
                    if fires(spec.get("when"), i):
                        raise EXC[spec["exc"]]()
                    return x
                if mode == "str":
                    return str(x)
                if mode == "repr":
                    return repr(x)
                if mode == "int":
                    return int(x)
                if mode == "json":
                    return json.dumps(x)
                if mode == "len":
                    return len(x)
                return x
            except BaseException as e:
                run.ser_raised.append((run.site, e))
                raise

        return ser

    def message_type(self, name):
        return MessageType(name, [Field("v", self.make_ser(), "the value")], "typed message")

    def action_type(self, name):
        return ActionType(name, [Field("v", self.make_ser(), "start value")], [Field("v", self.make_ser(), "result value")], "typed action")

    # ---- ops
    def run_ops(self, ops, act):
        for op in ops:
            o = op["op"]
            if o == "action":
                self.do_action(op, act)
            elif o == "msg":
                self.do_msg(op, act)
            elif o == "tb":
                self.do_tb(op, act)
            elif o == "stdlib":
                self.do_stdlib(op, act)
            else:
                raise ValueError("unknown op %r" % (o,))

    def logger_kw(self):
        return {} if self.lg is None else {"__eliot_logger__": self.lg}

    def do_msg(self, op, act):
        api = op.get("api", "log_message")
        n = self.nid()
        name = "app:m%d" % n
        rec = {"name": name, "typed": False, "ok": True}
        self.site = (name, "msg")
        val = self.val
        fields = {"v": val}
        if op.get("extra"):
            fields["w"] = {"nested": [val]}
        if api == "action_log" and act is None:
            api = "log_message"
        if api == "Message_log" and self.lg is not None:
            api = "Message_write"
        if api == "log_message":
            kw = dict(fields)
            if current_action() is None:
                kw.update(self.logger_kw())
            ok, _ = self.call("log_message", log_message, name, **kw)
        elif api == "action_log":
            ok, _ = self.call("Action.log", act.log, name, **fields)
        elif api == "Message_log":
            ok, _ = self.call("Message.log", Message.log, message_type=name, **fields)
        elif api == "Message_write":
            ok, m = self.call("Message.new", Message.new, message_type=name, **fields)
            if ok:
                ok, m = self.call("Message.bind", m.bind, z=val)
            if ok:
                if op.get("explicit_action") and act is not None:
                    ok, _ = self.call("Message.write", m.write, action=act)
                else:
                    ok, _ = self.call("Message.write", m.write, self.lg)
        elif api == "typed_log":
            rec["typed"] = True
            ok, mt = self.call("MessageType", self.message_type, name)
            if ok:
                kw = dict(fields)
                kw.update(self.logger_kw())
                ok, _ = self.call("MessageType.log", mt.log, **kw)
        elif api == "typed_write":
            rec["typed"] = True
            ok, mt = self.call("MessageType", self.message_type, name)
            if ok:
                ok, m = self.call("MessageType.__call__", mt, **fields)
            if ok:
                ok, _ = self.call("Message.write", m.write, self.lg)
        elif api == "typed_missing":
            # the typed field is missing: the serializer machinery itself fails (KeyError), must be reported not raised
            rec["typed"] = True
            rec["missing"] = True
            ok, mt = self.call("MessageType", self.message_type, name)
            if ok:
                ok, _ = self.call("MessageType.log", mt.log, other=val, **self.logger_kw())
        elif api == "logger_write":
            lg = self.lg if self.lg is not None else Logger()
            d = {"message_type": name, "v": val, "task_uuid": "u", "task_level": [1], "timestamp": 1.0,
                 7: "int key", Hostile("both", "ValueError"): "hostile key", b"bytes": 1}
            snapshot = dict(d)
            ok, _ = self.call("Logger.write", lg.write, d)
            if set(d) != set(snapshot) or any(d[k] is not snapshot[k] for k in snapshot):
                self.bad("caller_dict_mutated", "Logger.write")
        else:
            raise ValueError("unknown msg api %r" % (api,))
        rec["ok"] = ok
        self.msgs.append(rec)

    def do_tb(self, op, act):
        e = EXC[op["exc"]]()
        api = op.get("api", "write_traceback")
        self.site = ("tb", "tb")
        try:
            raise e
        except BaseException:
            if api == "write_traceback":
                ok, _ = self.call(api, write_traceback, self.lg)
            elif api == "exc_info":
                ok, _ = self.call("write_traceback(exc_info)", write_traceback, self.lg, exc_info=sys.exc_info())
            elif api == "writeTraceback":
                ok, _ = self.call(api, writeTraceback, self.lg)
            elif api == "writeFailure":
                ok, _ = self.call(api, writeFailure, FakeFailure(e), self.lg)
            else:
                raise ValueError("unknown tb api %r" % (api,))
        if ok:
            self.tb_excs.append(e)
            self.tb_expected.append((model_exc_name(type(e)), model_reason(e), self.model_extract(e)))
        else:
            self.tb_expected.append(None)

    def do_stdlib(self, op, act):
        """standard-library logging routed to eliot through eliot.stdlib.EliotHandler (default logger only)"""
        if self.lg is not None:
            return self.do_msg(M("log_message"), act)
        n = self.nid()
        lg = logging.Logger("c07.n%d" % n)  # free-standing: not registered with the logging manager
        ok, h = self.call("EliotHandler", EliotHandler)
        if not ok:
            return
        lg.addHandler(h)
        old_raise = logging.raiseExceptions
        self.site = ("stdlib", "msg")
        try:
            if op.get("hostile_msg"):
                ok, _ = self.call("logging.Logger.info", lg.info, self.val)
            elif op.get("exc"):
                e = EXC[op["exc"]]()
                try:
                    raise e
                except BaseException:
                    ok, _ = self.call("logging.Logger.exception", lg.exception, "failed: %s", "reason")
                if ok:
                    self.tb_excs.append(e)
                    self.tb_expected.append((model_exc_name(type(e)), model_reason(e), self.model_extract(e)))
                else:
                    self.tb_expected.append(None)
            else:
                ok, _ = self.call("logging.Logger.warning", lg.warning, "value %s", "text")
            if ok:
                self.stdlib_expected += 1
        finally:
            lg.removeHandler(h)
            logging.raiseExceptions = old_raise

    def check_app_exc(self, caught, expected, before, api):
        if caught is not expected:
            if expected is None:
                self.bad("api_raised", api, raised=type(caught).__name__, where=where_of(caught))
            else:
                self.bad("app_exception_replaced", api, raised=type(caught).__name__, app=type(expected).__name__, where=where_of(caught))
            return
        args, cause, ctx = before
        try:
            now = (caught.args, caught.__cause__, caught.__context__)
        except BaseException:
            return
        if now[0] is not args and now[0] != args or now[1] is not cause or now[2] is not ctx:
            self.bad("app_exception_modified", api, app=type(expected).__name__)

    def do_action(self, op, parent):
        style = op.get("style", "with")
        exit_ = op.get("exit", "ok")
        n = self.nid()
        name = "app:a%d" % n
        val = self.val
        if style in ("log_call", "log_call_noresult", "log_call_method", "preserve") and self.lg is not None:
            style = "with"  # these APIs only know the default logger
        if style == "preserve" and current_action() is None:
            style = "with"
        before_ctx = current_action()
        exc_obj = EXC[exit_]() if exit_ != "ok" else None
        exc_before = None
        if exc_obj is not None:
            exc_before = (exc_obj.args, exc_obj.__cause__, exc_obj.__context__)
        rec = {"name": name, "typed": style in ("typed", "typed_task"), "exit": exit_, "exc": exc_obj, "started": False,
               "finished": False, "has_start_value": bool(op.get("f")) or style in ("typed", "typed_task")}
        fields = {"v": val} if op.get("f") else {}
        act_box = [None]
        run = self

        def body(*a, **k):
            run.run_ops(op.get("body", []), act_box[0])
            if act_box[0] is not None and (op.get("s") or rec["typed"]):
                run.call("Action.add_success_fields", act_box[0].add_success_fields, v=val)
                if op.get("s2"):
                    run.call("Action.addSuccessFields", act_box[0].addSuccessFields, w=[val])
            run.site = (name, "end")
            if exc_obj is not None:
                raise exc_obj
            return SENTINEL

        def guarded_block(api, enter):
            """run `with enter(): body()`; classify what comes out"""
            try:
                with enter():
                    body()
            except BaseException as e:
                run.check_app_exc(e, exc_obj, exc_before, api)
                return e is exc_obj
            else:
                if exc_obj is not None:
                    run.bad("app_exception_swallowed", api, app=type(exc_obj).__name__)
                    return False
                return True

        self.site = (name, "start")
        if style in ("log_call", "log_call_noresult", "log_call_method"):
            self.do_log_call(op, style, name, rec, body, exc_obj, exc_before)
        elif style == "preserve":
            rec = None
            ok, g = self.call("preserve_context", preserve_context, body)
            if ok:
                try:
                    r = g()
                except BaseException as e:
                    self.check_app_exc(e, exc_obj, exc_before, "preserve_context()()")
                    if e is exc_obj:
                        self.tb_excs.append(e)  # the restored-context action failed with it: extractors ran on it
                else:
                    if exc_obj is not None:
                        self.bad("app_exception_swallowed", "preserve_context()()", app=type(exc_obj).__name__)
                    elif r is not SENTINEL:
                        self.bad("return_value_altered", "preserve_context()()")
        else:
            if style in ("with", "ctx", "run", "manual", "finish_exc"):
                ok, act = self.call("start_action", start_action, self.lg, name, **fields)
            elif style == "task":
                ok, act = self.call("start_task", start_task, self.lg, name, **fields)
            elif style == "startTask":
                ok, act = self.call("startTask", startTask, self.lg, name, **fields)
            elif style == "child":
                if parent is not None:
                    ok, act = self.call("Action.child", parent.child, parent._logger, name)
                    if ok:
                        ok, _ = self.call("Action._start", act._start, dict(fields))
                else:
                    ok, act = self.call("start_action", start_action, self.lg, name, **fields)
            elif style == "continue":
                tid = "3c6a7c1e-0000-4000-8000-%012d@/3/%d" % (n, n)
                if n % 2:
                    tid = tid.encode("ascii")
                ok, act = self.call("Action.continue_task", Action.continue_task, self.lg, task_id=tid, action_type=name, **fields)
            elif style in ("typed", "typed_task"):
                ok, at = self.call("ActionType", self.action_type, name)
                act = None
                if ok:
                    self.site = (name, "start")
                    if style == "typed":
                        ok, act = self.call("ActionType.__call__", at, self.lg, v=val)
                    else:
                        ok, act = self.call("ActionType.as_task", at.as_task, self.lg, v=val)
            else:
                raise ValueError("unknown action style %r" % (style,))
            rec["started"] = ok
            if not ok or act is None:
                self.run_ops(op.get("body", []), parent)
            else:
                act_box[0] = act
                if style in ("with", "task", "startTask", "typed", "typed_task", "continue", "child"):
                    rec["finished"] = guarded_block("Action.__exit__", lambda: act)
                elif style == "ctx":
                    guarded_block("Action.context", act.context)
                    rec["finished"], _ = self.call("Action.finish", act.finish, exc_obj)
                elif style == "run":
                    try:
                        r = act.run(body)
                    except BaseException as e:
                        self.check_app_exc(e, exc_obj, exc_before, "Action.run")
                    else:
                        if exc_obj is not None:
                            self.bad("app_exception_swallowed", "Action.run", app=type(exc_obj).__name__)
                        elif r is not SENTINEL:
                            self.bad("return_value_altered", "Action.run")
                    rec["finished"], _ = self.call("Action.finish", act.finish, exc_obj)
                elif style in ("manual", "finish_exc"):
                    try:
                        body()
                    except BaseException as e:
                        if e is not exc_obj:
                            raise
                    rec["finished"], _ = self.call("Action.finish", act.finish, exc_obj)
                if op.get("finish_again"):
                    # finishing twice must be a harmless no-op
                    self.call("Action.finish(again)", act.finish, None)
        if rec is not None:
            self.actions.append(rec)
        after = current_action()
        if after is not before_ctx:
            self.bad("context_not_restored", "action:" + style)

    def do_log_call(self, op, style, name, rec, body, exc_obj, exc_before):
        val = self.val
        run = self
        rec["has_start_value"] = True
        kw = {"action_type": name}
        if style == "log_call_noresult":
            kw["include_result"] = False
        if op.get("include_args"):
            kw["include_args"] = ["a"]
        api = "log_call()()"
        if style == "log_call_method":
            def build():
                class C(object):
                    @log_call(**kw)
                    def meth(self, a, b=2):
                        body()
                        return a
                return C().meth
        else:
            def build():
                @log_call(**kw)
                def fn(a, b=2, *rest, **more):
                    body()
                    return a
                return fn
        ok, fn = self.call("log_call", build)
        if not ok:
            return
        rec["started"] = True
        try:
            r = fn(val, b=[val]) if not op.get("include_args") else fn(val)
        except BaseException as e:
            self.check_app_exc(e, exc_obj, exc_before, api)
            rec["finished"] = e is exc_obj
        else:
            if exc_obj is not None:
                self.bad("app_exception_swallowed", api, app=type(exc_obj).__name__)
            elif r is not val:
                self.bad("return_value_altered", api)
            else:
                rec["finished"] = True

    # ---- the oracle on what the healthy observer saw
    def verify(self):
        if self.mode == "memory":
            seen = list(self.lg.messages)
        elif self.obs is not None:
            seen = list(self.obs.seen)
        else:
            return
        memory = self.mode == "memory"
        ser_sites = set(s for s, _ in self.ser_raised)
        by_action = collections.defaultdict(list)
        by_mtype = collections.defaultdict(list)
        for m in seen:
            if not isinstance(m, dict):
                self.bad("observer_got_non_dict", "destination")
                continue
            at = m.get("action_type")
            if isinstance(at, str) and "action_status" in m:
                by_action[at].append(m)
            mt = m.get("message_type")
            if isinstance(mt, str):
                by_mtype[mt].append(m)
        any_api_raised = any(v["clause"] in ("api_raised", "app_exception_replaced") for v in self.viol)
        for rec in self.actions:
            if not rec["started"]:
                continue
            ms = by_action.get(rec["name"], [])
            starts = [m for m in ms if m.get("action_status") == "started"]
            ends = [m for m in ms if m.get("action_status") in ("succeeded", "failed")]
            exp_start = 0 if (not memory and (rec["name"], "start") in ser_sites) else 1
            if len(starts) != exp_start:
                self.bad("start_message_count", "observer", got=len(starts), want=exp_start)
            if not rec["finished"]:
                continue
            failing = rec["exc"] is not None
            exp_end = 1
            if not memory and not failing and (rec["name"], "end") in ser_sites:
                exp_end = 0
            if len(ends) != exp_end:
                self.bad("end_message_count", "observer", got=len(ends), want=exp_end, exit=rec["exit"])
                continue
            if not ends:
                continue
            m = ends[0]
            want_status = "failed" if failing else "succeeded"
            if m.get("action_status") != want_status:
                self.bad("end_message_status", "observer", got=str(m.get("action_status")), want=want_status)
            if failing:
                e = rec["exc"]
                if m.get("exception") != model_exc_name(type(e)):
                    self.bad("end_message_exception", "observer", got=repr(m.get("exception"))[:60], want=model_exc_name(type(e)))
                if m.get("reason") != model_reason(e):
                    self.bad("end_message_reason", "observer", want=model_reason(e)[:60])
                extra = self.model_extract(e)
                if extra is not None:
                    for k, v in extra.items():
                        if k not in m or m[k] != v:
                            self.bad("end_message_extracted_fields", "observer", key=k)
                    if "xk" in m and "xk" not in extra:
                        self.bad("end_message_extracted_fields", "observer", key="xk(unexpected)")
        for rec in self.msgs:
            if not rec["ok"]:
                continue
            got = len(by_mtype.get(rec["name"], []))
            want = 1
            if not memory and rec["typed"] and (rec.get("missing") or (rec["name"], "msg") in ser_sites):
                want = 0
            if got != want:
                self.bad("message_count", "observer", got=got, want=want, typed=rec["typed"])
        if len(by_mtype.get("eliot:stdlib", [])) != self.stdlib_expected:
            self.bad("message_count", "observer", got=len(by_mtype.get("eliot:stdlib", [])), want=self.stdlib_expected, typed="stdlib")
        if any_api_raised:
            return  # the counts below are meaningless once a call has blown up half-way
        # tracebacks: one per application request + one per failing extractor + one per failing serializer
        want_tb = collections.Counter()
        unpredictable = False
        for t in self.tb_expected:
            if t is None:
                unpredictable = True
            else:
                want_tb[(t[0], t[1])] += 1
        for e in self.ext_raised:
            want_tb[(model_exc_name(type(e)), model_reason(e))] += 1
        n_missing = sum(1 for r in self.msgs if r.get("missing") and r["ok"])
        extracted_from = [rec["exc"] for rec in self.actions if rec["started"] and rec["finished"] and rec["exc"] is not None]
        extracted_from += self.tb_excs
        if not memory:
            for _, e in self.ser_raised:
                want_tb[(model_exc_name(type(e)), model_reason(e))] += 1
                extracted_from.append(e)
            # a typed message lacking its declared field: eliot's own serializer machinery fails with KeyError('v')
            want_tb[("builtins.KeyError", "'v'")] += n_missing
        for e in extracted_from:
            # the built-in errno extractor (registered for EnvironmentError) itself fails if .errno raises
            x = self.model_default_extractor_failure(e)
            if x is not None:
                want_tb[(model_exc_name(type(x)), model_reason(x))] += 1
        got_tb = collections.Counter()
        for m in by_mtype.get("eliot:traceback", []):
            ex, rs = m.get("exception"), m.get("reason")
            if isinstance(ex, type):
                ex = model_exc_name(ex)
            if not isinstance(rs, str):
                rs = model_reason(rs)
            got_tb[(ex, rs)] += 1
        if not unpredictable and got_tb != want_tb:
            diff = (got_tb - want_tb) + (want_tb - got_tb)
            self.bad("traceback_messages", "observer", got=sum(got_tb.values()), want=sum(want_tb.values()),
                     first=sorted(str(k) for k in diff.keys())[0][:80])
        # extracted fields in application-requested tracebacks
        for t in self.tb_expected:
            if t and t[2]:
                cands = [m for m in by_mtype.get("eliot:traceback", []) if all(k in m and m[k] == v for k, v in t[2].items())]
                if not cands:
                    self.bad("traceback_extracted_fields", "observer", want=str(sorted(t[2]))[:60])
        if memory:
            return
        # serialization failure reports
        want_sf = len(self.ser_raised) + n_missing
        got_sf = len(by_mtype.get("eliot:serialization_failure", []))
        if got_sf != want_sf:
            self.bad("serialization_failure_reports", "observer", got=got_sf, want=want_sf)
        for m in by_mtype.get("eliot:serialization_failure", []):
            if not isinstance(m.get("message"), str):
                self.bad("serialization_failure_report_shape", "observer")
        # destination failure reports
        plain = collections.Counter()
        odd = 0
        for d in self.dests:
            for kind, e in d.raised:
                if kind == "dfail":
                    continue
                if isinstance(type(e).__module__, str):
                    plain[(model_exc_name(type(e)), model_reason(e))] += 1
                else:
                    odd += 1
        got_df = collections.Counter()
        for m in by_mtype.get("eliot:destination_failure", []):
            if not isinstance(m.get("message"), str):
                self.bad("destination_failure_report_shape", "observer")
            got_df[(m.get("exception"), m.get("reason"))] += 1
        extra = got_df - plain
        missing = plain - got_df
        if missing or sum(extra.values()) > odd:
            self.bad("destination_failure_reports", "observer", got=sum(got_df.values()), want=sum(plain.values()), odd=odd)
        if self.sc.get("globals"):
            for m in seen:
                if isinstance(m, dict) and m.get("g", None) is not self.val:
                    self.bad("global_field_missing", "observer")
                    break

    def execute(self):
        lim = sys.getrecursionlimit()
        try:
            self.setup()
            try:
                self.run_ops(self.sc["prog"], None)
                if current_action() is not None:
                    self.bad("context_not_restored", "program")
            finally:
                pass
            if not self.sc.get("corner"):
                self.verify()
        finally:
            self.teardown()
            sys.setrecursionlimit(lim)
        return self.viol


# ----------------------------------------------------------------------------------------------------------------
# known violations on the unchanged tree: (corner tag, clause, api prefix, raised)
# ----------------------------------------------------------------------------------------------------------------
KNOWN = [
    ("exc_module_str_raises", ("app_exception_replaced", "api_raised"), ("Action.__exit__", "Action.finish", "log_call()()"), "ValueError",
     "_action.py:finish>driver"),
    ("extractor_nonstr_keys", ("api_raised",), ("write_traceback", "writeTraceback", "writeFailure", "write_traceback(exc_info)"), "TypeError",
     "_traceback.py:_writeTracebackMessage"),
]
KNOWN.append(("stdlib_handler_message_str_raises", ("api_raised",), ("logging.Logger.info",), "ValueError", "stdlib.py:emit>driver"))
MEMORY_KNOWN = "memory_logger_formats_validation_error"
MEMORY_BASE_KNOWN = "memory_logger_repr_raises_baseexception"


def is_known(sc, v):
    """name of the known finding this violation is an instance of, or None"""
    if sc.get("logger") == "memory" and v["clause"] in ("api_raised", "app_exception_replaced") and v.get("where") in ("_output.py:write>driver", "_output.py:write"):
        # the exception came out of a hostile __str__/__repr__ called *directly* by MemoryLogger.write (its
        # "{}: {}".format(e, ...) of a validation error); anything raised deeper or elsewhere is not this finding
        return MEMORY_KNOWN
    if sc.get("logger") == "memory" and v["clause"] in ("api_raised", "app_exception_replaced") and v.get("raised") == "AppBase" \
            and sc.get("value") == "badboth_AppBase" and str(v.get("where")).endswith(">driver"):
        return MEMORY_BASE_KNOWN
    c = sc.get("corner")
    if not c:
        return None
    for tag, clauses, apis, raised, where in KNOWN:
        if tag == c and v["clause"] in clauses and v["api"] in apis and v.get("raised") == raised and v.get("where") == where:
            return tag
    return None


def run_scenario(sc):
    """returns (unknown violations, known violations)"""
    if sc.get("special") == "memory_write_nonstr_key":
        return run_special_memory_write(sc)
    r = Run(sc)
    try:
        viol = r.execute()
    except BaseException as e:
        import traceback
        traceback.print_exc(file=sys.stderr)
        viol = r.viol + [{"clause": "harness_error", "api": "driver", "raised": type(e).__name__}]
    known = []
    rest = []
    for v in viol:
        k = is_known(sc, v)
        if k:
            v = dict(v)
            v["known"] = k
            known.append(v)
        else:
            rest.append(v)
    if known:
        # missing messages of exactly the call that blew up are part of the same finding
        rest = [v for v in rest if v["api"] != "observer"]
    return rest, known


def run_special_memory_write(sc):
    """ILogger.write called directly on a MemoryLogger with a non-string key"""
    ml = MemoryLogger()
    viol = []
    d = {1: VALUES[sc["value"]](), "message_type": "m"}
    try:
        ml.write(d)
    except BaseException as e:
        viol.append({"clause": "api_raised", "api": "MemoryLogger.write", "raised": type(e).__name__, "where": where_of(e)})
    known = []
    for v in viol:
        if is_known(sc, v):
            v["known"] = is_known(sc, v)
            known.append(v)
    return [v for v in viol if "known" not in v], known


# ----------------------------------------------------------------------------------------------------------------
# enumeration
# ----------------------------------------------------------------------------------------------------------------
GOOD = {"k": "good"}


def A(style="with", exit="ok", body=(), **kw):
    d = {"op": "action", "style": style, "exit": exit, "body": list(body)}
    d.update(kw)
    return d


def M(api="log_message", **kw):
    d = {"op": "msg", "api": api}
    d.update(kw)
    return d


def STD(exc=None, **kw):
    d = {"op": "stdlib"}
    if exc:
        d["exc"] = exc
    d.update(kw)
    return d


def TB(exc="ValueError", api="write_traceback"):
    return {"op": "tb", "exc": exc, "api": api}


MSG_APIS = ["log_message", "action_log", "Message_log", "Message_write", "typed_log", "typed_write", "typed_missing", "logger_write"]
ACTION_STYLES = ["with", "task", "startTask", "ctx", "run", "manual", "child", "continue", "typed", "typed_task", "log_call",
                 "log_call_noresult", "log_call_method", "preserve"]
TB_APIS = ["write_traceback", "exc_info", "writeTraceback", "writeFailure"]


def value_templates():
    """programs that put the value at every site: start field, success field, message field (every API), log_call
    argument and result, typed fields, inside and outside actions, plus failure paths around it."""
    t = []
    t.append([M(a) for a in MSG_APIS])  # context-less messages
    t.append([A("with", f=1, s=1, s2=1, body=[M(a, extra=1) for a in MSG_APIS])])
    t.append([A("with", "ValueError", f=1, s=1, body=[M("log_message"), TB("KeyError")])])
    t.append([A("typed", f=1, s=1, body=[M("typed_log"), A("typed_task", "Custom", body=[M("typed_write")])])])
    t.append([A("log_call", body=[M("log_message")]), A("log_call_method", "KeyError"), A("log_call_noresult", include_args=1)])
    t.append([A("ctx", f=1, s=1, body=[A("run", "OSError", f=1, body=[M("action_log")])]), A("manual", f=1, s=1, finish_again=1)])
    t.append([A("task", f=1, body=[A("preserve", body=[M("log_message")]), A("continue", "RuntimeError", f=1), A("child", f=1, s=1)])])
    t.append([TB("HostileArgs", a) for a in TB_APIS] + [A("with", "HostileArgs"), A("finish_exc", "BadStrExc", f=1), STD(), STD("HostileArgs"),
              A("with", body=[STD("BadStrExc")])])
    return t


FAULT_TEMPLATES = [
    # exercises every message kind: start, in-action msg, traceback, failed end, succeeded end, context-less, typed
    [A("with", "ValueError", f=1, body=[M("log_message"), TB("KeyError"), A("typed", "ok", body=[M("typed_log")])]), M("log_message"), TB("OSError")],
    [A("task", "ok", s=1, body=[A("ctx", "Custom", body=[M("action_log"), A("run", "ok", s=1)]), TB("ValueError", "exc_info")]), A("log_call", "KeyError")],
    [A("with", "OSError", body=[A("with", "KeyError", body=[A("with", "ValueError", body=[TB("Custom")])])]), M("typed_log"), M("typed_missing")],
]


def dest_layouts(bad_specs):
    """positions of the healthy observer relative to the failing destinations"""
    out = []
    for b in bad_specs:
        out.append([b, GOOD])
        out.append([GOOD, b])
    return out


def scenario_key(sc):
    return json.dumps(sc, sort_keys=True)


def nontrivial(sc):
    if sc.get("value", "int") not in TRIVIAL_VALUES:
        return True
    if any(d["k"] != "good" for d in sc.get("dests", [])):
        return True
    if sc.get("extractors") or (sc.get("ser") or {}).get("mode", "id") != "id":
        return True
    return '"exit": "ok"' not in json.dumps(sc.get("prog")) or '"tb"' in json.dumps(sc.get("prog"))


def enumerate_scenarios(tier, seed):
    quick = tier == "quick"
    rng = random.Random(seed)
    out = []

    def add(**sc):
        out.append(sc)

    # ---- corner scenarios for the known violations (always run, both tiers)
    for style in ("with", "ctx", "log_call"):
        add(corner="exc_module_str_raises", logger="default", dests=[GOOD], value="int", prog=[A(style, "BadStrModule")])
    add(corner="exc_module_str_raises", logger="private", dests=[GOOD], value="int", prog=[TB("BadStrModule")])
    for api in TB_APIS:
        add(corner="extractor_nonstr_keys", logger="private", dests=[GOOD], value="int", extractors=[["KeyError", "nonstr_keys"]],
            prog=[TB("KeyError", api), A("with", "KeyError")])
    add(corner="stdlib_handler_message_str_raises", logger="default", dests=[GOOD], value="badstr_ValueError", prog=[STD(hostile_msg=1)])
    add(corner="memory_serializer_badstr_exc", logger="memory", value="int", ser={"mode": "raise", "exc": "BadStrExc", "when": {"m": "all"}},
        prog=[M("typed_log"), M("typed_write"), A("typed", "ok"), A("typed_task", "ValueError")])
    add(corner="memory_write_nonstr_key_badrepr", special="memory_write_nonstr_key", logger="memory", value="badboth_ValueError", prog=[])

    # ---- block A: every hostile value x every site x destinations that must digest it
    vt = value_templates()
    dest_cfgs = [[GOOD], [{"k": "jsonb"}, GOOD], [GOOD, {"k": "jsont"}], [{"k": "tmpfile"}, GOOD, {"k": "raise", "exc": "OSError", "when": {"m": "all"}}]]
    for vname in VALUES:
        for ti, prog in enumerate(vt):
            for di, dc in enumerate(dest_cfgs):
                for lg in ("default", "private"):
                    if quick and (ti + di + (lg == "private") + len(vname)) % 2 and vname not in CORE_VALUES:
                        continue
                    add(logger=lg, dests=dc, value=vname, prog=prog, globals=bool((ti + di) % 3 == 0))
            add(logger="memory", value=vname, prog=prog)
    # typed serializers that really convert the value (str/repr/int/json/len raise naturally on hostile values)
    for vname in VALUES:
        for mode in ("str", "repr", "int", "json", "len"):
            if quick and vname not in CORE_VALUES and mode not in ("str", "repr"):
                continue
            for lg in ("default", "private", "memory"):
                add(logger=lg, dests=[GOOD, {"k": "jsonb"}], value=vname, ser={"mode": mode}, prog=vt[3] + [M("typed_log"), M("typed_write")])

    # ---- block B: destinations raising on subsets of calls
    whens = [{"m": "all"}] + [{"m": "kind", "kinds": [k]} for k in MSG_KINDS]
    whens += [{"m": "kind", "kinds": list(c)} for c in (("start", "dfail"), ("end_fail", "tb"), ("end_ok", "end_fail"), ("tb", "dfail", "sfail"), ("msg", "sfail"))]
    whens += [{"m": "idx", "bits": b, "n": 3} for b in range(1, 7)] + [{"m": "idx", "bits": b, "n": 4} for b in (1, 2, 4, 8, 5, 10, 9, 6)]
    whens += [{"m": "after", "k": k} for k in (1, 2, 5)] + [{"m": "before", "k": k} for k in (1, 3)]
    excs = CORE_FAULTS if quick else FAULT_KINDS
    for ti, prog in enumerate(FAULT_TEMPLATES):
        for wi, w in enumerate(whens):
            for ei, ek in enumerate(excs):
                if quick and (ti + wi + ei) % 3:
                    continue
                b = {"k": "raise", "exc": ek, "when": w}
                for li, layout in enumerate(dest_layouts([b])):
                    lg = ("default", "private")[(ti + wi + ei + li) % 2]
                    add(logger=lg, dests=layout, value=CORE_VALUES[(wi + ei) % len(CORE_VALUES)], prog=prog,
                        ser={"mode": "raise", "exc": ek, "when": {"m": "idx", "bits": 1 + (wi % 7), "n": 3}} if (wi + ei) % 4 == 0 else None)
    # every exception class as an always/sometimes failing destination, and as a failing file
    for ek in FAULT_KINDS:
        for w in ({"m": "all"}, {"m": "idx", "bits": 2, "n": 2}, {"m": "kind", "kinds": ["end_fail", "end_ok", "dfail"]}):
            add(logger="default", dests=[{"k": "raise", "exc": ek, "when": w}, GOOD, {"k": "raise", "exc": "ValueError", "when": {"m": "idx", "bits": 1, "n": 2}}],
                value="text", prog=FAULT_TEMPLATES[0])
            add(logger="private", dests=[GOOD, {"k": "file", "exc": ek, "when": w, "on": "write"}, {"k": "file", "exc": ek, "when": w, "on": "flush"}],
                value="text", prog=FAULT_TEMPLATES[1])
    add(logger="default", dests=[{"k": "closed"}, GOOD], value="text", prog=FAULT_TEMPLATES[0])
    add(logger="private", dests=[{"k": "tmpfile", "enc": "ascii"}, GOOD], value="surrogate", prog=FAULT_TEMPLATES[0])
    # messages buffered before any destination is added are re-delivered by add(): that must not raise either
    for ek in CORE_FAULTS:
        for w in ({"m": "all"}, {"m": "idx", "bits": 5, "n": 3}):
            add(logger="private", dests=[{"k": "raise", "exc": ek, "when": w}, {"k": "jsonb"}], value="badboth_ValueError",
                prebuffer=[M("log_message"), A("with", "ValueError", f=1)], prog=[M("log_message")])

    # ---- block C: exception extractors: every pair of (class, behaviour) registrations (includes failure cycles)
    xcls = ["Exception", "ValueError", "KeyError", "OSError"]
    xbeh = ["ok", "raise:ValueError", "raise:KeyError", "raise:OSError", "raise:Custom", "raise_self", "reraise"]
    xprog = [A("with", "KeyError", body=[A("with", "ValueError", body=[TB("OSError")])]), TB("ValueError"), TB("KeyError", "writeFailure"),
             M("typed_log"), A("log_call", "OSError")]
    regs = [[c, b] for c in xcls for b in xbeh]
    pairs = [[r] for r in regs] + [[r1, r2] for r1 in regs for r2 in regs if r1[0] < r2[0]]
    for pi, ex in enumerate(pairs):
        for lg in ("default", "private", "memory"):
            if lg == "memory" and pi % 4:
                continue
            if quick and lg == "default" and pi % 2:
                continue
            add(logger=lg, dests=[GOOD], value="text", extractors=ex, prog=xprog,
                ser={"mode": "raise", "exc": ("ValueError", "KeyError", "OSError")[pi % 3], "when": {"m": "all"}})
    # wider classes / behaviours, three registrations, with failing destinations on top
    xcls2 = list(CLS)
    xbeh2 = xbeh + ["hostile", "registered_class"] + ["raise:" + k for k in ("AppBase", "BadStrBaseExc", "BadStrExc", "NoModule", "RecursionError", "BadErrno", "LookupError", "CustomSub", "RuntimeError", "TypeError", "AttributeError")]
    for i in range(300 if quick else 6000):
        k = rng.choice((1, 2, 3, 3))
        cs = rng.sample(xcls2, k)
        ex = [[c, rng.choice(xbeh2)] for c in cs]
        exits = [rng.choice(list(KIND_CLASS) + ["BadErrno", "FileNotFoundError", "KeyboardInterrupt", "NoModuleOS"]) for _ in range(3)]
        prog = [A(rng.choice(["with", "ctx", "run", "typed", "log_call"]), exits[0], body=[TB(exits[1], rng.choice(TB_APIS)), A("with", exits[2])]), M("typed_log")]
        dests = rng.choice([[GOOD], [{"k": "raise", "exc": rng.choice(CORE_FAULTS), "when": rng.choice(whens)}, GOOD]])
        add(logger=rng.choice(["default", "private", "memory"]), dests=dests, value=rng.choice(CORE_VALUES), extractors=ex, prog=prog,
            ser=rng.choice([None, {"mode": "raise", "exc": rng.choice(list(KIND_CLASS)), "when": {"m": "idx", "bits": rng.randint(1, 7), "n": 3}}]))

    # ---- block D: failing field serializers on subsets of calls x message kinds (start / success end / message)
    sprog = [A("typed", "ok", body=[M("typed_log"), A("typed_task", "ValueError", body=[M("typed_write")]), M("typed_log")]), M("typed_log"), A("typed", "KeyError")]
    for ek in (CORE_FAULTS + ["ValidationError", "BadReprExc", "StopIteration"]) if quick else FAULT_KINDS:
        for bits in range(1, 16):
            if quick and (bits + len(ek)) % 3:
                continue
            for lg in ("default", "private", "memory"):
                add(logger=lg, dests=[GOOD], value="text", ser={"mode": "raise", "exc": ek, "when": {"m": "idx", "bits": bits, "n": 4}}, prog=sprog)
        add(logger="private", dests=[{"k": "raise", "exc": ek, "when": {"m": "kind", "kinds": ["tb", "sfail"]}}, GOOD], value="object",
            ser={"mode": "raise", "exc": ek, "when": {"m": "all"}}, prog=sprog)

    # ---- block E: application exceptions (incl. BaseException) x every scoping API x nesting, must come out unchanged
    for ek in APP_KINDS:
        for si, style in enumerate(ACTION_STYLES + ["finish_exc"]):
            for variant in range(3):
                if quick and (si + variant + len(ek)) % 3 and ek not in ("NoModule", "IntModule", "BadStrExc"):
                    continue
                inner = A(style, ek, f=variant == 1, s=variant == 2)
                if variant == 0:
                    prog = [inner]
                elif variant == 1:
                    prog = [A("with", "ok", body=[inner, M("log_message")])]
                else:
                    prog = [A("task", "Custom", body=[A("ctx", "ok", body=[inner])]), TB(ek) if ek not in BASE_KINDS else M("log_message")]
                dests = [[GOOD], [{"k": "raise", "exc": "ValueError", "when": {"m": "all"}}, GOOD], [{"k": "jsonb"}, GOOD]][variant]
                add(logger=("default", "private", "default")[variant], dests=dests, value=("text", "object", "badboth_ValueError")[variant], prog=prog)
    for ek in FAULT_KINDS:
        for api in TB_APIS:
            add(logger="private", dests=[GOOD, {"k": "jsont"}], value="text", prog=[TB(ek, api), A("with", "ok", body=[TB(ek, api)])])
            add(logger="memory", value="text", prog=[TB(ek, api)])
        add(logger="default", dests=[{"k": "raise", "exc": ek, "when": {"m": "kind", "kinds": ["tb", "msg"]}}, GOOD], value="text",
            prog=[STD(ek), A("with", ek, body=[STD(), STD(ek)])])

    # ---- block F: seeded random programs x random faults in every dimension at once
    def rprog(depth, width):
        ops = []
        for _ in range(rng.randint(1, width)):
            r = rng.random()
            if r < 0.45 and depth > 0:
                ops.append(A(rng.choice(ACTION_STYLES + ["finish_exc"]), rng.choice(["ok", "ok"] + APP_KINDS), body=rprog(depth - 1, width),
                             f=rng.randint(0, 1), s=rng.randint(0, 1), s2=rng.randint(0, 1), finish_again=int(rng.random() < 0.15),
                             include_args=int(rng.random() < 0.2)))
            elif r < 0.75:
                ops.append(M(rng.choice(MSG_APIS), extra=rng.randint(0, 1), explicit_action=rng.randint(0, 1)))
            elif r < 0.8:
                ops.append(STD(rng.choice([None] + FAULT_KINDS)))
            else:
                ops.append(TB(rng.choice(FAULT_KINDS), rng.choice(TB_APIS)))
        return ops

    def rwhen():
        r = rng.random()
        if r < 0.2:
            return {"m": "all"}
        if r < 0.5:
            return {"m": "kind", "kinds": rng.sample(MSG_KINDS, rng.randint(1, 3))}
        if r < 0.9:
            n = rng.randint(2, 5)
            return {"m": "idx", "bits": rng.randint(1, 2 ** n - 1), "n": n}
        return {"m": "after", "k": rng.randint(0, 6)}

    def rdest():
        r = rng.random()
        if r < 0.55:
            return {"k": "raise", "exc": rng.choice(FAULT_KINDS), "when": rwhen()}
        if r < 0.7:
            return {"k": "jsonb"}
        if r < 0.8:
            return {"k": "jsont"}
        if r < 0.95:
            return {"k": "file", "exc": rng.choice(FAULT_KINDS), "when": rwhen(), "on": rng.choice(["write", "flush"])}
        return {"k": "closed"}

    for i in range(1200 if quick else 120000):
        nd = rng.randint(0, 3)
        dests = [rdest() for _ in range(nd)]
        dests.insert(rng.randint(0, nd), GOOD)
        ex = []
        if rng.random() < 0.5:
            for c in rng.sample(xcls2, rng.randint(1, 3)):
                ex.append([c, rng.choice(xbeh2)])
        ser = None
        r = rng.random()
        if r < 0.35:
            ser = {"mode": "raise", "exc": rng.choice(FAULT_KINDS), "when": rwhen() if rng.random() < 0.5 else {"m": "all"}}
            if ser["when"].get("m") == "kind":
                ser["when"] = {"m": "idx", "bits": rng.randint(1, 7), "n": 3}
        elif r < 0.5:
            ser = {"mode": rng.choice(["str", "repr", "int", "json", "len"])}
        add(logger=rng.choice(["default", "default", "private", "private", "memory"]), dests=dests, value=rng.choice(list(VALUES)),
            extractors=ex, ser=ser, globals=rng.random() < 0.2, prog=rprog(3, 3))
    return out



def outside_handler_probes():
    """traceback-writing entry points called while NO exception is being handled (a callback, a `finally` after normal completion, a
    logging.exception() call outside `except`): documented use is inside an except block, but the calls are public logging calls and
    must not raise into the application (found missing by seeded change C07-4)"""
    out, n = [], 0
    def attempt(api, f):
        nonlocal n
        n += 1
        got = []
        try:
            f(got)
        except BaseException as e:  # noqa
            out.append({"signature": {"clause": "api_raised", "api": api, "raised": type(e).__name__, "where": "outside any except block"},
                        "scenario": {"probe": "outside_handler", "api": api}, "observed": [repr(e)[:200]]})
    def with_private(call):
        def run(got):
            lg = Logger()
            saved = Logger._destinations
            Logger._destinations = d = Destinations()
            try:
                d.add(got.append)
                call(lg)
            finally:
                Logger._destinations = saved
        return run
    attempt("write_traceback()", with_private(lambda lg: write_traceback()))
    attempt("write_traceback(logger)", with_private(lambda lg: write_traceback(lg)))
    attempt("writeTraceback(logger)", with_private(lambda lg: writeTraceback(lg)))
    def std(kind):
        def call(lg):
            slog = logging.Logger("c07.outside.%s" % kind)
            slog.addHandler(EliotHandler())
            if kind == "exception":
                slog.exception("no exception here")
            else:
                slog.error("no exception here", exc_info=True)
        return call
    attempt("stdlib logger.exception()", with_private(std("exception")))
    attempt("stdlib logger.error(exc_info=True)", with_private(std("error")))
    def in_finally(lg):
        try:
            pass
        finally:
            write_traceback(lg)
    attempt("write_traceback(logger) in finally after normal completion", with_private(in_finally))
    return n, out

def main():
    bound_q = ("programs of <= 3 nested levels / <= 3 ops per level over 15 action styles, 8 message APIs, 4 traceback APIs, stdlib-logging handler; 6 probes of traceback APIs outside any except block; "
               "%d field-value kinds; %d Exception kinds + %d BaseException kinds; <= 4 destinations each failing on all calls / a set of message kinds / "
               "a periodic index mask (period <= 5) / after-before k; all 1- and 2-extractor registrations over 4 classes x 7 behaviours plus random <= 3 over %d classes; "
               "serializer failure masks of period 4; loggers default/private/memory; tier=%s seed=%d") % (
        len(VALUES), len(FAULT_KINDS), len(BASE_KINDS), len(CLS), args.tier, args.seed)
    rule = ("blocks A-E are small-scope exhaustive cross products (value x site x destination digesting it; destination fault pattern x exception kind x position; "
            "extractor registration pairs; serializer fault masks; application exception x scoping API x nesting), block F is seeded-random over all dimensions at once; "
            "a scenario is distinct by its JSON and non-trivial if it has a hostile value, a failing destination/serializer/extractor, a failing action or a traceback")
    fails, known, cases, seen = [], [], 0, set()
    if args.scenario:
        scs = [json.loads(args.scenario)]
    else:
        scs = enumerate_scenarios(args.tier, args.seed)
    budget = 24 if args.tier == "quick" else 780
    failing = 0
    sigs = set()
    ksigs = set()
    kcount = collections.Counter()
    truncated = 0
    gd = Logger._destinations
    saved_default = (list(getattr(gd, "_destinations", [])), getattr(gd, "_any_added", None), dict(getattr(gd, "_globalFields", {})))
    if not args.scenario:
        pn, pf = outside_handler_probes()
        cases += pn
        for f in pf:
            failing += 1
            if len(fails) < 5:
                fails.append(f)
    for idx, sc in enumerate(scs):
        if not args.scenario and time.time() - T0 > budget and not sc.get("corner"):
            truncated = len(scs) - idx
            break
        sc = dict((k, v) for k, v in sc.items() if v not in (None, False, []) or k == "prog")
        cases += 1
        if nontrivial(sc):
            seen.add(scenario_key(sc))
        rest, kn = run_scenario(sc)
        if kn:
            sig = {"known": kn[0]["known"], "clause": kn[0]["clause"], "where": kn[0].get("where")}
            key = json.dumps(sig, sort_keys=True)
            kcount[key] += 1
            if key not in ksigs:
                ksigs.add(key)
                known.append({"signature": sig, "scenario": sc, "observed": [json.dumps(v, sort_keys=True) for v in kn[:3]]})
        if rest:
            failing += 1
            if failing >= 40 and not args.scenario:
                truncated = len(scs) - idx - 1  # the tree is plainly broken: no point in grinding through the rest
            v = rest[0]
            sig = {"clause": v["clause"], "api": v["api"]}
            for k in ("raised", "where"):
                if k in v:
                    sig[k] = v[k]
            if sc.get("corner"):
                sig["corner"] = sc["corner"]
            key = json.dumps(sig, sort_keys=True)
            if key not in sigs:
                sigs.add(key)
                fails.append({"signature": sig, "scenario": sc, "observed": [json.dumps(x, sort_keys=True) for x in rest[:3]]})
            if len(fails) >= 5 or failing >= 40:
                break
    try:  # put the process-wide default destinations back exactly as they were found
        gd._destinations[:] = saved_default[0]
        if saved_default[1] is not None:
            gd._any_added = saved_default[1]
        gd._globalFields.clear()
        gd._globalFields.update(saved_default[2])
    except BaseException:
        pass
    for k in known:
        k["observed"].append("scenarios showing this known signature in this run: %d" % kcount[json.dumps(k["signature"], sort_keys=True)])
    if truncated:
        sys.stderr.write("c07: time budget reached, %d scenarios not run\n" % truncated)
        bound_q += "; time budget cut the last %d scenarios" % truncated
    sys.stderr.write("c07: %d cases, %d distinct, %d failing signatures, %d known, %.1fs\n" % (cases, len(seen), len(fails), len(known), time.time() - T0))
    emit(cases, len(seen), fails, known, bound_q, rule)


main()
