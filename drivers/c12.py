"""Native driver for C12 (bounded; real code): start-up buffering, (un)registration, global fields, hand-over.

Two scenario families, both run against the real eliot code found on PYTHONPATH:

  seq   sequential histories over {log, bulk log, add_destinations(k dests), to_file, remove_destination,
        add_global_fields} on (a) the real global Destinations through the public eliot API (the global
        instance is put back into its pristine "still buffering" state before each scenario and restored
        at the end) and (b) a fresh Destinations()/Logger pair.  Oracle: an independent abstract model
        (registered list, last-1000 buffer, globals) predicting the exact global sequence of
        (destination, message) deliveries and the exact content of every delivered message.
  conc  a logging thread x the thread doing the first add_destinations, serialised by a sys.settrace
        line scheduler (every source line of eliot/_output.py is a yield point; a plan says which thread
        executes how many lines; no sleeps).  Oracle: exactly-once, nothing lost, real-time order
        (x finished before y started => every destination sees x before y), global fields, no exception.

Prints one JSON line: {cases, distinct, failures, known, bound, rule}.

KNOWN_ON_UNCHANGED_TREE  (genuine violations of C12 on the unchanged tree; detected, reported under
"known", excluded from "failures"; all are the same defect: Destinations.add/send hand-over is unsynchronised)
  {"kind": "handover-race", "effect": "inflight-lost", "how": "stale-buffer"}
      logging thread parked in Destinations.send after fetching the BufferingDestination (for-loop fetch
      done, dest(message) / messages.append not yet executed); the other thread runs the first
      add_destinations to completion; the logging thread then stores its message in the detached buffer:
      the message is never delivered.   e.g. {"family":"conc","k":2,"ndest":1,"during":1,"regf":true,
      "plan":[["S",10],["A",-1],["S",-1]]}
  {"kind": "handover-race", "effect": "inflight-lost", "how": "empty-window"}
      adder parked between `self._destinations = []` and `.extend(destinations)`; the logging thread's
      send iterates the empty list: message delivered to nobody.
  {"kind": "handover-race", "effect": "inflight-overtakes-buffered"}
      adder parked after `.extend(destinations)` but before/inside the re-delivery loop; a message logged
      meanwhile goes straight to the new destinations, i.e. ahead of older, still buffered messages.
  {"kind": "handover-race", "effect": "full-buffer-shift"}
      buffer holds 1000 messages; logging thread appends (and pops index 0) while the re-delivery loop is
      iterating the same list: the iterator skips one buffered, not yet delivered message.
Sequential histories have no known exceptions: every deviation there is a failure.
"""
import argparse, itertools, json, linecache, random, sys, tempfile, threading, time

ap = argparse.ArgumentParser(); ap.add_argument("--tier", default="quick"); ap.add_argument("--seed", type=int, default=0)
ap.add_argument("--scenario"); args = ap.parse_args()
T0 = time.time()
DEADLINE = T0 + (30 if args.tier == "quick" else 780)

import eliot
sys.setswitchinterval(1e-5)
from eliot import log_message, add_destinations, remove_destination, add_global_fields, to_file
import eliot._output as _output
from eliot._output import Destinations, Logger

OUTFILE = _output.__file__
if OUTFILE.endswith(".pyc"): OUTFILE = OUTFILE[:-1]
G = Logger._destinations
_SAVED_G = dict(G.__dict__)
STD_KEYS = ("timestamp", "task_uuid", "task_level")
LIMIT = 1000

def reset_global():
    """Put the real global Destinations instance back into the state of a fresh process."""
    fresh = Destinations()
    G.__dict__.clear(); G.__dict__.update(fresh.__dict__)

def restore_global():
    G.__dict__.clear(); G.__dict__.update(_SAVED_G)

_tick = itertools.count(1)
def tick(): return next(_tick)

# ------------------------------------------------------------------------------------------------
# family "seq"
# ------------------------------------------------------------------------------------------------
class Rec(object):
    def __init__(self, ident, events): self.ident = ident; self.events = events
    def __call__(self, message): self.events.append((self.ident, dict(message)))
    def __repr__(self): return "<dest %s>" % (self.ident,)

class Model(object):
    """Abstract view of a Destinations object."""
    def __init__(self):
        self.registered = []; self.buffered = []; self.any_added = False; self.globals = {}; self.events = []
    def log(self, fields):
        m = dict(fields); m.update(self.globals)
        if not self.any_added:
            self.buffered.append(dict(fields)); self.buffered = self.buffered[-LIMIT:]
        else:
            for d in self.registered: self.events.append((d, m))
    def add(self, ids):
        if not self.any_added:
            self.any_added = True; self.registered = list(ids)
            for fields in self.buffered:
                m = dict(fields); m.update(self.globals)     # all global fields set before *delivery*
                for d in self.registered: self.events.append((d, dict(m)))
            self.buffered = []
        else:
            self.registered.extend(ids)
    def remove(self, d):
        if d in self.registered: self.registered.remove(d); return True
        return False

def strip(m, api):
    if api == "global": return {k: v for k, v in m.items() if k not in STD_KEYS}
    return m

def run_seq(sc):
    api = sc["api"]; ops = sc["ops"]
    problems = []; events = []; recs = {}; files = {}
    model = Model(); counter = [0]; gver = [0]
    if api == "global":
        reset_global(); D = G
        do_add, do_rm, do_gf = add_destinations, remove_destination, add_global_fields
    else:
        D = Destinations(); lg = Logger(); lg._destinations = D
        do_add, do_rm, do_gf = D.add, D.remove, D.addGlobalFields
    def rec(i):
        if i not in recs: recs[i] = Rec(i, events)
        return recs[i]
    def one_log(own):
        n = counter[0]; counter[0] += 1
        fields = {"n": n}
        if own: fields["g"] = "own%d" % n                      # collides with global field "g"
        if api == "global":
            fields["message_type"] = "t"
            log_message("t", **{k: v for k, v in fields.items() if k != "message_type"})
        else:
            given = dict(fields)
            if n % 2 == 0:
                lg.write(given)
                if given != fields: problems.append(("content", "Logger.write mutated the caller's dict for n=%d" % n))
            else:
                D.send(given, lg)
        model.log(fields)
    try:
        for op in ops:
            kind = op[0]
            try:
                if kind == "log": one_log(False)
                elif kind == "logc": one_log(True)
                elif kind == "logn":
                    for _ in range(op[1]): one_log(False)
                elif kind == "add":
                    ids = [i for i in op[1] if i not in model.registered]
                    ids = [i for j, i in enumerate(ids) if i not in ids[:j]]
                    do_add(*[rec(i) for i in ids]); model.add(ids)
                elif kind == "tofile":
                    ident = "f%d" % len(files)
                    f = tempfile.TemporaryFile(mode="w+"); files[ident] = f
                    if api == "global": to_file(f)
                    else: do_add(_output.FileDestination(file=f))
                    model.add([ident])
                elif kind == "rm":
                    expect_ok = model.remove(op[1])
                    try:
                        do_rm(rec(op[1]))
                        if not expect_ok: problems.append(("exception", "remove_destination of an unregistered destination did not raise ValueError"))
                    except ValueError:
                        if expect_ok: problems.append(("exception", "remove_destination of registered destination %r raised ValueError" % (op[1],)))
                elif kind == "gf":
                    gver[0] += 1; kw = {op[1]: gver[0]}
                    do_gf(**kw); model.globals.update(kw)
                else:
                    raise RuntimeError("bad op %r" % (op,))
            except Exception as e:
                problems.append(("exception", "%r raised %s: %s" % (op, type(e).__name__, e)))
        # ---- compare -------------------------------------------------------------------------
        if api == "global":
            for d, m in events:
                miss = [k for k in STD_KEYS if k not in m]
                if miss: problems.append(("content", "delivered message n=%r lacks %r" % (m.get("n"), miss))); break
        actual = [(d, strip(m, api)) for d, m in events]
        per_dest_actual = {}; per_dest_model = {}
        for d, m in actual: per_dest_actual.setdefault(d, []).append(m)
        for ident, f in files.items():
            f.seek(0); lines = [json.loads(l) for l in f.read().splitlines() if l.strip()]
            per_dest_actual[ident] = [strip(m, api) for m in lines]
        for d, m in model.events: per_dest_model.setdefault(d, []).append(m)
        for d in sorted(set(per_dest_actual) | set(per_dest_model), key=str):
            a = per_dest_actual.get(d, []); e = per_dest_model.get(d, [])
            if a == e: continue
            an = [m.get("n") for m in a]; en = [m.get("n") for m in e]
            if an == en:
                i = next(i for i in range(len(a)) if a[i] != e[i])
                gl = set(model.globals) & (set(a[i]) ^ set(e[i]) | {k for k in a[i] if k in e[i] and a[i][k] != e[i][k]})
                problems.append(("global-fields" if gl else "content",
                                 "dest %s message n=%r delivered as %r, expected %r" % (d, an[i], a[i], e[i])))
            elif len(set(an)) != len(an):
                dup = sorted(set(x for x in an if an.count(x) > 1))[:3]
                problems.append(("duplicate", "dest %s received n=%r more than once (got %d messages, expected %d)" % (d, dup, len(an), len(en))))
            elif set(en) - set(an):
                lost = sorted(set(en) - set(an))
                problems.append(("lost", "dest %s never received n=%r%s (got %d of %d)" % (d, lost[:4], "..." if len(lost) > 4 else "", len(an), len(en))))
            elif set(an) - set(en):
                extra = sorted(set(an) - set(en))
                problems.append(("unexpected-delivery", "dest %s received n=%r%s it should not have (unregistered/removed/not yet registered/evicted)" % (d, extra[:4], "..." if len(extra) > 4 else "")))
            else:
                i = next(i for i in range(len(an)) if an[i] != en[i])
                problems.append(("order", "dest %s order differs at position %d: got n=%r expected n=%r" % (d, i, an[i:i + 4], en[i:i + 4])))
        if not problems:
            ga = [(d, m.get("n")) for d, m in actual]; ge = [(d, m.get("n")) for d, m in model.events if d not in files]
            if ga != ge:
                i = next((i for i in range(min(len(ga), len(ge))) if ga[i] != ge[i]), min(len(ga), len(ge)))
                problems.append(("order", "global delivery order differs at %d: got %r expected %r" % (i, ga[i:i + 3], ge[i:i + 3])))
    finally:
        for f in files.values():
            try: f.close()
            except Exception: pass
        if api == "global": reset_global()
    return [({"kind": "sequential", "clause": c}, t) for c, t in problems]

SEQ_ALPHABET = [["log"], ["logc"], ["add", [0]], ["add", [1, 2]], ["add", []], ["rm", 0], ["rm", 1], ["gf", "g"], ["gf", "h"]]

def seq_nontrivial(ops):
    kinds = [o[0] for o in ops]
    return any(k.startswith("log") for k in kinds) and any(k in ("add", "tofile") for k in kinds)

def gen_seq(tier, seed):
    out = []
    maxlen = 5 if tier == "quick" else 6
    idx = 0
    for L in range(1, maxlen + 1):
        for combo in itertools.product(SEQ_ALPHABET, repeat=L):
            out.append({"family": "seq", "api": "global" if idx % 2 else "fresh", "ops": [list(o) for o in combo]}); idx += 1
    # fixed boundary histories around the 1000 limit
    for N in (998, 999, 1000, 1001, 1002, 1003, 2000, 2001):
        for api in ("fresh", "global"):
            out.append({"family": "seq", "api": api, "ops": [["gf", "g"], ["logn", N], ["gf", "g"], ["gf", "h"], ["add", [0, 1]], ["log"], ["add", [2]], ["logc"], ["rm", 0], ["log"], ["rm", 0], ["add", [0]], ["log"]]})
            out.append({"family": "seq", "api": api, "ops": [["logn", N - 3], ["gf", "g"], ["logc"], ["log"], ["log"], ["gf", "g"], ["tofile"], ["log"], ["add", [3]], ["gf", "h"], ["log"]]})
            out.append({"family": "seq", "api": api, "ops": [["rm", 0], ["logn", N], ["add", []], ["log"], ["add", [0]], ["log"]]})
    rnd = random.Random(seed * 7919 + 12)
    nrand = 250 if tier == "quick" else 6000
    for i in range(nrand):
        L = rnd.randint(5, 14); ops = []
        for _ in range(L):
            r = rnd.random()
            if r < 0.30: ops.append(["log"])
            elif r < 0.38: ops.append(["logc"])
            elif r < 0.46: ops.append(["logn", rnd.choice([2, 3, 5, 997, 998, 999, 1000, 1001, 1002, 1500, 2003]) if rnd.random() < 0.5 else rnd.randint(2, 6)])
            elif r < 0.64: ops.append(["add", rnd.sample([0, 1, 2, 3], rnd.choice([0, 1, 1, 2, 2, 3]))])
            elif r < 0.68: ops.append(["tofile"])
            elif r < 0.82: ops.append(["rm", rnd.randint(0, 3)])
            else: ops.append(["gf", rnd.choice(["g", "g", "h", "k"])])
        out.append({"family": "seq", "api": rnd.choice(["global", "fresh"]), "ops": ops})
    return out

# ------------------------------------------------------------------------------------------------
# family "conc": deterministic line scheduler
# ------------------------------------------------------------------------------------------------
STEP_TIMEOUT = 3.0     # only ever expires if the library under test blocks on a lock held by the parked thread

class Actor(object):
    """A real thread that executes `budget` traced source lines of eliot/_output.py at a time and then parks
    until the controller hands it a new budget (so exactly one of the threads runs at any moment)."""
    def __init__(self, tid, fn, world):
        self.tid = tid; self.fn = fn; self.world = world
        # plain locks used as binary semaphores (released by a different thread than the one acquiring)
        self.go = threading.Lock(); self.go.acquire(); self.back = threading.Lock(); self.back.acquire()
        self.done = False; self.blocked = False; self.parks = []; self.fors = []
        self.budget = 0; self.steps = 0
        self.thread = threading.Thread(target=self.run, daemon=True)
    def run(self):
        self.go.acquire()
        self.steps += 1
        if self.budget > 0: self.budget -= 1
        sys.settrace(self.trace)
        try:
            self.fn()
        except BaseException as e:
            self.world["errors"].append("%s thread: %s: %s" % (self.tid, type(e).__name__, e))
        finally:
            sys.settrace(None); self.done = True; self.back.release()
    def trace(self, frame, event, arg):
        if frame.f_code.co_filename != OUTFILE: return None
        return self.local
    def local(self, frame, event, arg):
        if event == "line":
            if self.budget == 0: self.park(frame)
            if self.budget > 0: self.budget -= 1
            self.steps += 1
            if self.tid == "S" and frame.f_lineno in FOR_LINES and frame.f_code.co_name == "send":
                # about to execute `for dest in self._destinations:`; is it the empty list left by add()?
                m = frame.f_locals.get("message")
                self.fors.append((m.get("n") if isinstance(m, dict) else None, self.world["window"]()))
        return self.local
    def park(self, frame):
        info = self.world["probe"](frame) if self.tid == "S" else {}
        info["t_park"] = tick()
        self.parks.append(info)
        self.back.release()
        self.go.acquire()
        info["t_resume"] = tick()

def _for_lines():
    out = set()
    try:
        for i, line in enumerate(open(OUTFILE).read().splitlines(), 1):
            t = line.strip()
            if t.startswith("for ") and "_destinations" in t: out.add(i)
    except Exception:
        pass
    return out
FOR_LINES = _for_lines()

def advance(actor, n, timeout=STEP_TIMEOUT):
    """Let `actor` execute n yield points (n < 0: run to completion).  Returns the number executed."""
    if actor.done: return 0
    s0 = actor.steps
    if not actor.blocked:
        actor.budget = n; actor.go.release()
    if actor.back.acquire(timeout=timeout): actor.blocked = False
    else: actor.blocked = True      # waiting on something the other thread holds (e.g. a lock added to the library)
    return actor.steps - s0

def run_conc(sc):
    k = sc["k"]; ndest = sc["ndest"]; during = sc["during"]; regf = sc.get("regf", True); plan = sc["plan"]
    reset_global()
    buf0 = G._destinations[0] if getattr(G, "_destinations", None) else None
    world = {"errors": []}
    deliveries = {i: [] for i in range(ndest)}
    msgs = {}          # n -> dict(start, end, who)
    nctr = itertools.count()
    class CDest(object):
        def __init__(self, i): self.i = i
        def __call__(self, m): deliveries[self.i].append((tick(), m.get("n"), dict(m)))
    dests = [CDest(i) for i in range(ndest)]
    def log(who):
        n = next(nctr); r = msgs[n] = {"who": who, "start": tick(), "end": None, "exc": None}
        try: log_message("t", n=n, who=who)
        except BaseException as e: r["exc"] = "%s: %s" % (type(e).__name__, e)
        r["end"] = tick()
        return n
    def buf_tail():
        try: return list(buf0.messages)[-3:]
        except Exception: return []
    def window():
        try: return bool(G._any_added) and len(G._destinations) == 0
        except Exception: return False
    def probe(frame):
        info = {"stale": False, "n": None, "isfor": False, "window": window()}
        try:
            f = frame
            while f is not None and not (f.f_code.co_filename == OUTFILE and f.f_code.co_name == "send"): f = f.f_back
            if f is not None:
                loc = f.f_locals; msg = loc.get("message")
                if isinstance(msg, dict): info["n"] = msg.get("n")
                if buf0 is not None and loc.get("dest", None) is buf0:
                    info["inbuf"] = True                     # somewhere between fetching the buffer and returning from it
                    if not any(x is msg for x in buf_tail()): info["stale"] = True    # ... and not stored yet
                if f is frame:
                    text = linecache.getline(OUTFILE, frame.f_lineno).strip()
                    info["isfor"] = text.startswith("for ") and "_destinations" in text
        except Exception:
            pass
        return info
    world["probe"] = probe; world["window"] = window
    addrec = {"start": None, "end": None, "exc": None}
    expected_g = {}
    try:
        if regf: add_global_fields(g=1); expected_g["g"] = 1
        for _ in range(k): log("C")
        if regf: add_global_fields(g=2, h=7); expected_g.update(g=2, h=7)
        def sender():
            for _ in range(during): log("S")
        def adder():
            addrec["start"] = tick()
            try: add_destinations(*dests)
            except BaseException as e: addrec["exc"] = "%s: %s" % (type(e).__name__, e)
            addrec["end"] = tick()
            log("A")
        actors = {"S": Actor("S", sender, world), "A": Actor("A", adder, world)}
        for a in actors.values(): a.thread.start()
        executed = []
        for tid, cnt in plan:
            n = advance(actors[tid], cnt)
            if n: executed.append([tid, n])
        for _round in range(3):
            for tid in ("S", "A"):
                if not actors[tid].done:
                    n = advance(actors[tid], -1, 10.0)
                    if n: executed.append([tid, n])
        for a in actors.values(): a.thread.join(10)
        hung = [a.tid for a in actors.values() if not a.done]
        log("C")     # final message after everything
    finally:
        for d in dests:
            try: remove_destination(d)
            except Exception: pass
        final_buf = []
        try: final_buf = [m.get("n") for m in list(buf0.messages)]
        except Exception: pass
        reset_global()
    # ---- oracle --------------------------------------------------------------------------------
    anomalies = []     # (signature, text)
    def bad(sig, text): anomalies.append((sig, text))
    if hung: bad({"kind": "concurrent", "effect": "deadlock"}, "threads never finished: %r" % (hung,))
    for e in world["errors"]: bad({"kind": "concurrent", "effect": "exception"}, e)
    if addrec["exc"]: bad({"kind": "concurrent", "effect": "add-raised"}, "first add_destinations raised " + addrec["exc"])
    for n, r in msgs.items():
        if r["exc"]: bad({"kind": "concurrent", "effect": "log-raised"}, "log of n=%d raised %s" % (n, r["exc"]))
    a_start, a_end = addrec["start"], addrec["end"]
    if a_start is None or a_end is None:
        return anomalies, executed
    before = [n for n, r in sorted(msgs.items()) if r["end"] is not None and r["end"] < a_start]
    inflight = [n for n, r in sorted(msgs.items()) if not (r["end"] < a_start) and not (r["start"] > a_end)]
    sparks = actors["S"].parks
    total = len(before) + len(inflight)
    evictable = set(before[-LIMIT:][:max(0, len(before[-LIMIT:]) + len(inflight) - LIMIT)]) | set(before[:-LIMIT] if len(before) > LIMIT else [])
    for i in range(ndest):
        got = deliveries[i]; ns = [n for _, n, _ in got]
        pos = {}
        for p, n in enumerate(ns):
            if n in pos: bad({"kind": "concurrent", "effect": "duplicate"}, "dest %d received n=%r twice" % (i, n)); break
            pos[n] = p
        for n in sorted(msgs):
            if n in pos: continue
            if n in evictable and len(before) + len(inflight) > LIMIT: continue
            if n in inflight:
                r = msgs[n]
                held = [p for p in sparks if p.get("stale") and p.get("n") == n]
                stale = any(p["t_park"] < a_end < p.get("t_resume", 0) for p in held)
                empty = any(fn == n and w for fn, w in actors["S"].fors)
                if stale and n in final_buf and not addrec["exc"]:
                    bad({"kind": "handover-race", "effect": "inflight-lost", "how": "stale-buffer"},
                        "dest %d never received n=%d: logging thread held the buffering destination while add_destinations ran to completion; message ended in the detached buffer" % (i, n))
                elif (n in final_buf and len(before) >= LIMIT and not addrec["exc"]
                      and any(p.get("inbuf") and p.get("n") == n and p["t_park"] < a_end and p.get("t_resume", 0) > a_start for p in sparks)):
                    bad({"kind": "handover-race", "effect": "full-buffer-shift"},
                        "dest %d never received n=%d: appended to the full buffer (index 0 popped) under the re-delivery iterator, which then stopped one short" % (i, n))
                elif empty and n not in final_buf and not addrec["exc"]:
                    bad({"kind": "handover-race", "effect": "inflight-lost", "how": "empty-window"},
                        "dest %d never received n=%d: send() iterated _destinations while it was the empty list set by add()" % (i, n))
                else:
                    bad({"kind": "concurrent", "effect": "inflight-lost"},
                        "dest %d never received n=%d (logged by %s during the first add_destinations; in detached buffer: %s)" % (i, n, r["who"], n in final_buf))
            elif n in before:
                shifted = (len(before) >= LIMIT and any(m in final_buf for m in inflight) and not addrec["exc"]
                           and sum(1 for m in before[-LIMIT:] if m not in pos) <= len(inflight))
                if shifted:
                    bad({"kind": "handover-race", "effect": "full-buffer-shift"},
                        "dest %d never received buffered n=%d: full buffer popped index 0 under the re-delivery iterator" % (i, n))
                else:
                    bad({"kind": "concurrent", "effect": "buffered-lost"}, "dest %d never received buffered n=%d (logged before add_destinations started)" % (i, n))
            else:
                bad({"kind": "concurrent", "effect": "later-lost"}, "dest %d never received n=%d logged after add_destinations returned" % (i, n))
        for n in ns:
            if n in before[:-LIMIT] and len(before) > LIMIT:
                bad({"kind": "concurrent", "effect": "evicted-delivered"}, "dest %d received n=%d which is older than the most recent 1000" % (i, n)); break
        # real-time order
        reported = False
        for x in sorted(pos):
            for y in sorted(pos):
                if x == y or reported: continue
                if msgs[x]["end"] < msgs[y]["start"] and pos[x] > pos[y]:
                    if x in final_buf and y in inflight and not addrec["exc"]:
                        bad({"kind": "handover-race", "effect": "inflight-overtakes-buffered"},
                            "dest %d saw n=%d (logged during add_destinations) before older buffered n=%d" % (i, y, x))
                    else:
                        bad({"kind": "concurrent", "effect": "order"}, "dest %d saw n=%d before n=%d although n=%d was completely logged first" % (i, y, x, x))
                    reported = True
        # content: all global fields set before delivery
        for _, n, m in got:
            wrong = {kk: m.get(kk) for kk, vv in expected_g.items() if m.get(kk) != vv}
            if wrong or m.get("who") != msgs[n]["who"] or any(s not in m for s in STD_KEYS):
                bad({"kind": "concurrent", "effect": "global-fields"}, "dest %d message n=%d delivered as %r; expected global fields %r" % (i, n, {q: m[q] for q in m if q not in STD_KEYS}, expected_g)); break
    return anomalies, executed

def measure(cfg):
    """Count line steps of each thread when run alone first (on the tree under test)."""
    _, ex1 = run_conc(dict(cfg, plan=[["S", -1], ["A", -1]]))
    _, ex2 = run_conc(dict(cfg, plan=[["A", -1], ["S", -1]]))
    cnt = lambda ex, t: sum(n for tid, n in ex if tid == t)
    return max(cnt(ex1, "S"), cnt(ex2, "S")), max(cnt(ex1, "A"), cnt(ex2, "A"))

def gen_conc(tier, seed):
    """Yield scenarios lazily (plans depend on measured step counts)."""
    rnd = random.Random(seed * 104729 + 5)
    cfgs = []
    for k in ((0, 1, 2) if tier == "quick" else (0, 1, 2, 3)):
        for ndest in (1, 2):
            for during in (1, 2):
                if tier == "quick" and ndest == 2 and during == 2 and k == 1: continue
                cfgs.append({"family": "conc", "k": k, "ndest": ndest, "during": during, "regf": True})
    # full buffer (1000 / 1001 buffered) with a few sampled switch points
    for k in (LIMIT, LIMIT + 1):
        cfg = {"family": "conc", "k": k, "ndest": 1, "during": 1, "regf": False}
        ns, na = measure(cfg)
        per = max(1, (na - 8) // LIMIT)
        bs = [0, 6, 8 + 2 * per, na // 2, na - 3 * per - 1, na - 2 * per, na - per - 1, na]
        if tier == "quick": bs = [6, 8 + 2 * per, na // 2, na - 2 * per, na - per - 1, na]
        for _ in range(0 if tier == "quick" else 60): bs.append(rnd.randint(1, na))
        as_ = [ns - 7, ns - 6, ns - 5] if tier == "quick" else list(range(max(0, ns - 10), ns + 1))
        for b in bs:
            for a in as_:
                if a < 0 or b < 0: continue
                yield dict(cfg, plan=[["S", a], ["A", b], ["S", -1], ["A", -1]])
    for cfg in cfgs:
        ns, na = measure(cfg)
        plans = []
        for a in range(0, ns + 1):
            for b in range(0, na + 1):
                plans.append([["S", a], ["A", b], ["S", -1], ["A", -1]])
                if a and b: plans.append([["A", b], ["S", a], ["A", -1], ["S", -1]])
        cap = 200 if tier == "quick" else 100000
        if len(plans) > cap:
            rnd.shuffle(plans); plans = plans[:cap]
        n3 = 30 if tier == "quick" else 1500
        for _ in range(n3):
            a = rnd.randint(1, ns); b = rnd.randint(1, na); c = rnd.randint(1, ns); d = rnd.randint(1, na)
            first = rnd.choice(["S", "A"])
            if first == "S": plans.append([["S", a], ["A", b], ["S", c], ["A", d], ["S", -1], ["A", -1]])
            else: plans.append([["A", b], ["S", a], ["A", d], ["S", c], ["A", -1], ["S", -1]])
        for p in plans:
            yield dict(cfg, plan=p)

# ------------------------------------------------------------------------------------------------
KNOWN_SIGS = [
    {"kind": "handover-race", "effect": "inflight-lost", "how": "stale-buffer"},
    {"kind": "handover-race", "effect": "inflight-lost", "how": "empty-window"},
    {"kind": "handover-race", "effect": "inflight-overtakes-buffered"},
    {"kind": "handover-race", "effect": "full-buffer-shift"},
]


def run_reentrant(sc):
    """a destination removed *from inside a delivery* (another destination calls remove while it is being offered a message) receives
    nothing further -- not even the message being delivered (found missing by seeded change C12-4). Only removal of a destination that is
    later in the list is probed: a destination removing itself / an earlier one shifts the live list, which is outside the statement."""
    D = Destinations()
    got_d, events = [], []
    def d(m): got_d.append((tick(), m.get("n")))
    removed_at = []
    def a(m):
        if m.get("n") == sc["remove_on"] and not removed_at:
            D.remove(d); removed_at.append(tick())
    for i in range(sc["buffered"]): D.send({"n": "b%d" % i})
    D.add(a, d)
    for i in range(sc["later"]): D.send({"n": "m%d" % i})
    out = []
    if not removed_at:
        return out
    late = [n for (t, n) in got_d if t > removed_at[0]]
    if late:
        out.append(({"clause": "removed-destination-receives-nothing-further", "family": "reentrant"},
                    "destination removed during the delivery of %r still received %r" % (sc["remove_on"], late)))
    return out

def gen_reentrant():
    yield {"family": "reentrant", "buffered": 0, "later": 3, "remove_on": "m0"}
    yield {"family": "reentrant", "buffered": 0, "later": 3, "remove_on": "m1"}
    yield {"family": "reentrant", "buffered": 2, "later": 2, "remove_on": "b0"}
    yield {"family": "reentrant", "buffered": 3, "later": 1, "remove_on": "b2"}

def main():
    fails = []; known = []; known_count = {}; cases = 0; seen = set(); fail_sigs = set()
    truncated = False
    def handle(sc, results):
        by_sig = {}
        for sig, text in results: by_sig.setdefault(json.dumps(sig, sort_keys=True), (sig, []))[1].append(text)
        for key, (sig, texts) in by_sig.items():
            entry = {"signature": sig, "scenario": sc, "observed": texts[:3]}
            if sig in KNOWN_SIGS:
                known_count[key] = known_count.get(key, 0) + 1
                if not any(kn["signature"] == sig for kn in known): known.append(entry)
            else:
                if len(fails) < 5 and (key not in fail_sigs or len(fails) < 3): fails.append(entry)
                fail_sigs.add(key)
    try:
        if args.scenario:
            sc = json.loads(args.scenario); cases = 1; seen.add(json.dumps(sc, sort_keys=True))
            if sc.get("family") == "seq": handle(sc, run_seq(sc))
            elif sc.get("family") == "reentrant": handle(sc, run_reentrant(sc))
            else: handle(sc, run_conc(sc)[0])
        else:
            for sc in gen_reentrant():
                cases += 1; seen.add(json.dumps(sc, sort_keys=True))
                handle(sc, run_reentrant(sc))
            seq_budget = T0 + (14 if args.tier == "quick" else 400)
            for sc in gen_seq(args.tier, args.seed):
                if time.time() > seq_budget: truncated = True; break
                cases += 1
                if seq_nontrivial(sc["ops"]): seen.add(json.dumps(sc, sort_keys=True))
                handle(sc, run_seq(sc))
            for sc in gen_conc(args.tier, args.seed):
                if time.time() > DEADLINE: truncated = True; break
                cases += 1
                res, executed = run_conc(sc)
                cfgkey = (sc["k"], sc["ndest"], sc["during"])
                if len(executed) >= 3:          # at least one thread was preempted mid-call
                    seen.add(json.dumps([cfgkey, executed]))
                handle(sc, res)
    finally:
        restore_global()
    if truncated: print("c12: time budget reached, enumeration truncated", file=sys.stderr)
    print("c12: known occurrences %r; %.1fs" % (known_count, time.time() - T0), file=sys.stderr)
    print(json.dumps({
        "cases": cases, "distinct": len(seen), "failures": fails[:5], "known": known,
        "bound": ("re-entrant: 4 histories in which one destination removes a later one during a delivery / during the replay of the start-up buffer; sequential: every history of length <= %d over 9 operations (log, log with a field colliding with a global field, add 1 dest, add 2 dests, add 0 dests, remove dest 0/1, set global g/h), fixed histories with 998..1003/2000/2001 buffered messages, %d seeded random histories of length 5..14 (bulk logs up to 2005, to_file, up to 4 destinations), each on the global instance via the public API or a fresh Destinations; "
                  "concurrent: 0..%d buffered messages x 1..2 destinations x 1..2 messages by the logging thread, all line-granular 2-switch schedules (sampled above a cap) plus seeded 4-switch schedules, and sampled schedules with 1000/1001 buffered messages")
                 % ((5, 250, 2) if args.tier == "quick" else (6, 6000, 3)),
        "rule": "seq scenario = (api, operation list); non-trivial/distinct = distinct list containing at least one log and one add/to_file. conc scenario = (k buffered, destinations, messages during, plan of [thread, line steps]); distinct = distinct executed thread-step trace per configuration in which at least one thread was preempted in the middle of its call (pure run-one-then-the-other traces are trivial)",
    }))

main()
