"""Native driver for C04 (bounded; real code): nestings of the three scoping constructs x exit kinds.
Prints one JSON line: {cases, distinct, failures:[{signature, scenario, observed}], rule, bound}."""
import argparse, itertools, json, random, sys

ap = argparse.ArgumentParser(); ap.add_argument("--tier", default="quick"); ap.add_argument("--seed", type=int, default=0)
ap.add_argument("--scenario"); args = ap.parse_args()
from eliot import start_action, start_task, current_action, log_message, add_destinations, remove_destination
from eliot._action import Action

class Boom(BaseException): pass
EXITS = ["return", "exception", "baseexception", "close"]
KINDS = ["with", "context", "run"]

def run_scenario(sc):
    """sc: list of (kind, exit) from outermost to innermost. returns None or a failure description"""
    msgs = []
    add_destinations(msgs.append)
    problems = []
    try:
        def level(i, expected_parent):
            if i == len(sc):
                return
            kind, exit_ = sc[i]
            before = current_action()
            if before is not expected_parent:
                problems.append("level %d: current_action() before entry is %r, expected %r" % (i, before, expected_parent))
            act = start_action(action_type="lvl%d" % i)
            def body():
                if current_action() is not act:
                    problems.append("level %d: inside %s current_action() is not the action" % (i, kind))
                log_message(message_type="in%d" % i)
                level(i + 1, act)
                if current_action() is not act:
                    problems.append("level %d: after inner block current_action() is not restored to the action" % i)
                if exit_ == "exception": raise ValueError("x")
                if exit_ == "baseexception": raise Boom()
            try:
                if kind == "with":
                    if exit_ == "close":
                        def g():
                            with act:
                                body(); yield 1
                        it = g(); next(it); it.close()
                    else:
                        with act: body()
                elif kind == "context":
                    if exit_ == "close":
                        def g():
                            with act.context():
                                body(); yield 1
                        it = g(); next(it); it.close()
                    else:
                        with act.context(): body()
                    act.finish()
                else:
                    act.run(body); act.finish()
            except (ValueError, Boom):
                pass
            after = current_action()
            if after is not before:
                problems.append("level %d (%s/%s): current_action() after exit is %r, before entry it was %r" % (i, kind, exit_, after, before))
        level(0, None)
        # re-entry: context()/run() of the action already current
        with start_action(action_type="re") as a:
            with a.context():
                a.run(lambda: None)
                if current_action() is not a: problems.append("re-entry: run() inside own context changed the current action")
            if current_action() is not a: problems.append("re-entry: leaving own context() lost the current action")
        # re-entering an outer action's context()/run() from inside an inner action
        for inner_kind in KINDS:
            with start_action(action_type="A") as A:
                B = start_action(action_type="B")
                def inner():
                    with A.context():
                        if current_action() is not A: problems.append("A.context() inside B (%s): current action is not A" % inner_kind)
                        n0 = len(msgs); log_message(message_type="x")
                        if msgs[n0]["task_level"][:-1] != A._task_level.as_list(): problems.append("message inside re-entered A.context() not attributed to A")
                    if current_action() is not B: problems.append("leaving re-entered A.context() inside B (%s) did not restore B" % inner_kind)
                    A.run(lambda: problems.append("A.run inside B: current is not A") if current_action() is not A else None)
                    if current_action() is not B: problems.append("A.run() inside B (%s) did not restore B" % inner_kind)
                if inner_kind == "with":
                    with B: inner()
                elif inner_kind == "context":
                    with B.context(): inner()
                    B.finish()
                else:
                    B.run(inner); B.finish()
                if current_action() is not A: problems.append("after B (%s) current action is not A" % inner_kind)
        if current_action() is not None: problems.append("after everything current_action() is not None")
        # start_task always begins a new tree; context-less message forms its own task
        with start_action(action_type="outer") as o:
            t = start_task(action_type="t"); t.finish()
            if t.task_uuid == o.task_uuid: problems.append("start_task inside an action did not start a new tree")
        n = len(msgs); log_message(message_type="lonely")
        m = msgs[n]
        if m["task_level"] != [1]: problems.append("context-less message has task_level %r" % (m["task_level"],))
    finally:
        remove_destination(msgs.append)
    return problems

def main():
    fails = []; cases = 0; seen = set()
    if args.scenario:
        scs = [json.loads(args.scenario)]
    else:
        depth = 3 if args.tier == "quick" else 4
        scs = []
        for d in range(1, depth + 1):
            allc = list(itertools.product(itertools.product(KINDS, EXITS), repeat=d))
            if len(allc) > (400 if args.tier == "quick" else 6000):
                random.Random(args.seed).shuffle(allc); allc = allc[:(400 if args.tier == "quick" else 6000)]
            scs += [list(map(list, c)) for c in allc]
    for sc in scs:
        cases += 1; seen.add(json.dumps(sc))
        p = run_scenario([tuple(x) for x in sc])
        if p:
            fails.append({"signature": {"kind": "scoping"}, "scenario": sc, "observed": p[:3]})
            if len(fails) >= 5: break
    print(json.dumps({"cases": cases, "distinct": len(seen), "failures": fails, "bound": "nesting depth <= %d" % (3 if args.tier == "quick" else 4),
                      "rule": "every sequence (outer..inner) of (construct in with/context/run) x (exit in return/Exception/BaseException/generator close); distinct = distinct sequences; all have depth >= 1"}))
main()
