"""Native driver for C08 (bounded; real code): every destination gets each message once, in order;
faults are isolated and reported exactly once as eliot:destination_failure; reports are never reported.

Prints one JSON line: {cases, distinct, failures:[{signature, scenario, observed}], known:[...], bound, rule}.

KNOWN_ON_UNCHANGED_TREE (genuine violations of the literal property statement on the unchanged tree; they are
still detected on every run but are moved to the "known" key so that "failures" stays empty on /repo):

  K1 signature {"clause": "exactly_once", "cause": "destination_removed_during_delivery"}
     destinations [a, b, c]; a (or b) calls Destinations.remove() on itself or on an earlier-positioned
     destination while it is being handed message m1.  Destinations.send iterates over the live list, so the
     destination that follows the remover in the list is never offered m1 (it stays registered and gets m2).
  K2 signature {"clause": "isolation", "cause": "destination_raises_non_Exception_BaseException"}
     destinations [a, b, c]; b raises a BaseException subclass that is not an Exception subclass.  send() only
     catches Exception: the exception escapes from log_message() to the application, c is never offered the
     message and no eliot:destination_failure is produced.
  K3 signature {"clause": "report_missing", "cause": "exception_class_module_not_str"}
     a destination raises an instance of an Exception subclass whose __module__ is None
     (type("X", (Exception,), {"__module__": None})).  Building the report does None + "." -> TypeError, which
     is swallowed by the bare except in send(): the failure is never reported to anybody.
"""
import argparse, ast, itertools, json, os, random, re, resource, signal, sys, tempfile, threading, warnings

ap = argparse.ArgumentParser(); ap.add_argument("--tier", default="quick"); ap.add_argument("--seed", type=int, default=0)
ap.add_argument("--scenario"); args = ap.parse_args()
warnings.simplefilter("ignore")
try:   # safety net: a broken recursion guard renders reports of reports of reports ... (exponential text)
    resource.setrlimit(resource.RLIMIT_AS, (6 << 30, 6 << 30))
except Exception: pass
from eliot import (log_message, start_action, write_traceback, Message, MessageType, Field,
                   add_destinations, remove_destination)
from eliot._output import Destinations, Logger, FileDestination

DF = "eliot:destination_failure"   # from the property statement, deliberately not imported from eliot
KNOWN_SIGNATURES = [
    {"clause": "exactly_once", "cause": "destination_removed_during_delivery"},
    {"clause": "isolation", "cause": "destination_raises_non_Exception_BaseException"},
    {"clause": "report_missing", "cause": "exception_class_module_not_str"},
]

# ------------------------------------------------------------------ exceptions raised by faulty destinations
class DestBoom(Exception): pass
class Holder:
    class NestedBoom(LookupError): pass
class BadStr(Exception):
    def __str__(self): raise RuntimeError("str() of this exception is broken")
class MultiArg(Exception): pass
class HardStop(BaseException): pass
class HarnessTimeout(BaseException): pass
NoModule = type("NoModule", (Exception,), {"__module__": None})

EXC = {
    "V": ValueError, "K": KeyError, "O": lambda t: OSError(5, t), "S": StopIteration, "A": AssertionError,
    "R": RuntimeError, "C": DestBoom, "U": lambda t: DestBoom("☃ \xe9 " + t), "B": BadStr,
    "N": Holder.NestedBoom, "E": Exception, "M": lambda t: MultiArg(t, 2), "Q": RecursionError, "T": TypeError,
    "I": lambda t: UnicodeDecodeError("utf-8", b"\xff", 0, 1, t), "Y": MemoryError, "Z": lambda t: ValueError(),
}
CODES = "VKOSARCUBNEMQTIYZ"
SAFE_CODES = "VKORCNEMT"          # str() works and contains the token

def make_exc(code, i, k):
    return EXC[code]("boom d%dc%d" % (i, k))
def safe_str(e):
    try: return str(e)
    except Exception: return None           # wildcard: "some text", the statement does not say which
def exc_name(e):
    return "%s.%s" % (type(e).__module__, type(e).__name__)

class BadRepr(object):
    def __repr__(self): raise RuntimeError("repr() broken")

def _bad_field(v): raise RuntimeError("n=%d" % v)
SERFAIL = MessageType("app:ser", [Field("n", lambda v: v), Field("x", _bad_field)])

# kind -> list of (label offset, message is not JSON serializable)
KINDS = {
    "msg": [(0, False)], "write": [(0, False)], "act_ok": [(0, False), (1, False), (2, False)],
    "act_fail": [(0, False), (1, False)], "tb": [(0, False)], "msgobj": [(0, False)],
    "weird": [(0, True)], "weirdmsg": [(0, True)], "serfail": [(0, False), (1, False)],
}
PLAIN_KINDS = ["msg", "write", "act_ok", "act_fail", "tb", "msgobj", "serfail"]
ALL_KINDS = PLAIN_KINDS + ["weird", "weirdmsg"]

def do_log_instance(kind, base, lg):
    """same messages, but through an explicit Logger that has its own Destinations (reports must follow it)"""
    if kind in ("msg", "msgobj"): Message.new(message_type="app:msg", n=base).write(lg)
    elif kind == "write": lg.write({"n": base, "raw": 1})
    elif kind == "act_ok":
        with start_action(lg, "app:act", n=base) as a:
            Message.new(message_type="app:inner", n=base + 1).write(lg)
            a.add_success_fields(n=base + 2)
    elif kind == "act_fail":
        try:
            with start_action(lg, "app:act", n=base): raise RuntimeError("n=%d" % (base + 1))
        except RuntimeError: pass
    elif kind == "tb":
        try: raise ValueError("n=%d" % base)
        except ValueError: write_traceback(lg)
    elif kind == "weird": lg.write({"n": base, "bad": BadRepr(), 7: "seven"})
    elif kind == "weirdmsg": Message.new(message_type="app:weird", n=base, bad=BadRepr()).write(lg)
    elif kind == "serfail": SERFAIL(n=base + 1, x=base).write(lg)
    else: raise ValueError(kind)

def do_log(kind, base, lg=None):
    if lg is not None: return do_log_instance(kind, base, lg)
    if kind == "msg": log_message(message_type="app:msg", n=base)
    elif kind == "write": Logger().write({"n": base, "raw": 1})
    elif kind == "act_ok":
        with start_action(action_type="app:act", n=base) as a:
            log_message(message_type="app:inner", n=base + 1)
            a.add_success_fields(n=base + 2)
    elif kind == "act_fail":
        try:
            with start_action(action_type="app:act", n=base): raise RuntimeError("n=%d" % (base + 1))
        except RuntimeError: pass
    elif kind == "tb":
        try: raise ValueError("n=%d" % base)
        except ValueError: write_traceback()
    elif kind == "msgobj": Message.log(message_type="app:old", n=base)
    elif kind == "weird": Logger().write({"n": base, "bad": BadRepr(), 7: "seven"})
    elif kind == "weirdmsg": log_message(message_type="app:weird", n=base, bad=BadRepr())
    elif kind == "serfail": SERFAIL.log(n=base + 1, x=base)
    else: raise ValueError(kind)

# ------------------------------------------------------------------ reading what a destination was handed
def label_of(m):
    """emission label of an ordinary message (the driver put it there), None if unknown"""
    n = m.get("n")
    if isinstance(n, int) and not isinstance(n, bool): return n
    r = m.get("reason")
    if isinstance(r, str):
        mo = re.fullmatch(r"n=(\d+)", r)
        if mo: return int(mo.group(1))
    if m.get("message_type") == "eliot:serialization_failure" and isinstance(m.get("message"), str):
        mo = re.search(r"\"'n'\": '(\d+)'", m["message"])
        if mo: return int(mo.group(1))
    return None

def label_from_rendering(text):
    """the report carries str({repr(k): repr(v)}) of the affected message; parse it back far enough for a label"""
    try: outer = ast.literal_eval(text)
    except Exception: return None
    if not isinstance(outer, dict): return None
    pseudo = {}
    for k, v in outer.items():
        try: pseudo[ast.literal_eval(k)] = ast.literal_eval(v)
        except Exception: pass
    if pseudo.get("message_type") == DF: return "REPORT"
    return label_of(pseudo)

def my_render(m):
    """independent rendering: (exact string or None, fragments that must occur)"""
    items = []; exact = True; frags = []
    for k, v in m.items():
        try: rk, rv = repr(k), repr(v)
        except Exception: exact = False; continue
        items.append((rk, rv)); frags.append(repr(rk) + ": " + repr(rv))
    return (str(dict(items)) if exact else None), frags

# ------------------------------------------------------------------ scenario compilation (static labels)
def compile_scenario(sc):
    counter = [10]
    def comp_prog(prog, nested):
        out = []
        for op in prog:
            if op[0] == "log": out.append(("log", op[1], counter[0])); counter[0] += 10
            elif op[0] == "burst": out.append(("burst", int(op[1]), counter[0])); counter[0] += 10 * int(op[1])
            elif op[0] == "add" and not nested: out.append(("add", [int(x) for x in op[1:]]))
            elif op[0] == "remove" and not nested: out.append(("remove", int(op[1])))
            else: raise ValueError("bad op %r" % (op,))
        return out
    prog = comp_prog(sc["prog"], False)
    dests = []
    for d in sc["dests"]:
        if d.get("kind") == "file": dests.append({"kind": "file"}); continue
        script = []
        for b in d.get("script", []):
            if isinstance(b, str): script.append((b, None, None))
            else: script.append((b.get("x", ""), b["via"], comp_prog(b["p"], True)))
        dests.append({"kind": "scripted", "script": script, "tail": d.get("tail", "")})
    mode = sc.get("mode", "fresh")
    # "instance" = a Logger with its own Destinations; nothing is logged to it before the first add (reports of
    # re-delivered buffered messages carry no logger and would go to the process-global Destinations instead)
    return {"mode": mode, "wrap": bool(sc.get("wrap")) and mode != "instance", "prog": prog, "dests": dests}

# ------------------------------------------------------------------ reference model (sequential semantics of the statement)
class Model(object):
    def __init__(self, c):
        self.c = c; n = len(c["dests"])
        self.reg = []; self.buffering = c["mode"] == "fresh"; self.buf = []
        self.k = [0] * n; self.streams = [[] for _ in range(n)]; self.calls = 0
    def send(self, ident, unser=False):
        if self.buffering:
            self.buf.append((ident, unser)); del self.buf[:-1000]; return
        is_rep = ident[0] == "r"; errors = []
        for i in list(self.reg):
            d = self.c["dests"][i]; self.calls += 1
            if d["kind"] == "file":
                if unser:
                    if not is_rep: errors.append(("r", None, None, ident[1]))
                else: self.streams[i].append(ident)
                continue
            k = self.k[i]; self.k[i] += 1
            self.streams[i].append(ident)
            code, via, p = d["script"][k] if k < len(d["script"]) else (d["tail"], None, None)
            if p is not None: self.run_prog(p)
            if code and not is_rep:
                e = make_exc(code, i, k); errors.append(("r", safe_str(e), exc_name(e), ident[1]))
        for r in errors: self.send(r)
    def run_prog(self, prog):
        for op in prog:
            if op[0] == "log":
                for off, unser in KINDS[op[1]]: self.send(("m", op[2] + off), unser)
            elif op[0] == "burst":
                for j in range(op[1]): self.send(("m", op[2] + 10 * j))
            elif op[0] == "add":
                if self.buffering:
                    self.buffering = False; self.reg = list(op[1]); pending, self.buf = self.buf, []
                    for ident, unser in pending: self.send(ident, unser)
                else: self.reg.extend(op[1])
            elif op[0] == "remove": self.reg.remove(op[1])
    def run(self):
        if self.c["wrap"]: self.send(("m", 1))
        self.run_prog(self.c["prog"])
        if self.c["wrap"]: self.send(("m", 2))
        return self

# ------------------------------------------------------------------ the real thing
class ScriptedDest(object):
    def __init__(self, world, idx, spec):
        self.world = world; self.idx = idx; self.spec = spec; self.k = 0; self.calls = []
    def __call__(self, message): return self.receive(message)
    def receive(self, message):
        w = self.world
        if w.closed: return
        with w.lock: w.total += 1; k = self.k; self.k += 1
        rec = {"msg": dict(message), "exc": None}
        self.calls.append(rec)
        if w.total > w.cap: w.capped = True
        if message.get("message_type") == DF and isinstance(message.get("message"), str) and DF in message["message"]:
            w.capped = True     # a report about a report: stop feeding the recursion right now
        if w.capped: return     # every destination turns healthy and silent; the scenario is already a failure
        code, via, p = self.spec["script"][k] if k < len(self.spec["script"]) else (self.spec["tail"], None, None)
        if p is not None: w.nested(via, p)
        hook = w.hooks.get((self.idx, k))
        if hook is not None: hook()
        if code:
            e = make_exc(code, self.idx, k); rec["exc"] = e; raise e

class World(object):
    def __init__(self, c, cap):
        self.c = c; self.cap = cap; self.total = 0; self.capped = False; self.closed = False; self.blocked = False
        self.timed_out = False; self.escaped = []; self.lock = threading.Lock(); self.hooks = {}
        self.dests = []; self.handles = []; self.files = {}
        for i, d in enumerate(c["dests"]):
            if d["kind"] == "file":
                f = tempfile.TemporaryFile(mode="w+b"); self.files[i] = f
                self.dests.append(None); self.handles.append(FileDestination(file=f))
            else:
                sd = ScriptedDest(self, i, d); self.dests.append(sd)
                self.handles.append(sd)
        self.D = None; self.lg = None
    def handle(self, i):
        h = self.handles[i]     # callable object, or a *fresh* (equal, not identical) bound method for odd positions
        return h.receive if (isinstance(h, ScriptedDest) and i % 2) else h
    def nested(self, via, prog):
        if via == "inline": self.run_prog(prog)
        else:
            t = threading.Thread(target=self.run_prog, args=(prog,), daemon=True); t.start(); t.join(8)
            if t.is_alive(): self.blocked = True
    def run_prog(self, prog):
        for op in prog:
            try:
                if op[0] == "log": do_log(op[1], op[2], self.lg)
                elif op[0] == "burst":
                    for j in range(op[1]): do_log("msg", op[2] + 10 * j, self.lg)
                elif op[0] == "add":
                    hs = [self.handle(i) for i in op[1]]
                    if self.D is not None: self.D.add(*hs)
                    else: add_destinations(*hs)
                elif op[0] == "remove":
                    if self.D is not None: self.D.remove(self.handle(op[1]))
                    else: remove_destination(self.handle(op[1]))
            except HarnessTimeout: raise
            except BaseException as e:
                self.escaped.append("%r escaped from %r" % (e, list(op[:2])))
    def run(self):
        saved = Logger._destinations
        if self.c["mode"] == "fresh":
            self.D = Destinations(); Logger._destinations = self.D
        elif self.c["mode"] == "instance":
            self.D = Destinations(); self.lg = Logger(); self.lg._destinations = self.D
        def on_alarm(signum, frame):
            self.timed_out = True; raise HarnessTimeout()
        old_handler = signal.signal(signal.SIGALRM, on_alarm); signal.setitimer(signal.ITIMER_REAL, 15, 2)
        try:
            try:
                if self.c["wrap"]:
                    with (start_action(self.lg, "app:outer", n=1) if self.lg is not None else start_action(action_type="app:outer", n=1)) as a:
                        self.run_prog(self.c["prog"]); a.add_success_fields(n=2)
                else: self.run_prog(self.c["prog"])
            except HarnessTimeout: pass
            except BaseException as e: self.escaped.append("%r escaped from the program" % (e,))
        finally:
            signal.setitimer(signal.ITIMER_REAL, 0); signal.signal(signal.SIGALRM, old_handler)
            self.closed = True
            Logger._destinations = saved
            if self.c["mode"] == "global":
                for h in [self.handle(i) for i in range(len(self.handles))]:
                    for _ in range(4):
                        try: remove_destination(h)
                        except ValueError: break
        return self
    def affected(self, m):
        r = m.get("reason")
        mo = re.search(r"boom d(\d+)c(\d+)", r) if isinstance(r, str) else None
        if mo:
            i, k = int(mo.group(1)), int(mo.group(2))
            if i < len(self.dests) and self.dests[i] is not None and k < len(self.dests[i].calls):
                a = self.dests[i].calls[k]["msg"]
                return "REPORT" if a.get("message_type") == DF else label_of(a)
        return label_from_rendering(m["message"]) if isinstance(m.get("message"), str) else None
    def ident(self, m):
        if m.get("message_type") == DF: return ("r", m.get("reason"), m.get("exception"), self.affected(m))
        return ("m", label_of(m))
    def streams(self):
        out = []
        for i, d in enumerate(self.dests):
            if d is not None: out.append([self.ident(r["msg"]) for r in list(d.calls)]); continue
            f = self.files[i]; f.seek(0); ids = []
            for line in f.read().split(b"\n"):
                if not line: continue
                try: ids.append(self.ident(json.loads(line)))
                except Exception: ids.append(("garbage", line[:40].decode("latin-1")))
            out.append(ids)
        return out
    def close(self):
        for f in self.files.values(): f.close()

def ident_match(exp, obs):
    if exp[0] != obs[0]: return False
    if exp[0] == "m": return exp[1] == obs[1]
    if not isinstance(obs[1], str) or not isinstance(obs[2], str) or not obs[2]: return False
    return (exp[1] is None or exp[1] == obs[1]) and (exp[2] is None or exp[2] == obs[2]) and exp[3] == obs[3]

def check_report_contents(world, problems):
    """every report handed to anybody: exception class, its text and a rendering of the affected message"""
    for i, d in enumerate(world.dests):
        if d is None: continue
        for rec in list(d.calls):
            m = rec["msg"]
            if m.get("message_type") != DF: continue
            if not all(isinstance(m.get(f), str) for f in ("reason", "exception", "message")):
                problems.append(("report_content", "fields", "dest %d got a report without str reason/exception/message: %r" % (i, sorted(m)))); return
            mo = re.search(r"boom d(\d+)c(\d+)", m["reason"])
            if not mo: continue
            j, k = int(mo.group(1)), int(mo.group(2))
            if j >= len(world.dests) or world.dests[j] is None or k >= len(world.dests[j].calls): continue
            src = world.dests[j].calls[k]
            if src["exc"] is None:
                problems.append(("report_extra", "no_such_failure", "report %r but dest %d did not raise on call %d" % (m["reason"], j, k))); return
            st = safe_str(src["exc"])
            if st is not None and m["reason"] != st:
                problems.append(("report_content", "reason", "reason %r != str(exception) %r" % (m["reason"], st))); return
            if m["exception"] != exc_name(src["exc"]):
                problems.append(("report_content", "exception", "exception %r != %r" % (m["exception"], exc_name(src["exc"])))); return
            exact, frags = my_render(src["msg"])
            if (exact is not None and m["message"] != exact) or any(fr not in m["message"] for fr in frags):
                problems.append(("report_content", "message", "rendering %r does not render the affected message %r" % (m["message"][:120], exact and exact[:120]))); return

def classify(exp, obs):
    eo = [x[1] for x in exp if x[0] == "m"]; oo = [x[1] for x in obs if x[0] == "m"]
    if eo != oo:
        if None in oo: return ("exactly_once", "unexpected_message")
        if len(set(oo)) != len(oo): return ("exactly_once", "duplicate")
        if sorted(eo) == sorted(oo): return ("order", "ordinary_messages_reordered")
        if set(eo) - set(oo): return ("exactly_once", "missing")
        return ("exactly_once", "not_registered_or_unexpected")
    er = [x for x in exp if x[0] == "r"]; orr = [x for x in obs if x[0] != "m"]
    if any(x[0] == "r" and x[3] == "REPORT" for x in orr): return ("no_report_of_report", "report_about_a_report")
    if len(orr) < len(er): return ("report_missing", "fewer_reports_than_failures")
    if len(orr) > len(er): return ("report_extra", "more_reports_than_failures")
    rem = list(orr)
    for e in er:
        for o in rem:
            if ident_match(e, o): rem.remove(o); break
        else: return ("report_content", "report_does_not_match_failure")
    return ("order", "reports_misplaced")

def run_lifo(sc):
    """returns (nontrivial, [ (clause, detail, text) ... ])"""
    c = compile_scenario(sc)
    model = Model(c).run()
    world = World(c, cap=model.calls + 8).run()
    problems = []
    try:
        for e in world.escaped: problems.append(("never_raises", "exception_escaped", e))
        if world.capped: problems.append(("bounded_recursion", "runaway_or_report_of_report", "a report about a report was delivered, or more than %d destination calls happened (expected exactly %d)" % (world.cap, model.calls)))
        if world.timed_out or world.blocked: problems.append(("termination", "blocked_or_timeout", "scenario did not finish (deadlock / runaway)"))
        obs = world.streams()
        for i, (e, o) in enumerate(zip(model.streams, obs)):
            if len(e) == len(o) and all(ident_match(a, b) for a, b in zip(e, o)): continue
            cl, det = classify(e, o)
            first = next((j for j in range(min(len(e), len(o))) if not ident_match(e[j], o[j])), min(len(e), len(o)))
            problems.append((cl, det, "dest %d: expected %d deliveries, got %d; first difference at #%d: expected %r got %r" % (
                i, len(e), len(o), first, e[first] if first < len(e) else None, o[first] if first < len(o) else None)))
        check_report_contents(world, problems)
    finally:
        world.close()
    return model.calls > 0, problems

# ------------------------------------------------------------------ non-LIFO two-thread interleavings (clause oracle)
class Sched(object):
    def __init__(self): self.ev = [threading.Event(), threading.Event()]; self.done = [False, False]; self.stuck = False
    def switch(self, me):
        other = 1 - me
        if self.done[other]: return
        self.ev[me].clear(); self.ev[other].set()
        if not self.ev[me].wait(8): self.stuck = True
    def finish(self, me):
        self.done[me] = True
        if not self.done[1 - me]: self.ev[1 - me].set()

def run_conc(sc):
    c = compile_scenario({"mode": "fresh", "dests": sc["dests"], "prog": []})
    n = len(c["dests"])
    world = World(c, cap=100000); sched = Sched(); tix = {}
    progs = []; emitted = [[], []]; base = 10
    for t, kinds in enumerate(sc["threads"]):
        p = []
        for kind in kinds:
            p.append(("log", kind, base)); emitted[t] += [base + off for off, _ in KINDS[kind]]; base += 10
        progs.append(p)
    def mk_hook():
        def hook():
            me = tix.get(threading.get_ident())
            if me is not None: sched.switch(me)
        return hook
    for i, k in sc["switch"]: world.hooks[(i, k)] = mk_hook()
    def body(t):
        tix[threading.get_ident()] = t
        if not sched.ev[t].wait(8): sched.stuck = True
        try: world.run_prog(progs[t])
        finally: sched.finish(t)
    saved = Logger._destinations; world.D = Destinations(); Logger._destinations = world.D
    problems = []
    try:
        world.D.add(*[world.handle(i) for i in range(n)])
        ths = [threading.Thread(target=body, args=(t,), daemon=True) for t in (0, 1)]
        for th in ths: th.start()
        sched.ev[0].set()
        for th in ths: th.join(20)
        if sched.stuck or any(th.is_alive() for th in ths):
            problems.append(("termination", "blocked_or_timeout", "threads did not finish under the forced schedule"))
        world.closed = True
        for e in world.escaped: problems.append(("never_raises", "exception_escaped", e))
        failures = []
        for i, d in enumerate(world.dests):
            for k, rec in enumerate(list(d.calls)):
                if rec["exc"] is not None and rec["msg"].get("message_type") != DF:
                    failures.append(("r", safe_str(rec["exc"]), exc_name(rec["exc"]), label_of(rec["msg"])))
        allm = sorted(emitted[0] + emitted[1])
        for i, o in enumerate(world.streams()):
            oo = [x[1] for x in o if x[0] == "m"]
            if sorted(oo, key=lambda v: (v is None, v)) != allm:
                det = "duplicate" if len(set(oo)) != len(oo) else "missing" if set(allm) - set(oo) else "unexpected_message"
                problems.append(("exactly_once", det, "dest %d got ordinary messages %r, emitted %r" % (i, oo, allm)))
            for t in (0, 1):
                sub = [v for v in oo if v in emitted[t]]
                if sub != emitted[t] and sorted(sub) == emitted[t]:
                    problems.append(("order", "ordinary_messages_reordered", "dest %d got thread %d's messages as %r" % (i, t, sub)))
            orr = [x for x in o if x[0] != "m"]
            if any(x[3] == "REPORT" for x in orr): problems.append(("no_report_of_report", "report_about_a_report", "dest %d got a report about a report" % i))
            elif sorted(orr, key=repr) != sorted(failures, key=repr):
                cl = "report_missing" if len(orr) < len(failures) else "report_extra" if len(orr) > len(failures) else "report_content"
                problems.append((cl, "reports_vs_failures", "dest %d got %d reports %r for %d failures %r" % (i, len(orr), sorted(orr, key=repr)[:3], len(failures), sorted(failures, key=repr)[:3])))
        check_report_contents(world, problems)
    finally:
        world.closed = True; Logger._destinations = saved; world.close()
    return True, problems

# ------------------------------------------------------------------ probes (registration changes during a delivery, odd exceptions)
def run_probe(sc):
    kind = sc["probe"]; problems = []
    D = Destinations(); saved = Logger._destinations; Logger._destinations = D
    n = sc.get("n", 3); got = [[] for _ in range(n + 1)]; state = {"armed": True}
    def lab(l): return [DF if m.get("message_type") == DF else m.get("n") for m in l]
    try:
        fs = []
        def mk(i):
            def f(m):
                got[i].append(dict(m))
                if kind == "remove_during_delivery" and i == sc["remover"] and state["armed"]:
                    state["armed"] = False; D.remove(fs[sc["target"]])
                if kind == "add_during_delivery" and i == sc["remover"] and state["armed"]:
                    state["armed"] = False; D.add(fs[n])
                if kind == "base_exception" and i == sc["remover"] and m.get("n") == 1: raise HardStop("stop")
                if kind == "module_none" and i == sc["remover"] and m.get("n") == 1: raise NoModule("boom")
            return f
        fs.extend(mk(i) for i in range(n + 1))
        D.add(*fs[:n])
        for lbl in (1, 2):
            try: log_message(message_type="app:msg", n=lbl)
            except BaseException as e:
                problems.append(("isolation" if kind == "base_exception" else "never_raises",
                                 "destination_raises_non_Exception_BaseException" if kind == "base_exception" else "exception_escaped",
                                 "%r escaped from log_message(n=%d)" % (e, lbl)))
        if kind == "remove_during_delivery":
            r, t = sc["remover"], sc["target"]
            for i in range(n):
                l = [x for x in lab(got[i]) if x != DF]
                if i == t:
                    if 2 in l: problems.append(("exactly_once", "delivered_after_remove", "removed dest %d still got message 2: %r" % (i, l)))
                    if i <= r and [x for x in l if x != 2] != [1]: problems.append(("exactly_once", "destination_removed_during_delivery" if 1 not in l else "duplicate", "dest %d (removed while m1 in flight, already served) got %r" % (i, l)))
                elif l != [1, 2]:
                    problems.append(("exactly_once", "destination_removed_during_delivery" if t <= r and i == r + 1 and l == [2] else "missing",
                                     "dest %d stays registered but got %r after dest %d removed dest %d during delivery of m1" % (i, l, r, t)))
        elif kind == "add_during_delivery":
            for i in range(n):
                if lab(got[i]) != [1, 2]: problems.append(("exactly_once", "missing", "dest %d got %r" % (i, lab(got[i]))))
            if lab(got[n]) not in ([2], [1, 2]): problems.append(("exactly_once", "added_during_delivery", "dest added during delivery of m1 got %r" % (lab(got[n]),)))
        elif kind == "base_exception":
            for i in range(n):
                l = [x for x in lab(got[i]) if x != DF]
                if l != [1, 2]: problems.append(("isolation", "destination_raises_non_Exception_BaseException", "dest %d got %r, expected [1, 2]" % (i, l)))
        elif kind == "module_none":
            for i in range(n):
                l = lab(got[i])
                if [x for x in l if x != DF] != [1, 2]: problems.append(("exactly_once", "missing", "dest %d got %r" % (i, l)))
                elif l != [1, DF, 2]: problems.append(("report_missing", "exception_class_module_not_str", "dest %d got %r, expected one report after message 1" % (i, l)))
    finally:
        Logger._destinations = saved
    # signature uses "cause" for the known classes
    out = []
    for cl, det, txt in problems:
        out.append((cl, det, txt))
    return True, out

def run_scenario(sc):
    fam = sc.get("family", "lifo")
    if fam == "conc": return run_conc(sc)
    if fam == "probe": return run_probe(sc)
    return run_lifo(sc)

# ------------------------------------------------------------------ enumeration
def S(bits, codes_at, i):
    return [codes_at(i, k) if b else "" for k, b in enumerate(bits)]

def fam_masks(tier):
    confs = [(1, 3, 4), (2, 2, 4), (2, 3, 4), (3, 2, 3)] if tier == "quick" else [(1, 4, 6), (2, 2, 4), (2, 3, 5), (3, 2, 4), (3, 3, 3)]
    idx = 0
    for n, L, slen in confs:
        for bits in itertools.product((0, 1), repeat=n * slen):
            for tails in itertools.product((0, 1), repeat=n):
                idx += 1; sb = sum(bits)
                dests = [{"script": S(bits[i * slen:(i + 1) * slen], lambda i, k: CODES[(3 * i + k + sb + idx) % len(CODES)], i),
                          "tail": ("VC"[i % 2] if tails[i] else "")} for i in range(n)]
                kinds = ["msg"] * L if idx % 4 else [PLAIN_KINDS[(idx // 4 + j) % len(PLAIN_KINDS)] for j in range(L)]
                glob = idx % 7 in (0, 3)
                pre = [["log", "msg"]] if (idx % 5 == 0 and not glob) else []
                yield {"family": "lifo", "mode": ("global" if idx % 7 == 0 else "instance") if glob else "fresh", "wrap": idx % 11 == 0 and not glob, "dests": dests,
                       "prog": pre + [["add"] + list(range(n))] + [["log", k] for k in kinds]}

BEHAVIOURS = {"healthy": {"script": [], "tail": ""}, "broken": {"script": [], "tail": "C"},
              "alternate": {"script": ["V", "", "K", "", "R", "", "O", "", "N", "", "E", ""], "tail": "V"},
              "late": {"script": ["", "", "M", "U"], "tail": ""}}

def fam_registration(tier, rng):
    ops = [["log", "msg"], ["add", 0], ["add", 1], ["add", 2], ["remove", 0], ["remove", 1], ["remove", 2], ["add", 0, 1], ["add", 2, 1]]
    def valid(prog):
        reg = []
        for op in prog:
            if op[0] == "add":
                if any(i in reg for i in op[1:]): return False
                reg += op[1:]
            elif op[0] == "remove":
                if op[1] not in reg: return False
                reg.remove(op[1])
        return any(op[0] == "add" for op in prog) and any(op[0] == "log" for op in prog)
    maxlen = 5 if tier == "quick" else 6
    names = sorted(BEHAVIOURS)
    for ln in range(2, maxlen + 1):
        progs = [list(p) for p in itertools.product(ops, repeat=ln) if valid(p)]
        limit = {2: 10 ** 9, 3: 10 ** 9, 4: 10 ** 9, 5: 2500, 6: 12000}[ln] if tier == "quick" else {5: 10 ** 9, 6: 40000}.get(ln, 10 ** 9)
        if len(progs) > limit: rng.shuffle(progs); progs = progs[:limit]
        for j, p in enumerate(progs):
            for rep in range(2 if ln <= 4 else 1):
                beh = [rng.choice(names) for _ in range(3)]
                if "healthy" not in beh and rep == 0: beh[rng.randrange(3)] = "healthy"
                glob = p[0][0] == "add" and (j + rep) % 3 != 1
                yield {"family": "lifo", "mode": ("global" if (j + rep) % 3 == 0 else "instance") if glob else "fresh", "wrap": False,
                       "dests": [BEHAVIOURS[b] for b in beh], "prog": p + ([["log", "msg"]] if j % 2 else [])}

def fam_nested(tier):
    slen = 4 if tier == "quick" else 6
    nprogs = [[["log", "msg"]], [["log", "msg"], ["log", "write"]], [["log", "act_ok"]]]
    idx = 0
    for kn in range(4 if tier == "quick" else 5):
        for via in ("inline", "thread"):
            for gx in ("", "V"):
                for gpos in (0, 1):
                    for npi, np_ in enumerate(nprogs):
                        if tier == "quick" and npi and (kn + gpos) % 2: continue
                        for bits in itertools.product((0, 1), repeat=slen):
                            for tail in ("", "C"):
                                idx += 1
                                g = {"script": [""] * kn + [{"x": gx, "via": via, "p": np_}], "tail": ""}
                                o = {"script": S(bits, lambda i, k: SAFE_CODES[(k + idx) % len(SAFE_CODES)], 0), "tail": tail}
                                h = {"script": [], "tail": ""}
                                dests = [g, o] if gpos == 0 else [o, g]
                                if idx % 3 == 0: dests.append(h)
                                yield {"family": "lifo", "mode": "instance" if idx % 4 == 1 else "fresh", "wrap": idx % 5 == 0 and idx % 4 != 1, "dests": dests,
                                       "prog": [["add"] + list(range(len(dests)))] + [["log", "msg"], ["log", "msg"]]}

def rand_script(rng, depth, ln):
    out = []
    for _ in range(ln):
        r = rng.random()
        if r < 0.45: out.append("")
        elif r < 0.8 or depth <= 0: out.append(rng.choice(CODES))
        else:
            out.append({"x": rng.choice(["", rng.choice(CODES)]), "via": rng.choice(["inline", "thread"]),
                        "p": [["log", rng.choice(ALL_KINDS)] for _ in range(rng.randint(1, 2))]})
    return out

def fam_random(tier, rng):
    count = 5000 if tier == "quick" else 110000
    for j in range(count):
        n = rng.randint(1, 4); dests = []
        for i in range(n):
            if rng.random() < 0.12: dests.append({"kind": "file"})
            else: dests.append({"script": rand_script(rng, 1, rng.randint(0, 7)), "tail": rng.choice(["", "", "", rng.choice(CODES)])})
        glob = rng.random() < 0.35
        prog = []; reg = []; ln = rng.randint(2, 9)
        if glob or rng.random() < 0.6:
            first = rng.sample(range(n), rng.randint(1, n)); prog.append(["add"] + first); reg += first
        for _ in range(ln):
            r = rng.random(); free = [i for i in range(n) if i not in reg]
            if r < 0.15 and free:
                new = rng.sample(free, rng.randint(1, len(free))); prog.append(["add"] + new); reg += new
            elif r < 0.3 and reg:
                x = rng.choice(reg); reg.remove(x); prog.append(["remove", x])
            else: prog.append(["log", rng.choice(ALL_KINDS)])
        gmode = rng.choice(["global", "instance"])
        yield {"family": "lifo", "mode": gmode if glob else "fresh", "wrap": (not glob) and rng.random() < 0.25, "dests": dests, "prog": prog}

def fam_conc(tier, rng):
    count = 400 if tier == "quick" else 8000
    kinds = ["msg", "write", "act_ok", "msg"]
    for j in range(count):
        n = rng.randint(2, 3)
        dests = [{"script": [rng.choice(["", "", rng.choice(SAFE_CODES)]) for _ in range(rng.randint(0, 8))],
                  "tail": rng.choice(["", "", "C"])} for _ in range(n)]
        threads = [[rng.choice(kinds) for _ in range(rng.randint(1, 3))] for _ in (0, 1)]
        switch = sorted(set((rng.randrange(n), rng.randrange(8)) for _ in range(rng.randint(1, 4))))
        yield {"family": "conc", "dests": dests, "threads": threads, "switch": [list(s) for s in switch]}

def fam_fixed(tier):
    yield {"family": "lifo", "mode": "fresh", "wrap": False, "dests": [BEHAVIOURS["healthy"], BEHAVIOURS["alternate"], BEHAVIOURS["healthy"]],
           "prog": [["burst", 1003], ["add", 0, 1, 2], ["log", "msg"]]}
    yield {"family": "lifo", "mode": "fresh", "wrap": False, "dests": [BEHAVIOURS["broken"], BEHAVIOURS["broken"], BEHAVIOURS["broken"], BEHAVIOURS["healthy"]],
           "prog": [["log", "act_ok"], ["add", 0, 1, 2, 3], ["burst", 40], ["remove", 3], ["log", "msg"]]}
    for n in (2, 3):
        for r in range(n):
            for t in range(n):
                yield {"family": "probe", "probe": "remove_during_delivery", "n": n, "remover": r, "target": t}
            yield {"family": "probe", "probe": "add_during_delivery", "n": n, "remover": r}
            yield {"family": "probe", "probe": "base_exception", "n": n, "remover": r}
            yield {"family": "probe", "probe": "module_none", "n": n, "remover": r}

def all_scenarios(tier, seed):
    rng = random.Random(seed)
    return itertools.chain(fam_fixed(tier), fam_masks(tier), fam_nested(tier), fam_registration(tier, rng),
                           fam_random(tier, rng), fam_conc(tier, rng))

def main():
    # take the process-global Destinations out of its initial buffering state, so "global" scenarios are uniform
    _noop = lambda m: None
    add_destinations(_noop); remove_destination(_noop)
    fails = []; known = []; cases = 0; seen = set(); per_sig = {}; nfail = 0; nterm = 0
    scs = [json.loads(args.scenario)] if args.scenario else all_scenarios(args.tier, args.seed)
    famcount = {}
    for sc in scs:
        cases += 1; fk = sc.get("family", "lifo") + ":" + sc.get("mode", sc.get("probe", "")); famcount[fk] = famcount.get(fk, 0) + 1
        try: nontrivial, problems = run_scenario(sc)
        except HarnessTimeout: nontrivial, problems = True, [("termination", "blocked_or_timeout", "harness timeout")]
        except Exception as e:
            import traceback; traceback.print_exc(file=sys.stderr)
            nontrivial, problems = True, [("harness", "driver_error", "%r" % (e,))]
        if nontrivial: seen.add(json.dumps(sc, sort_keys=True))
        if not problems: continue
        groups = {}
        for cl, det, txt in problems: groups.setdefault((cl, det), []).append(txt)
        for (cl, det), txts in groups.items():
            sig = {"clause": cl, "cause": det}
            is_known = sig in KNOWN_SIGNATURES and sc.get("family") == "probe"
            if not is_known: sig = {"clause": cl, "detail": det}
            key = json.dumps(sig, sort_keys=True); per_sig[key] = per_sig.get(key, 0) + 1
            entry = {"signature": sig, "scenario": sc, "observed": [t[:300] for t in txts[:3]]}
            if is_known:
                if per_sig[key] <= 1 and len(known) < 5: known.append(entry)
            else:
                if per_sig[key] <= 2 and len(fails) < 5: fails.append(entry)
        if any(not ({"clause": cl, "cause": det} in KNOWN_SIGNATURES and sc.get("family") == "probe") for cl, det, _ in problems):
            nfail += 1
            nterm += any(cl == "termination" for cl, _, _ in problems)
            if nfail >= 40 or nterm >= 3: break
    q = args.tier == "quick"
    print("scenario counts: %s; failing scenarios: %d; signature counts: %s" % (famcount, nfail, per_sig), file=sys.stderr)
    print(json.dumps({
        "cases": cases, "distinct": len(seen), "failures": fails, "known": known,
        "bound": ("1-4 destinations (scripted callables, bound methods, real FileDestination on a temp file); per-destination failure masks over "
                  "the first %s calls plus ok/permanently-broken tail, exhaustive for <=3 destinations x <=%d messages; 17 exception classes; "
                  "programs of <=%d ops over add/remove/9 logging forms (log_message, Logger.write, actions ok/failed, write_traceback, "
                  "Message.log, serialization failure, unserializable/unrepr-able fields), before-first-add buffering incl. 1003 messages, fresh "
                  "Destinations and the process-global one; re-entrant logging from inside a destination (inline and from a second thread parked "
                  "mid-delivery, depth 1); %d forced non-LIFO two-thread interleavings; registration change during delivery and odd-exception probes"
                  % ("3-4" if q else "3-6", 3, 9 if q else 10, 400 if q else 8000)),
        "rule": ("exhaustive mask enumeration + exhaustive short add/remove/log programs + exhaustive nested-log position x mask + seeded random rich "
                 "programs (--seed) + token-scheduled two-thread runs; every scenario runs the real eliot code and the per-destination delivery "
                 "streams (ordinary message labels, reports with reason/exception/affected message) are compared with an independent sequential "
                 "reference model, plus clause checks (never raises, bounded calls, report contents vs the recorded raise); distinct = distinct "
                 "scenario JSON in which at least one destination call is expected")}))
main()
