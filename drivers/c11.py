"""Native driver for C11 (bounded; real code, real processes, real files):
"a crash loses no acknowledged message and leaves a parseable log".

How it works
  * A *logging program* is a small JSON tree of operations (messages, nested actions / tasks with the exit kinds
    ok / exception / explicit finish / never finished, actions with the default (empty) action_type, remote
    sub-tasks, tracebacks, the deprecated Message.log, payloads that are tiny / unicode with embedded newlines /
    larger than every user-space buffer and than a pipe).
  * Every case forks a child process.  The child opens a fresh log file as one of FILE_KINDS (C buffered binary,
    unbuffered, tiny buffer, text, line buffered, write_through text, reconfigure()d text, the pure Python _pyio
    stack, codecs writer, hand written file-like objects that write in small chunks), hands it to the real
    eliot.to_file() and interprets the program.  After *each logging call has returned* it writes an
    acknowledgement to a pipe (os.write: survives the death of the process).  A second destination, added before
    the file, copies every message dict to the same pipe, so the parent knows exactly what was being logged,
    including the message in flight.
  * The child dies at a chosen instant: a sys.settrace hook counts every 'line' and 'return' event of every Python
    frame executed by the program (harness, eliot, pyrsistent, _pyio/codecs/file-like objects); at event number c
    the process is killed: SIGKILL to itself, os._exit, or "external": it reports that it reached the point and
    blocks, and the *parent* delivers SIGKILL (no sleeping: the kill follows a handshake).  A probe run of each
    (program, file kind) first labels every event; crash points are then all events (small runs) or a seeded sample
    weighted towards FileDestination.__call__ (before the write = the file.write line, between write and flush =
    the file.flush line and every event inside Python-level file objects, after the flush = 'return' of __call__),
    the program between calls, and anywhere else.  The probe itself is the case "death after the last call" (files
    are never closed or flushed by the harness).  A further "async" mode lets the parent SIGKILL a free running
    child as soon as it has read k acknowledgements (lands anywhere, including inside C code; the oracle is sound
    wherever it lands, and an event index that a run does not reach degenerates to death after the last call).
  * Oracle (independent of eliot; the parser is the thing under test for the second half):
      - file == complete lines + at most one fragment without newline; each complete line is JSON equal to the
        i-th message handed to the destinations; #complete lines >= #acknowledged calls; the fragment is a prefix
        of the serialisation of the message in flight;
      - the messages seen by destinations are a prefix of what a static model of the program says (order, task,
        level, kind, type);
      - Parser.parse_stream over the complete lines does not raise, yields each task uuid exactly once, and each
        yielded tree equals the tree rebuilt by this file's own builder: started actions present with exactly the
        children logged so far, status "started"/end_message None for unfinished ones; is_complete() is true iff
        the task is structurally finished, and then only if every message the program logs for that task is there.

KNOWN_ON_UNCHANGED_TREE: (none found: every clause holds on /repo for the whole explored space)
Deliberately outside the space: messages that fail to serialise or encode (replaced by eliot:destination_failure,
C07/C08) and user fields named like Eliot's own (docs: "reserved ... should not be added"), e.g.
log_message(message_type="m", action_type="x") makes Parser.add raise KeyError('action_status').
"""
import argparse, json, os, random, select, shutil, signal, sys, tempfile, time, warnings

ap = argparse.ArgumentParser(); ap.add_argument("--tier", default="quick"); ap.add_argument("--seed", type=int, default=0)
ap.add_argument("--scenario"); args = ap.parse_args()

import io, codecs, _pyio
import eliot
from eliot import start_action, start_task, log_message, to_file, add_destinations, remove_destination, write_traceback, Message
from eliot import Action
from eliot._output import FileDestination
from eliot.parse import Parser

QUICK_CAP, THOROUGH_CAP = 40, 250
KNOWN_SIGNATURES = []          # signatures (dicts) of genuine violations on the unchanged tree; none at present

# ------------------------------------------------------------------------------------------------ programs
FIELDS = {
    "none": {},
    "small": {"k": 1, "who": "x"},
    "uni": {"s": "hé☃\U0001F600", "nl": "a\nb\r\n c\x00d", "n": None, "l": [1, {"a": "b\n"}]},
    "big": {"blob": "x" * 9000},
    "huge": {"blob": "é" * 40000, "tail": "end"},
}
EXITS = ["ok", "exc", "leak", "finish", "finish-exc"]

CURATED = [
    [["msg", "app:lonely", "small"]],
    [["act", None, "ok", "small", [["msg", "app:m", "none"]]]],
    [["act", "app:a", "ok", "none", [["msg", "app:m", "uni"], ["act", "app:b", "exc", "small", [["msg", "app:n", "none"]]], ["msg", "app:m2", "small"]]]],
    [["act", "", "leak", "small", [["msg", "app:m", "none"], ["act", "app:c", "leak", "none", [["msg", "app:m", "big"]]]]]],
    [["task", "app:t", "finish", "uni", [["remote", [["msg", "app:r", "small"]]], ["tb"], ["legacy", "app:old", "small"]]]],
    [["act", "app:o", "ok", "none", [["task", None, "ok", "none", [["msg", "app:in", "small"]]], ["msg", "app:after", "none"]]], ["msg", "app:tail", "small"]],
    [["msg", "app:huge", "huge"], ["act", "app:h", "finish-exc", "small", [["msg", "app:b", "big"]]]],
    [["msg", "app:1", "none"], ["msg", "app:2", "small"], ["act", "app:empty", "ok", "none", []], ["act", None, "exc", "none", []], ["msg", "app:3", "none"]],
]


def random_program(rng, max_ops=8, max_depth=3):
    budget = [rng.randint(3, max_ops)]

    def ops(depth, inside):
        out = []
        while budget[0] > 0 and (not out or rng.random() < 0.7):
            budget[0] -= 1
            r = rng.random()
            if r < 0.35 or depth >= max_depth:
                r2 = rng.random()
                if r2 < 0.75:
                    out.append(["msg", rng.choice(["app:m", "app:x", "m"]), rng.choice(["none", "small", "small", "uni", "big"])])
                elif r2 < 0.9:
                    out.append(["tb"])
                else:
                    out.append(["legacy", "app:legacy", rng.choice(["none", "small"])])
            elif r < 0.85:
                out.append([rng.choice(["act", "act", "act", "task"]), rng.choice([None, "", "app:act", "app:other"]),
                            rng.choice(EXITS), rng.choice(["none", "small", "uni"]), ops(depth + 1, True)])
            elif inside:
                out.append(["remote", ops(depth + 1, True)])
            else:
                out.append(["msg", "app:top", "small"])
        return out
    return ops(0, False)


def model(program):
    """Static model: the messages a complete run of the program logs, in order (independent of eliot)."""
    E = []; tasks = [0]

    def new_task():
        tasks[0] += 1; return tasks[0] - 1

    def emit(ctx, kind, typ, status=None):
        if ctx is None:
            E.append({"task": new_task(), "level": [1], "kind": kind, "type": typ, "status": status})
        else:
            E.append({"task": ctx["task"], "level": ctx["path"] + [ctx["next"]], "kind": kind, "type": typ, "status": status})
            ctx["next"] += 1

    def run(ops, ctx):
        for op in ops:
            k = op[0]
            if k in ("msg", "legacy"):
                emit(ctx, "msg", op[1])
            elif k == "tb":
                emit(ctx, "msg", "eliot:traceback")
            else:
                if k == "remote":
                    typ, exit_, body = "eliot:remote_task", "ok", op[1]
                else:
                    typ, exit_, body = (op[1] or ""), op[2], op[4]
                if k == "task" or ctx is None:
                    child = {"task": new_task(), "path": [], "next": 1}
                else:
                    child = {"task": ctx["task"], "path": ctx["path"] + [ctx["next"]], "next": 1}; ctx["next"] += 1
                emit(child, "start", typ, "started")
                run(body, child)
                if exit_ != "leak":
                    emit(child, "end", typ, "failed" if exit_ in ("exc", "finish-exc") else "succeeded")
    run(program, None)
    return E


# ------------------------------------------------------------------------------------------------ file kinds
class ChunkedBin(object):
    """binary file-like object with its own user-space buffer; flush() writes it out in several small os.write calls"""
    def __init__(self, path):
        self.fd = os.open(path, os.O_WRONLY | os.O_CREAT | os.O_APPEND, 0o600); self.pending = []

    def write(self, data):
        if not isinstance(data, (bytes, bytearray, memoryview)):
            raise TypeError("bytes required")
        self.pending.append(bytes(data)); return len(data)

    def flush(self):
        pending, self.pending = self.pending, []
        for data in pending:
            step = max(11, len(data) // 5); i = 0
            while i < len(data):
                i += os.write(self.fd, data[i:i + step])


class ChunkedText(object):
    """text file-like object without a buffer: write() itself pushes the line out in several small os.write calls"""
    def __init__(self, path):
        self.fd = os.open(path, os.O_WRONLY | os.O_CREAT | os.O_APPEND, 0o600)

    def write(self, text):
        if not isinstance(text, str):
            raise TypeError("str required")
        data = text.encode("utf-8"); step = max(7, len(data) // 4); i = 0
        while i < len(data):
            i += os.write(self.fd, data[i:i + step])
        return len(text)

    def flush(self):
        pass


def _reconfigured(p):
    f = open(p, "a", encoding="utf-8"); f.reconfigure(write_through=True); return f


FILE_KINDS = {
    "bin": lambda p: open(p, "ab"),
    "bin-unbuffered": lambda p: open(p, "ab", buffering=0),
    "bin-smallbuf": lambda p: open(p, "ab", buffering=32),
    "text": lambda p: open(p, "a", encoding="utf-8"),
    "text-linebuf": lambda p: open(p, "a", buffering=1, encoding="utf-8"),
    "text-write-through": lambda p: io.TextIOWrapper(open(p, "ab"), encoding="utf-8", write_through=True),
    "text-reconfigured": _reconfigured,
    "text-wt-linebuf": lambda p: io.TextIOWrapper(open(p, "ab"), encoding="utf-8", write_through=True, line_buffering=True),
    "text-bigbuf": lambda p: io.TextIOWrapper(io.BufferedWriter(io.FileIO(p, "a"), buffer_size=1 << 20), encoding="utf-8"),
    "pyio-bin": lambda p: _pyio.open(p, "ab"),
    "pyio-text": lambda p: _pyio.open(p, "a", encoding="utf-8"),
    "pyio-text-wt": lambda p: _pyio.TextIOWrapper(_pyio.open(p, "ab"), encoding="utf-8", write_through=True),
    "codecs-text": lambda p: codecs.open(p, "a", "utf-8"),
    "chunked-bin": ChunkedBin,
    "chunked-text": ChunkedText,
}
KIND_ORDER = list(FILE_KINDS)

# ------------------------------------------------------------------------------------------------ child side
_HERE = os.path.abspath(__file__)
_ELIOT_DIR = os.path.dirname(os.path.abspath(eliot.__file__)) + os.sep
_FILEOBJ_FILES = {os.path.abspath(_pyio.__file__), os.path.abspath(codecs.__file__), codecs.StreamWriter.write.__code__.co_filename, _pyio.BufferedWriter.write.__code__.co_filename}
_DEST_CODE = FileDestination.__call__.__code__
_JSON_DIR = os.path.dirname(os.path.abspath(json.__file__)) + os.sep
_NOTRACE_FUNCS = {"_send", "_ack", "_shadow", "_crash"}


def _label(code):
    if code is _DEST_CODE:
        return "D"
    fn = code.co_filename
    if fn == _HERE:
        return "F" if code.co_qualname.startswith("Chunked") else "H"
    if fn in _FILEOBJ_FILES:
        return "F"
    if fn.startswith(_ELIOT_DIR):
        return "E"
    return "O"


def child_main(program, kind, crash, path, wfd, park_fd):
    def _send(rec):
        data = (json.dumps(rec) + "\n").encode("ascii"); i = 0
        while i < len(data):
            i += os.write(wfd, data[i:])
    acked = [0]

    def _ack():
        acked[0] += 1; _send({"t": "ack", "n": acked[0]})

    def _shadow(message):
        _send({"t": "msg", "m": message})

    def _park(what):
        _send({"t": what})
        while True:
            os.read(park_fd, 1); time.sleep(3600)

    mode = crash["mode"]; target = crash.get("at", -1); count = [0]; labels = []

    def _crash(frame):
        if mode == "exit":
            os._exit(17)
        if mode == "external":
            _park("park")
        os.kill(os.getpid(), signal.SIGKILL)
        while True:
            time.sleep(3600)

    def tracer(frame, event, arg):
        code = frame.f_code
        if event == "call":
            if (code.co_filename == _HERE and code.co_name in _NOTRACE_FUNCS) or code.co_filename.startswith(_JSON_DIR):
                return None
            return tracer
        if event == "line" or event == "return":
            if count[0] == target:
                _crash(frame)
            count[0] += 1
            if mode == "probe":
                labels.append(_label(code))
        return tracer

    def run_ops(ops, cur):
        for op in ops:
            k = op[0]
            if k == "msg":
                log_message(message_type=op[1], **FIELDS[op[2]]); _ack()
            elif k == "legacy":
                Message.log(message_type=op[1], **FIELDS[op[2]]); _ack()
            elif k == "tb":
                try:
                    raise RuntimeError("tb")
                except RuntimeError:
                    write_traceback()
                _ack()
            elif k == "remote":
                tid = cur.serialize_task_id()
                a = Action.continue_task(task_id=tid); _ack()
                with a:
                    run_ops(op[1], a)
                _ack()
            else:
                typ, exit_, fid, body = op[1:5]
                kw = dict(FIELDS[fid])
                if typ is not None:
                    kw["action_type"] = typ
                a = (start_action if k == "act" else start_task)(**kw); _ack()
                if exit_ == "ok":
                    with a:
                        run_ops(body, a)
                    _ack()
                elif exit_ == "exc":
                    try:
                        with a:
                            run_ops(body, a)
                            raise ValueError("boom")
                    except ValueError:
                        pass
                    _ack()
                elif exit_ == "leak":
                    with a.context():
                        run_ops(body, a)
                elif exit_ == "finish":
                    a.run(run_ops, body, a)
                    a.finish(); _ack()
                else:
                    with a.context():
                        run_ops(body, a)
                    a.finish(KeyError("k")); _ack()

    def run_program():
        run_ops(program, None)

    warnings.simplefilter("ignore")
    f = FILE_KINDS[kind](path)
    add_destinations(_shadow)      # first: sees every message before the file does
    to_file(f)
    if mode == "async":
        run_program()
    else:
        sys.settrace(tracer)
        run_program()
        sys.settrace(None)
    if mode == "probe":
        _send({"t": "trace", "labels": "".join(labels)})
    _park("done")                  # the file is never closed or flushed by the harness: the parent kills us here


# ------------------------------------------------------------------------------------------------ parent side
def run_child(program, kind, crash, tmpdir):
    """fork the child, collect its records, kill it as the crash mode says; return (records, file bytes, how it died)"""
    path = os.path.join(tmpdir, "eliot.log")
    if os.path.exists(path):
        os.unlink(path)
    r, w = os.pipe(); pr, pw = os.pipe()
    pid = os.fork()
    if pid == 0:
        try:
            os.close(r); os.close(pw)
            try:
                child_main(program, kind, crash, path, w, pr)
            except BaseException as e:  # harness or library blew up: tell the parent
                sys.settrace(None)
                data = (json.dumps({"t": "error", "e": "%s: %s" % (type(e).__name__, e)}) + "\n").encode("ascii", "replace")
                os.write(w, data)
        finally:
            os._exit(3)
    os.close(w); os.close(pr)
    records = []; buf = b""; killed = False; kill_after = crash.get("acks") if crash["mode"] == "async" else None
    deadline = time.time() + 30; hung = False
    try:
        while True:
            ready, _, _ = select.select([r], [], [], max(0.0, deadline - time.time()))
            if not ready:
                hung = True; os.kill(pid, signal.SIGKILL); break
            chunk = os.read(r, 1 << 16)
            if not chunk:
                break
            buf += chunk
            while b"\n" in buf:
                line, buf = buf.split(b"\n", 1)
                rec = json.loads(line); records.append(rec)
                if not killed and (rec["t"] in ("park", "done") or (kill_after is not None and rec["t"] == "ack" and rec["n"] >= kill_after)):
                    os.kill(pid, signal.SIGKILL); killed = True
    finally:
        os.close(r); os.close(pw)
        _, status = os.waitpid(pid, 0)
    how = "hung" if hung else ("sigkill" if os.WIFSIGNALED(status) and os.WTERMSIG(status) == signal.SIGKILL else
                               "exit%d" % os.WEXITSTATUS(status) if os.WIFEXITED(status) else "status%d" % status)
    try:
        with open(path, "rb") as fh:
            data = fh.read()
        os.unlink(path)
    except FileNotFoundError:
        data = None
    return records, data, how


def project(m, uuids):
    """(task index by first appearance, level, kind, type, status) of a logged dict"""
    u = m.get("task_uuid")
    if u not in uuids:
        uuids[u] = len(uuids)
    if "action_status" in m:
        kind = "start" if m["action_status"] == "started" else "end"
        return {"task": uuids[u], "level": m.get("task_level"), "kind": kind, "type": m.get("action_type"), "status": m["action_status"]}
    return {"task": uuids[u], "level": m.get("task_level"), "kind": "msg", "type": m.get("message_type"), "status": None}


def build_forest(msgs):
    """Independent reconstruction of the forest from message dicts.  Returns ordered {uuid: task} with
    task = {"lone": dict} or {"actions": {path tuple: {"start","end","msgs":{level tuple: dict}}}}"""
    forest = {}
    for m in msgs:
        t = forest.setdefault(m["task_uuid"], {"actions": {}, "lone": None})
        lvl = tuple(m["task_level"])
        if m.get("action_type") is not None:
            a = t["actions"].setdefault(lvl[:-1], {"start": None, "end": None, "msgs": {}})
            a["start" if m["action_status"] == "started" else "end"] = m
        elif lvl == (1,):
            t["lone"] = m
        else:
            t["actions"].setdefault(lvl[:-1], {"start": None, "end": None, "msgs": {}})["msgs"][lvl] = m
    for t in forest.values():      # placeholder parents
        for p in list(t["actions"]):
            while p:
                p = p[:-1]; t["actions"].setdefault(p, {"start": None, "end": None, "msgs": {}})
    return forest


def children_of(t, path):
    out = dict(t["actions"][path]["msgs"])
    for q in t["actions"]:
        if q and q[:-1] == path:
            out[q] = ("action", q)
    return [out[k] for k in sorted(out)], sorted(out)


def action_complete(t, path):
    a = t["actions"][path]
    if a["start"] is None or a["end"] is None:
        return False
    kids, levels = children_of(t, path)
    if [l[-1] for l in levels] != list(range(2, a["end"]["task_level"][-1])):
        return False
    return all(action_complete(t, k[1]) for k in kids if isinstance(k, tuple))


def task_complete(t):
    if t["lone"] is not None and not t["actions"]:
        return True
    return () in t["actions"] and t["lone"] is None and action_complete(t, ())


def compare_node(node, t, path, where, out):
    """compare a parsed WrittenAction with the oracle action at `path`"""
    a = t["actions"][path]
    if type(node).__name__ != "WrittenAction":
        out.append("%s: expected an action, parser produced %s" % (where, type(node).__name__)); return
    if list(node.task_level.level) != list(path):
        out.append("%s: action task_level %r, expected %r" % (where, list(node.task_level.level), list(path)))
    for name in ("start", "end"):
        got = getattr(node, name + "_message"); want = a[name]
        if (got is None) != (want is None):
            out.append("%s: %s_message is %s but the log %s one" % (where, name, "missing" if got is None else "present", "has" if want else "has no"))
        elif got is not None and dict(got.as_dict()) != want:
            out.append("%s: %s_message contents differ from the logged line" % (where, name))
    want_status = a["end"]["action_status"] if a["end"] else ("started" if a["start"] else None)
    if node.status != want_status:
        out.append("%s: status %r, expected %r" % (where, node.status, want_status))
    kids, levels = children_of(t, path)
    got_kids = list(node.children)
    if len(got_kids) != len(kids):
        out.append("%s: %d children, expected %d (levels %r)" % (where, len(got_kids), len(kids), [list(l) for l in levels])); return
    for g, k, l in zip(got_kids, kids, levels):
        w = "%s/%s" % (where, list(l))
        if isinstance(k, tuple):
            compare_node(g, t, k[1], w, out)
        elif type(g).__name__ != "WrittenMessage":
            out.append("%s: expected a message, parser produced %s" % (w, type(g).__name__))
        elif dict(g.as_dict()) != k:
            out.append("%s: message contents differ from the logged line" % w)


def check_case(program, kind, crash, records, data, how):
    """the oracle; returns list of (clause, text)"""
    probs = []
    errs = [r for r in records if r["t"] == "error"]
    if errs:
        return [("child-raised", "the logging program raised in the child: %s" % errs[0]["e"])]
    expected_death = "exit17" if crash["mode"] == "exit" else "sigkill"
    if how == "sigkill" and any(r["t"] == "done" for r in records):
        expected_death = "sigkill"   # the crash point lay beyond the end of this run: death after the last call
    if how != expected_death:
        return [("harness", "child ended as %s, expected %s" % (how, expected_death))]
    if data is None:
        return [("harness", "log file was never created")]
    S = [r["m"] for r in records if r["t"] == "msg"]
    acks = max([r["n"] for r in records if r["t"] == "ack"] or [0])
    E = model(program)
    # --- what destinations were given is a prefix of what the program logs (order, task, level, kind, type)
    uu = {}
    for i, m in enumerate(S):
        p = project(m, uu)
        if i >= len(E) or p != E[i]:
            probs.append(("program-order", "message %d handed to destinations is %r, program says %r" % (i, p, E[i] if i < len(E) else None))); break
    if acks > len(S):
        probs.append(("program-order", "%d calls returned but only %d messages reached the destinations" % (acks, len(S))))
    # --- the file: complete lines in order + at most one fragment
    parts = data.split(b"\n"); raw_lines, frag = parts[:-1], parts[-1]
    lines = []
    for i, raw in enumerate(raw_lines):
        try:
            d = json.loads(raw.decode("utf-8"))
            if not isinstance(d, dict):
                raise ValueError("not an object")
        except Exception as e:
            probs.append(("line-corrupt", "complete line %d is not a JSON object (%s): %r" % (i, type(e).__name__, raw[:60]))); break
        lines.append(d)
    n = len(raw_lines)
    if acks > n:
        probs.append(("acked-lost", "%d logging calls had returned but the file has only %d complete lines (%d bytes%s)"
                      % (acks, n, len(data), ", fragment %r..." % frag[:30] if frag else "")))
    for i, d in enumerate(lines):
        if i >= len(S):
            probs.append(("line-mismatch", "line %d was never handed to the destination: %r" % (i, str(d)[:80]))); break
        if d != S[i]:
            probs.append(("line-mismatch", "line %d differs from the %d-th logged message: %r vs %r" % (i, i, str(d)[:70], str(S[i])[:70]))); break
    if frag:
        if n >= len(S):
            probs.append(("fragment", "trailing fragment %r but no message was in flight" % frag[:40]))
        else:
            full = json.dumps(S[n], separators=(",", ":"), ensure_ascii=False).encode("utf-8")
            if not full.startswith(frag):
                probs.append(("fragment", "trailing fragment %r is not a prefix of the in-flight message %r" % (frag[:40], full[:40])))
        if n + 1 > acks + 1:
            probs.append(("fragment", "fragment follows %d complete lines but only %d calls had returned" % (n, acks)))
    if n > acks + 1:
        probs.append(("line-mismatch", "%d complete lines but only %d calls returned (+1 in flight)" % (n, acks)))
    if len(lines) != n:
        return probs            # cannot parse a corrupt file any further
    # --- parsing what is there
    try:
        tasks = list(Parser.parse_stream(lines))
    except Exception as e:
        probs.append(("parse-raises", "Parser.parse_stream raised %s: %s" % (type(e).__name__, str(e)[:100]))); return probs
    forest = build_forest(lines)
    got_uuids = []
    for t in tasks:
        try:
            root = t.root(); got_uuids.append(root.task_uuid)
        except Exception as e:
            probs.append(("parse-misreport", "task.root() raised %s" % type(e).__name__)); got_uuids.append(None)
    if sorted(map(str, got_uuids)) != sorted(forest):
        idx = {u: i for i, u in enumerate(forest)}
        probs.append(("task-count", "parser yielded tasks %r for the %d tasks in the log" % ([idx.get(u, "?") for u in got_uuids], len(forest))))
    totals = {}
    for e in E:
        totals[e["task"]] = totals.get(e["task"], 0) + 1
    uidx = {}
    for d in lines:
        uidx.setdefault(d["task_uuid"], len(uidx))
    present = {}
    for d in lines:
        present[d["task_uuid"]] = present.get(d["task_uuid"], 0) + 1
    for t, u in zip(tasks, got_uuids):
        if u not in forest:
            continue
        ot = forest[u]; where = "task%d" % uidx[u]
        want_complete = task_complete(ot)
        if t.is_complete() != want_complete:
            probs.append(("complete-misreport", "%s: is_complete() is %r, expected %r (%d of %d messages present)"
                          % (where, t.is_complete(), want_complete, present[u], totals.get(uidx[u], -1))))
        if t.is_complete() and present[u] != totals.get(uidx[u], -1):
            probs.append(("complete-misreport", "%s reported complete with %d of its %d messages present" % (where, present[u], totals.get(uidx[u], -1))))
        root = t.root(); out = []
        if ot["lone"] is not None and not ot["actions"]:
            if type(root).__name__ != "WrittenMessage" or dict(root.as_dict()) != ot["lone"]:
                out.append("%s: lone message task parsed as %s" % (where, type(root).__name__))
        elif () in ot["actions"]:
            compare_node(root, ot, (), where, out)
        for o in out[:2]:
            probs.append(("parse-misreport", o))
    return probs


def phase_of(labels, at):
    return {"D": "in-FileDestination", "F": "in-file-object", "H": "between-calls", "E": "in-eliot", "O": "in-library"}.get(labels[at], "?") if labels and 0 <= at < len(labels) else "n/a"


def run_case(program, kind, crash, tmpdir, labels=None):
    for attempt in range(3):       # an unexpected way of dying (e.g. killed by somebody else) is retried, never a property verdict
        records, data, how = run_child(program, kind, crash, tmpdir)
        probs = check_case(program, kind, crash, records, data, how)
        if not (probs and probs[0][0] == "harness"):
            break
        sys.stderr.write("c11: retrying %s: %s\n" % (json.dumps(crash), probs[0][1]))
    nontrivial = any(r["t"] == "msg" for r in records)
    fails = []
    seen = set()
    for clause, text in probs:
        if clause in seen:
            continue
        seen.add(clause)
        fails.append({"signature": {"clause": clause, "file": kind}, "scenario": {"program": program, "file": kind, "crash": crash},
                      "observed": [t for c, t in probs if c == clause][:3] + (["crash phase: " + phase_of(labels, crash.get("at", -1))] if labels else [])})
    return fails, nontrivial, records


def choose_points(labels, rng, cap):
    """all events when there are <= cap of them; else a seeded sample: 40% inside FileDestination.__call__ and the
    events adjacent to it, 20% inside Python-level file objects, 20% in the program between calls, 20% anywhere"""
    T = len(labels)
    if T <= cap:
        return list(range(T))
    pts = set()
    idx = {c: [i for i, l in enumerate(labels) if l == c] for c in "DFHEO"}
    near_d = sorted(set(idx["D"]) | {j for i in idx["D"] for j in (i - 1, i + 1) if 0 <= j < T})
    for xs, share in ((near_d, cap * 2 // 5), (idx["F"], cap // 5), (idx["H"], cap // 5)):
        pts.update(xs if len(xs) <= share else rng.sample(xs, share))
    rest = [i for i in range(T) if i not in pts]
    rng.shuffle(rest)
    pts.update(rest[:max(0, cap - len(pts))])
    return sorted(pts)


def run_group(gi, program, kind, tier, seed, tmpdir, deadline):
    """probe + crash points for one (program, file kind); returns dict"""
    res = {"cases": 0, "distinct": 0, "fails": [], "truncated": False}
    rng = random.Random("%d/%d" % (seed, gi))

    def add(fs, nontrivial):
        res["cases"] += 1; res["distinct"] += 1 if nontrivial else 0
        for f in fs:
            if len(res["fails"]) < 40:
                res["fails"].append(f)
    fs, nt, records = run_case(program, kind, {"mode": "probe"}, tmpdir)
    add(fs, nt)
    tr = [r for r in records if r["t"] == "trace"]
    if not tr:
        return res
    labels = tr[0]["labels"]
    nmsgs = len(model(program))
    cap = QUICK_CAP if tier == "quick" else THOROUGH_CAP
    for at in choose_points(labels, rng, cap):
        if time.time() > deadline or len({json.dumps(f["signature"], sort_keys=True) for f in res["fails"]}) >= 5:
            res["truncated"] = time.time() > deadline; return res
        mode = "external" if at % 7 == 3 else "exit" if at % 11 == 5 else "self"
        fs, nt, _ = run_case(program, kind, {"mode": mode, "at": at}, tmpdir, labels)
        add(fs, nt)
    for k in sorted(set([1, nmsgs // 2, nmsgs]) if tier == "quick" else set(range(1, nmsgs + 1))):
        if k >= 1:
            fs, nt, _ = run_case(program, kind, {"mode": "async", "acks": k}, tmpdir)
            add(fs, nt)
    return res


def warm_up():
    """run the writer and the parser once in this process so that every forked child starts from the same warm state"""
    sink = []
    add_destinations(sink.append)
    try:
        with warnings.catch_warnings():
            warnings.simplefilter("ignore")
            with start_action(action_type="warm"):
                log_message(message_type="warm")
                Message.log(message_type="warm")
        list(Parser.parse_stream(json.loads(json.dumps(sink))))
    finally:
        remove_destination(sink.append)


def main():
    warm_up()
    t0 = time.time()
    tmproot = tempfile.mkdtemp(prefix="c11drv")
    try:
        if args.scenario:
            sc = json.loads(args.scenario)
            if not sc:
                finish(0, 0, [], "single scenario (none given)", False); return
            fails, nt, _ = run_case(sc["program"], sc["file"], sc["crash"], tmproot)
            finish(1, 1 if nt else 0, fails, "single scenario", False)
            return
        rng = random.Random(args.seed)
        quick = args.tier == "quick"
        programs = list(CURATED) + [random_program(rng) for _ in range(3 if quick else 20)]
        groups = []
        for pi, prog in enumerate(programs):
            if quick:
                # two curated programs (default action_type; nesting + failure + unicode) meet every file kind, the others a rotating third
                kinds = KIND_ORDER if pi in (1, 2) else [k for j, k in enumerate(KIND_ORDER) if (j + pi) % 3 == 0]
            else:
                kinds = KIND_ORDER
            groups += [(prog, k) for k in kinds]
        W = max(1, min(6, os.cpu_count() or 1))
        deadline = t0 + (27 if quick else 780)
        pipes = []
        for w in range(W):
            r, wr = os.pipe()
            pid = os.fork()
            if pid == 0:
                code = 0
                try:
                    os.close(r)
                    tmpdir = os.path.join(tmproot, "w%d" % w); os.mkdir(tmpdir)
                    out = []
                    for gi in range(w, len(groups), W):
                        if time.time() > deadline:
                            out.append({"gi": gi, "cases": 0, "distinct": 0, "fails": [], "truncated": True}); continue
                        res = run_group(gi, groups[gi][0], groups[gi][1], args.tier, args.seed, tmpdir, deadline)
                        res["gi"] = gi; out.append(res)
                    data = json.dumps(out).encode("ascii"); i = 0
                    while i < len(data):
                        i += os.write(wr, data[i:])
                except BaseException as e:
                    sys.stderr.write("worker %d failed: %r\n" % (w, e)); code = 4
                finally:
                    os._exit(code)
            os.close(wr); pipes.append((pid, r))
        results = {}; worker_failed = False
        bufs = {r: b"" for _, r in pipes}; open_fds = set(bufs)
        while open_fds:
            ready, _, _ = select.select(list(open_fds), [], [])
            for r in ready:
                chunk = os.read(r, 1 << 16)
                if chunk:
                    bufs[r] += chunk
                else:
                    open_fds.discard(r); os.close(r)
        for pid, r in pipes:
            _, status = os.waitpid(pid, 0)
            try:
                for res in json.loads(bufs[r]):
                    results[res["gi"]] = res
            except Exception:
                worker_failed = True
        cases = sum(r["cases"] for r in results.values()); distinct = sum(r["distinct"] for r in results.values())
        fails = [f for gi in sorted(results) for f in results[gi]["fails"]]
        truncated = any(r["truncated"] for r in results.values()) or len(results) != len(groups)
        if worker_failed:
            fails.insert(0, {"signature": {"clause": "harness", "file": "-"}, "scenario": None, "observed": ["a worker process of the driver died"]})
        finish(cases, distinct, fails, "%d programs (%d curated + %d seeded random, <= 8 operations, nesting <= 3) x %s file kinds = %d groups"
               % (len(programs), len(CURATED), len(programs) - len(CURATED), "rotating subsets of the 15" if quick else "all 15", len(groups)), truncated)
    finally:
        shutil.rmtree(tmproot, ignore_errors=True)


def finish(cases, distinct, fails, space, truncated):
    # one representative per signature, unknown ones first
    by_sig = {}
    for f in fails:
        by_sig.setdefault(json.dumps(f["signature"], sort_keys=True), f)
    known = [f for f in by_sig.values() if f["signature"] in KNOWN_SIGNATURES]
    new = [f for f in by_sig.values() if f["signature"] not in KNOWN_SIGNATURES]
    # prefer variety of clauses among the five reported
    picked = []; clauses = set()
    for f in new:
        if f["signature"]["clause"] not in clauses:
            picked.append(f); clauses.add(f["signature"]["clause"])
    picked += [f for f in new if f not in picked]
    quick = args.tier == "quick"
    print(json.dumps({
        "cases": cases, "distinct": distinct, "failures": picked[:5], "known": known[:5],
        "bound": space + "; crash points: " + "a seeded sample of <= %d line/return trace events per group (40%% in/around FileDestination.__call__, 20%% in Python-level file objects, 20%% between calls, 20%% anywhere; all events when the run has fewer)" % (QUICK_CAP if quick else THOROUGH_CAP)
                 + ", plus death after the last call and parent-side SIGKILL of a free-running child after k acknowledgements" + ("; TRUNCATED by the time budget" if truncated else ""),
        "rule": "scenario = (logging program, kind of file object given to to_file, crash = trace-event index and kill mode self-SIGKILL/os._exit/parent SIGKILL, or async kill after k acks); "
                "each runs the real library in a forked child writing a real file; distinct = distinct scenario, counted only if at least one message had reached the destinations before death"}))


main()
