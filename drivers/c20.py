r"""Native driver for C20 (bounded; real code): the bundled readers eliot.prettyprint (pretty_format, compact_format,
the eliot-prettyprint command) and eliot.filter, over generated Eliot messages and mixed/foreign input streams.
Prints one JSON line: {cases, distinct, failures:[{signature, scenario, observed}], known:[...], bound, rule}.

KNOWN_ON_UNCHANGED_TREE (genuine violations of the property statement on the unchanged /repo; still detected on every
run, but reported under the top-level key "known" instead of "failures"; strings below are Python source literals):

  K1 {"clause": "pretty-value-shown", "cause": "string holds backslash followed by n or t"}
     pretty_format({"task_uuid": "u", "task_level": [1], "timestamp": 1.5, "p": "C:\\new\\table"}) renders the field as
         "  p: 'C:\\\n   |  ew\\\table'"     (C:<backslash><LF>   |  ew<backslash><TAB>able)
     i.e. the letters n and t are swallowed: pretty_format post-processes repr() with .replace("\\n", "\n ") and
     .replace("\\t", "\t"), which also hits the second half of an escaped backslash followed by n / t.  The value shown
     is not the value of the field (Windows paths, regexes, source lines quoted in tracebacks ...).
  K2 {"clause": "compact-single-line", "cause": "field name holds a line break"}
     compact_format of the message emitted by  log_message(message_type="m", **{"a\nb": 1})  is two lines
     ("... a<LF>b=1"): field names are written raw, only values are JSON-encoded.
  K3 {"clause": "cli-no-abort", "line_class": "deep-nesting"}
     an input line made of 20000 "[" (any deeply nested JSON prefix): json.loads raises RecursionError, which is not a
     ValueError, so eliot-prettyprint dies with a traceback and the Eliot lines after it are never rendered.
  K4 {"clause": "cli-no-abort", "line_class": "ill-typed-required"}
     a JSON object that has the three required fields with foreign types/values, e.g.
     {"task_uuid": "x", "task_level": 1, "timestamp": 1.0}  (TypeError: 'int' object is not iterable),
     {"task_uuid": "x", "task_level": [1], "timestamp": 1e20}  (OverflowError),
     {"task_uuid": "x", "task_level": [1], "timestamp": "a"}  (TypeError): passes the "is it an Eliot message" test and
     then aborts the command inside the formatter.
"""
import argparse, ast, io, itertools, json, math, os, random, re, subprocess, sys, tempfile, time, uuid, warnings
from datetime import datetime, timedelta
from fractions import Fraction

ap = argparse.ArgumentParser(); ap.add_argument("--tier", default="quick"); ap.add_argument("--seed", type=int, default=0)
ap.add_argument("--scenario"); args = ap.parse_args()

warnings.simplefilter("ignore", DeprecationWarning); warnings.simplefilter("ignore", SyntaxWarning)
# The default rendering must be UTC whatever the local zone is: run the whole driver in a non-UTC zone (restored at exit).
_OLD_TZ = os.environ.get("TZ")
os.environ["TZ"] = "XTZ-05:30"; time.tzset()
LOCAL_OFFSET = 5 * 3600 + 30 * 60

import eliot, eliot.prettyprint as pp, eliot.filter as ef
from eliot import start_action, log_message, write_traceback, add_destinations, remove_destination, FileDestination
from eliot.prettyprint import pretty_format, compact_format

KNOWN_SIGNATURES = [
    {"clause": "pretty-value-shown", "cause": "string holds backslash followed by n or t"},
    {"clause": "compact-single-line", "cause": "field name holds a line break"},
    {"clause": "cli-no-abort", "line_class": "deep-nesting"},
    {"clause": "cli-no-abort", "line_class": "ill-typed-required"},
]

# ------------------------------------------------------------------------------------------------ oracle helpers
REQUIRED = ("task_uuid", "task_level", "timestamp")
FIRST = ["action_type", "message_type", "action_status"]
SPECIAL = set(REQUIRED) | set(FIRST)
EPOCH = datetime(1970, 1, 1)
TS_RE = re.compile(r"^(\d{4})-(\d\d)-(\d\d)T(\d\d):(\d\d):(\d\d)(?:\.(\d{6}))?(Z?)$")
HALF_US = Fraction(1, 2 * 10 ** 6) + Fraction(1, 10 ** 9)  # half a microsecond + slack for the float product inside datetime


def canon(v):
    """Type-strict canonical form (1, 1.0 and true differ; dict order irrelevant)."""
    return json.dumps(v, sort_keys=True)


def short(s, n=160):
    s = s if isinstance(s, str) else repr(s)
    return s if len(s) <= n else s[:n] + "...(%d chars)" % len(s)


def field_order(msg):
    return [f for f in FIRST if f in msg] + sorted(k for k in msg if k not in SPECIAL)


def level_text(msg):
    return "/" + "/".join("%d" % i for i in msg["task_level"])


def check_ts(text, ts, local):
    m = TS_RE.match(text)
    if not m:
        return "timestamp %r is not an ISO date-time to the microsecond" % (text,)
    if bool(m.group(8)) == bool(local):
        return "timestamp %r: 'Z' suffix %s" % (text, "present for local time" if local else "missing for UTC")
    try:
        dt = datetime(*[int(g) for g in m.groups()[:6]], int(m.group(7) or 0))
    except ValueError as e:
        return "timestamp %r is not a date: %s" % (text, e)
    micros = (dt - EPOCH) // timedelta(microseconds=1)
    if local:
        micros -= LOCAL_OFFSET * 10 ** 6
    if abs(Fraction(micros, 10 ** 6) - Fraction(ts)) > HALF_US:
        return "timestamp %r rendered as %r (%s), off by more than half a microsecond" % (ts, text, "local +05:30" if local else "UTC")
    return None


def holds_bs_nt(v):
    if isinstance(v, str):
        return "\\n" in v or "\\t" in v
    if isinstance(v, list):
        return any(holds_bs_nt(x) for x in v)
    if isinstance(v, dict):
        return any(holds_bs_nt(k) or holds_bs_nt(x) for k, x in v.items())
    return False


def decode_rendered(text):
    """Read back a value as displayed by pretty_format (continuation prefixes already removed): inside a string literal
    a line break followed by one space stands for a newline and a raw tab for a tab; everything else is Python literal
    syntax (adjacent string literals concatenate, brackets may wrap over lines)."""
    out = []; i = 0; n = len(text); q = None
    while i < n:
        c = text[i]
        if q is None:
            if c in "'\"": q = c
            out.append(c); i += 1
        elif c == "\\":
            out.append(text[i:i + 2]); i += 2
        elif c == q:
            q = None; out.append(c); i += 1
        elif c == "\n":
            if text[i + 1:i + 2] != " ":
                raise ValueError("line break inside a string literal without the continuation space")
            out.append("\\n"); i += 2
        elif c == "\t":
            out.append("\\t"); i += 1
        else:
            out.append(c); i += 1
    if q is not None:
        raise ValueError("unterminated string literal")
    return ast.literal_eval("".join(out))


def check_pretty(msg, local=False):
    """-> list of (signature, observed-string)"""
    probs = []
    try:
        out = pretty_format(msg, True) if local else pretty_format(msg)
    except Exception as e:
        return [({"clause": "accepts-every-message", "fn": "pretty_format", "exc": type(e).__name__},
                 "pretty_format raised %r for timestamp %r" % (e, msg.get("timestamp")))]
    if not isinstance(out, str):
        return [({"clause": "accepts-every-message", "fn": "pretty_format", "exc": "not-str"}, "returned %r" % type(out))]
    head = "%s -> %s\n" % (msg["task_uuid"], level_text(msg))
    if not out.startswith(head):
        return [({"clause": "pretty-header", "part": "uuid/level"}, "first line %r, expected %r" % (short(out.split("\n")[0]), head[:-1]))]
    pos = len(head)
    nl = out.find("\n", pos)
    if nl < 0:
        return [({"clause": "pretty-header", "part": "timestamp"}, "no second line: %r" % short(out))]
    p = check_ts(out[pos:nl], msg["timestamp"], local)
    if p:
        probs.append(({"clause": "pretty-header", "part": "timestamp", "local": bool(local)}, p))
    pos = nl + 1
    for k in field_order(msg):
        fhead = "  %s: " % k
        if not out.startswith(fhead, pos):
            probs.append(({"clause": "pretty-fields-complete-ordered", "first_field": k in FIRST},
                          "expected field %r (order: type and status first, then the rest sorted) at offset %d, found %r" % (k, pos, short(out[pos:pos + 60]))))
            return probs
        pos += len(fhead)
        indent = " " * (2 + len(k)) + "| "
        parts = []
        while True:
            nl = out.find("\n", pos)
            if nl < 0:
                probs.append(({"clause": "pretty-fields-complete-ordered", "part": "line-terminator"}, "field %r is not terminated by a newline" % k))
                return probs
            parts.append(out[pos:nl]); pos = nl + 1
            if out.startswith(indent, pos):
                pos += len(indent); continue
            break
        shown = "\n".join(parts)
        v = msg[k]
        try:
            back = decode_rendered(shown); ok = canon(back) == canon(v); why = "reads back as %s" % short(repr(back), 100)
        except Exception as e:
            ok = False; why = "does not read back (%s: %s)" % (type(e).__name__, short(str(e), 80))
        if not ok:
            if holds_bs_nt(v):
                sig = {"clause": "pretty-value-shown", "cause": "string holds backslash followed by n or t"}
            else:
                sig = {"clause": "pretty-value-shown", "value_type": type(v).__name__}
            probs.append((sig, "field %r = %s is displayed as %s which %s" % (k, short(repr(v), 100), short(repr(shown), 140), why)))
    if pos != len(out):
        probs.append(({"clause": "pretty-fields-complete-ordered", "part": "extra-output"}, "unexpected text after the last field: %r" % short(out[pos:])))
    return probs


def check_compact(msg, local=False):
    try:
        out = compact_format(msg, True) if local else compact_format(msg)
    except Exception as e:
        return [({"clause": "accepts-every-message", "fn": "compact_format", "exc": type(e).__name__},
                 "compact_format raised %r for timestamp %r" % (e, msg.get("timestamp")))]
    if not isinstance(out, str):
        return [({"clause": "accepts-every-message", "fn": "compact_format", "exc": "not-str"}, "returned %r" % type(out))]
    probs = []
    if "\n" in out or "\r" in out:
        if any("\n" in k or "\r" in k for k in msg):
            sig = {"clause": "compact-single-line", "cause": "field name holds a line break"}
        else:
            sig = {"clause": "compact-single-line"}
        probs.append((sig, "compact_format output spans several lines: %r" % short(out)))
    head = "%s%s " % (msg["task_uuid"], level_text(msg))
    if not out.startswith(head):
        probs.append(({"clause": "compact-header", "part": "uuid/level"}, "starts %r, expected %r" % (short(out, 80), head)))
        return probs
    pos = len(head)
    end = out.find(" ", pos)
    if end < 0: end = len(out)
    p = check_ts(out[pos:end], msg["timestamp"], local)
    if p:
        probs.append(({"clause": "compact-header", "part": "timestamp", "local": bool(local)}, p))
    pos = end
    dec = json.JSONDecoder()
    order = field_order(msg)
    for k in order:
        khead = " %s=" % k
        if not out.startswith(khead, pos):
            probs.append(({"clause": "compact-fields-complete-ordered", "first_field": k in FIRST},
                          "expected %r at offset %d, found %r" % (khead, pos, short(out[pos:pos + 60]))))
            return probs
        pos += len(khead)
        try:
            val, stop = dec.raw_decode(out, pos)
        except ValueError as e:
            probs.append(({"clause": "compact-value-json"}, "value of %r is not JSON: %r (%s)" % (k, short(out[pos:pos + 60]), e)))
            return probs
        if canon(val) != canon(msg[k]):
            probs.append(({"clause": "compact-value-json", "value_type": type(msg[k]).__name__},
                          "field %r = %s shown as %s" % (k, short(repr(msg[k]), 100), short(out[pos:stop], 100))))
        pos = stop
    if out[pos:] not in ("", " "):
        probs.append(({"clause": "compact-fields-complete-ordered", "part": "extra-output"}, "unexpected text after the last field: %r" % short(out[pos:])))
    return probs


# ------------------------------------------------------------------------------------------------ generators
SCALARS = [0, 1, -1, 7, 2 ** 53 + 1, 10 ** 30, 0.5, -1.25e-07, 1e22, 3.0, True, False, None,
           "", "x", "two words", "multi\nline", "tab\tsep", "trailing\n", "\nleading", "a\n\nb", "it's", 'say "hi"',
           "both ' and \"", "unicode \u00e9 \u00fc \u6f22\u5b57 \U0001F600", "ctl \x00\x1f\x7f", "\u2028sep\u2029", "back\\slash", "C:\\dir\\file",
           "ends with backslash\\", "\\", "\\\n", "long " * 20, "longline number\n" * 6, "w" * 90, "=", "k=v a=b", "| pipe", "  x: y",
           "%s %d {} {0}", "\r\n", "crlf\r\nline", "Traceback (most recent call last):\n  File \"x.py\", line 1, in <module>\n    f()\nValueError: bad\n",
           "C:\\new\\table", "regex \\n+\\t*"]
NESTED = [[], {}, [1, 2, 3], {"a": 1}, [[1, [2, [3]]]], {"a": {"b": {"c": None}}}, list(range(30)), {"key%02d" % i: i for i in range(12)},
          ["multi\nline", {"in\nkey": "v\tv"}], [{"a": [1, 2, {"b": None}]}], ["long string number %d" % i for i in range(6)],
          {"text": "first line is long enough to wrap around\nsecond line\n", "n": [1.5, None, True]}, [""], [[]], [{}], {"": ""}]
KEYS = ["x", "key", "a_b", "CamelCase", "with space", "k=v", "uni-\u00e9", "\u6f22", "0", "zzz", "_private", "a.b", "a:b", "exception", "reason",
        "traceback", "|", "a|b", "k" * 40, "", "action_statusx", "Action", "message_typ", "action_typ", "task_uui", "timestamp2", "~", "a\nb"]
NKEYS = ["a", "b", "c", "k 1", "\u00e9", "in\nkey", "z" * 12, "n"]
WORDS = ["alpha", "beta", " ", " ", "\n", "\t", "'", '"', "\u00e9", "\u6f22", "\\", ":", "|", "=", "  ", "0", "{}", "gamma delta", "\r", "\x07", "\U0001F600"]
TS_POOL = [0.0, 0.9999996, 1.0, 86399.9999997, 1443193754.0, 1443193754.123455, 1443193754.5, 1443193754.999999, 1443193754.9999998,
           1443193754.9999995, 1443193754.0000005, 1443193754.0000002, 1451606399.9999998, 951868799.9999999, 2000000000.000001,
           4102444799.9999995, 1443193754, 0, 1234567890.000001, 1700000000.9999993, math.nextafter(1443193755.0, 0.0), 999999999.9999999]
LEVELS = [[1], [1, 1], [2, 1], [1, 2], [3, 4, 5, 6], [10, 1], [1, 12, 123], [1, 1, 1, 1, 1, 1, 1, 2], [2, 1, 3, 1, 4, 1, 5, 1, 6, 1, 7, 12], [4000000000, 1]]


def rand_string(rng):
    return "".join(rng.choice(WORDS) for _ in range(rng.randint(0, 9)))


def rand_value(rng, depth=0):
    r = rng.random()
    if depth >= 3 or r < 0.45:
        return rng.choice(SCALARS)
    if r < 0.6:
        return rand_string(rng)
    if r < 0.65:
        return rng.choice([rng.randint(-10 ** 6, 10 ** 6), rng.random() * 10 ** rng.randint(-8, 12), rng.getrandbits(70)])
    if r < 0.72:
        return rng.choice(NESTED)
    if r < 0.87:
        return [rand_value(rng, depth + 1) for _ in range(rng.randint(0, 5))]
    return {rng.choice(NKEYS): rand_value(rng, depth + 1) for _ in range(rng.randint(0, 4))}


def rand_ts(rng):
    r = rng.random()
    s = rng.randint(0, 4102444800)
    if r < 0.25:
        return rng.choice(TS_POOL)
    if r < 0.45:  # within a microsecond below a whole second (carry into seconds/minutes/days)
        return s - rng.choice([1e-7, 2e-7, 3e-7, 4e-7, 4.9e-7, 5e-7, 6e-7, 9e-7]) if s else 0.9999996
    if r < 0.55:
        return float(s)
    if r < 0.65:  # on/near a half-microsecond boundary
        return s + rng.randint(0, 999999) / 1e6 + rng.choice([5e-7, 4e-7, 6e-7])
    return s + rng.random()


def rand_uuid(rng):
    return str(uuid.UUID(int=rng.getrandbits(128), version=4))


def rand_message(rng, nfields=None):
    m = {"task_uuid": rand_uuid(rng), "timestamp": rand_ts(rng),
         "task_level": rng.choice(LEVELS) if rng.random() < 0.6 else [rng.randint(1, 300) for _ in range(rng.randint(1, 12))]}
    kind = rng.random()
    if kind < 0.4:
        m["message_type"] = rng.choice(["my:message", "eliot:traceback", "", "sys:x y"])
    elif kind < 0.8:
        m["action_type"] = rng.choice(["app:act", "", "visited"]); m["action_status"] = rng.choice(["started", "succeeded", "failed"])
    elif kind < 0.9:
        for f in FIRST:
            if rng.random() < 0.5: m[f] = rng.choice(["s", "multi\nline", ""])
    n = rng.randint(0, 6) if nfields is None else nfields
    for _ in range(n):
        k = rng.choice(KEYS)
        if k == "a\nb" and rng.random() < 0.7: k = "ab"
        m[k] = rand_value(rng)
    return json.loads(json.dumps(m))


def base_message(**kw):
    m = {"task_uuid": "8c668cde-235b-4872-af4e-caea524bd1c0", "task_level": [1, 2], "timestamp": 1443193754.123455}
    m.update(kw); return json.loads(json.dumps(m))


# line specs: a str (bytes as latin-1, without the line terminator) or [prefix, unit, count, suffix]
def spec_bytes(spec):
    if isinstance(spec, str):
        return spec.encode("latin-1")
    pre, unit, count, suf = spec
    return pre.encode("latin-1") + unit.encode("latin-1") * count + suf.encode("latin-1")


def L(b):
    return b.decode("latin-1")


def msg_line(m):
    return L(json.dumps(m).encode("utf-8"))


def required_subsets():
    full = {"task_uuid": "8bc6ded2-446c-4b6d-abbc-4f21f1c9a7d8", "task_level": [1], "timestamp": 1443193958.0}
    out = []
    for r in range(0, 3):
        for ks in itertools.combinations(REQUIRED, r):
            d = {k: full[k] for k in ks}
            out.append(json.dumps(d)); d2 = dict(d); d2["message_type"] = "m"; d2["extra"] = [1]
            out.append(json.dumps(d2))
    out.append(json.dumps({"wrapped": full})); out.append(json.dumps([full])); out.append(json.dumps({"Task_uuid": "x", "task_level ": [1], "timestamp": 1.0, "task-uuid": 1}))
    return out


FOREIGN = ["", " ", "\t", "NOT JSON!!", "{'single': 'quotes'}", "{", "}", "]", '{"a": 1', "[1, 2", '{"a": 1,}', "123", "-0.5", "1e5", "0", "null", "true", "false",
           '"just a string"', '""', "[]", "[1,2]", '["task_uuid", "task_level", "timestamp"]', "[[],[{}]]", "NaN", "Infinity", "nul", "Traceback (most recent call last):",
           "2015-09-25 15:09:14 INFO something happened", "caf\xe9 ol\xe9", '{"task_uuid": "abc\xc3', "\x80\x81\xfe\xff\x00\x01", "\xff\xfe{\x00", "\x00", "\xef\xbb\xbf",
           "\xef\xbb\xbfnot json", "\xc3", "\xe2\x82", "\xf0\x9f\x98", "\xed\xa0\x80", "\xc0\xaf", '"\xff"', '{"k": "\xe9"}', "\r", "{}\r", "5\r", "x\r", "\t{} ", " [ ] ",
           '{"a":1}{"b":2}', '{"a":1} trailing', "\x1b[31mred\x1b[0m", "%s %d {0} {}", "b'bytes'", "'", "\\", ["1", "0", 5000, ""], ["", "9", 300, ""],
           ["\"", "a", 3000, "\""], ["[", "[", 600, ""], ["", "\xff", 200, ""]] + required_subsets()
DEEP = [["", "[", 20000, ""], ["", "[", 20000, "1" + "]" * 5], ["{\"a\":", "[", 20000, ""]]
ILL_TYPED = ['{"task_uuid": "x", "task_level": 1, "timestamp": 1.0}', '{"task_uuid": "x", "task_level": [1], "timestamp": 1e20}',
             '{"task_uuid": "x", "task_level": [1], "timestamp": "a"}', '{"task_uuid": "x", "task_level": null, "timestamp": null}',
             '{"task_uuid": "x", "task_level": [1], "timestamp": [1]}', '{"task_uuid": "x", "task_level": [1], "timestamp": -1e18, "message_type": "m"}']


def classify(line):
    """line: bytes incl. terminator -> (class, decoded value).  Independent of eliot: json from the stdlib plus the
    documented definition of an Eliot message (an object with task_uuid, task_level, timestamp)."""
    try:
        v = json.loads(line)
    except RecursionError:
        return "deep-nesting", None
    except ValueError:
        return "notjson", None
    if not isinstance(v, dict) or any(f not in v for f in REQUIRED):
        return "noteliot", v
    ts = v["timestamp"]; lv = v["task_level"]
    well = (isinstance(v["task_uuid"], str) and isinstance(lv, list) and all(type(i) is int for i in lv)
            and type(ts) in (int, float) and ts == ts and 0 <= ts < 253402300000)
    return ("eliot" if well else "ill-typed-required"), v


# ------------------------------------------------------------------------------------------------ running the commands
class Feed(object):
    """binary stdin replacement that remembers which line was handed out last"""
    def __init__(self, data): self.f = io.BytesIO(data); self.i = -1
    def __iter__(self):
        for i, l in enumerate(self.f):
            self.i = i; yield l


def run_pp_main(argv, data):
    feed = Feed(data); out = io.StringIO()
    old = (pp.stdin, pp.stdout, sys.argv)
    pp.stdin, pp.stdout, sys.argv = feed, out, ["eliot-prettyprint"] + list(argv)
    exc = None
    try:
        pp._main()
    except BaseException as e:  # SystemExit, RecursionError ... all count as aborting
        if isinstance(e, KeyboardInterrupt): raise
        exc = e
    finally:
        pp.stdin, pp.stdout, sys.argv = old
    return out.getvalue(), exc, feed.i


def split_lines(data):
    return list(io.BytesIO(data))


def check_cli_output(argv, data, out, what="eliot-prettyprint"):
    compact = "-c" in argv or "--compact" in argv; local = "-l" in argv or "--local-timezone" in argv
    fmt = compact_format if compact else pretty_format
    probs = []; pos = 0
    for i, line in enumerate(split_lines(data)):
        cls, v = classify(line)
        content = line[:-1] if line.endswith(b"\n") else line
        variants = [content, content.rstrip(b"\r\n")]
        if cls == "eliot":
            try:
                cands = [(fmt(v, True) if local else fmt(v)) + "\n"]
            except Exception as e:
                probs.append(({"clause": "accepts-every-message", "fn": fmt.__name__, "exc": type(e).__name__}, "line %d: %s raised %r" % (i, fmt.__name__, e)))
                return probs
        elif cls in ("notjson", "deep-nesting"):
            cands = ["Not JSON: %r\n\n" % (x,) for x in variants]
        else:
            cands = ["Not an Eliot message: %r\n\n" % (x,) for x in variants]
        hit = next((c for c in cands if out.startswith(c, pos)), None)
        if hit is None:
            probs.append(({"clause": "cli-line-report", "line_class": cls, "compact": compact},
                          "%s %s: input line %d (%s) %s: expected output %s, found %s" % (what, argv, i, cls, short(repr(content), 80), short(repr(cands[0]), 120), short(repr(out[pos:pos + 120]), 140))))
            return probs
        pos += len(hit)
    if pos != len(out):
        probs.append(({"clause": "cli-line-report", "line_class": "extra-output", "compact": compact}, "%s %s: unexpected extra output %s" % (what, argv, short(repr(out[pos:]), 120))))
    return probs


def check_cli(argv, data):
    out, exc, idx = run_pp_main(argv, data)
    if exc is not None:
        lines = split_lines(data)
        cls = classify(lines[idx])[0] if 0 <= idx < len(lines) else "no-line"
        sig = {"clause": "cli-no-abort", "line_class": cls}
        if cls not in ("deep-nesting", "ill-typed-required"): sig["exc"] = type(exc).__name__
        return [(sig, "eliot-prettyprint %s aborted with %s on input line %d (%s) %s after writing %d characters; %d later lines unprocessed"
                 % (argv, short(repr(exc), 100), idx, cls, short(repr(lines[idx]) if 0 <= idx < len(lines) else "-", 70), len(out), len(lines) - idx - 1))]
    return check_cli_output(argv, data, out)


def stream_bytes(sc):
    lines = [spec_bytes(s) for s in sc["lines"]]
    data = b"\n".join(lines)
    if lines and sc.get("final_newline", True): data += b"\n"
    return data


# ------------------------------------------------------------------------------------------------ filter oracle
class Skip(object): pass
SKIPPED = Skip()
BASE_DT = datetime(2015, 9, 25, 15, 9, 14)
FILTERS = {
    "identity": ("J", lambda J, sel: J),
    "skip-all": ("SKIP", lambda J, sel: SKIPPED),
    "skip-selected": ("SKIP if isinstance(J, dict) and J.get('i') in %(sel)s else J", lambda J, sel: SKIPPED if isinstance(J, dict) and J.get("i") in sel else J),
    "keep-selected": ("J if isinstance(J, dict) and J.get('i') in %(sel)s else SKIP", lambda J, sel: J if isinstance(J, dict) and J.get("i") in sel else SKIPPED),
    "field-v": ("J.get('v') if isinstance(J, dict) else SKIP", lambda J, sel: J.get("v") if isinstance(J, dict) else SKIPPED),
    "field-v-index": ("J['v'] if J['i'] not in %(sel)s else SKIP", lambda J, sel: J["v"] if J["i"] not in sel else SKIPPED),
    "const-0": ("0", lambda J, sel: 0), "const-none": ("None", lambda J, sel: None), "const-empty-str": ("''", lambda J, sel: ""),
    "const-empty-list": ("[]", lambda J, sel: []), "const-false": ("False", lambda J, sel: False), "const-empty-dict": ("{}", lambda J, sel: {}),
    "pair": ("[J, J]", lambda J, sel: [J, J]), "wrapped": ("{'wrapped': J, 'n': 1}", lambda J, sel: {"wrapped": J, "n": 1}),
    "truthiness": ("bool(J)", lambda J, sel: bool(J)),
    "datetime": ("datetime(2015, 9, 25, 15, 9, 14) + timedelta(seconds=J['i'], microseconds=J['i'] %% 3)",
                 lambda J, sel: (BASE_DT + timedelta(seconds=J["i"], microseconds=J["i"] % 3)).isoformat()),
    "usage-example": ("J['v'] if J.get('message_type') == 'my:message' else SKIP", lambda J, sel: J["v"] if J.get("message_type") == "my:message" else SKIPPED),
}
NEEDS_DICT = {"field-v-index", "datetime", "usage-example"}


class FakeSys(object):
    def __init__(self, argv, text):
        self.argv = argv; self.stdin = io.StringIO(text); self.stdout = io.StringIO(); self.stderr = io.StringIO()


def check_filter(sc):
    name = sc["filter"]; sel = sc.get("sel", []); mode = sc["mode"]
    expr_t, oracle = FILTERS[name]
    expr = expr_t % {"sel": repr(sorted(sel))}
    raw = [spec_bytes(s) for s in sc["lines"]]
    expected = []
    for b in raw:
        r = oracle(json.loads(b), set(sel))
        if r is not SKIPPED: expected.append(r)
    probs = []
    try:
        if mode == "bytes":
            o = io.StringIO(); ef.EliotFilter(expr, [b + b"\n" for b in raw], o).run(); out = o.getvalue()
        elif mode == "str":
            o = io.StringIO(); ef.EliotFilter(expr, iter([b.decode("utf-8") + "\n" for b in raw]), o).run(); out = o.getvalue()
        elif mode == "file":
            fd, path = tempfile.mkstemp(prefix="c20-")
            try:
                with os.fdopen(fd, "wb") as f: f.write(b"".join(b + b"\n" for b in raw))
                with open(path, "rb") as f:
                    o = io.StringIO(); ef.EliotFilter(expr, f, o).run(); out = o.getvalue()
            finally:
                os.unlink(path)
        else:
            fs = FakeSys(["eliot-filter", expr], "".join(b.decode("utf-8") + "\n" for b in raw))
            rc = ef.main(fs); out = fs.stdout.getvalue()
            if rc != 0: probs.append(({"clause": "filter-main", "part": "exit-code"}, "main() returned %r" % (rc,)))
            if fs.stderr.getvalue(): probs.append(({"clause": "filter-main", "part": "stderr"}, "main() wrote to stderr: %r" % short(fs.stderr.getvalue())))
    except Exception as e:
        return [({"clause": "filter-every-line", "filter": name, "exc": type(e).__name__}, "eliot.filter %r (%s input) raised %r" % (expr, mode, e))]
    probs += compare_filter_output(name, expr, out, expected, len(raw))
    return probs


def compare_filter_output(name, expr, out, expected, nlines):
    if out and not out.endswith("\n"):
        return [({"clause": "filter-every-line", "filter": name, "part": "line-terminator"}, "output does not end with a newline: %r" % short(out[-60:]))]
    recs = out.split("\n")[:-1]
    if len(recs) != len(expected):
        return [({"clause": "filter-skip-exactly" if "SKIP" in expr else "filter-every-line", "filter": name},
                 "expression %r over %d lines: %d output lines, expected %d (first outputs %s)" % (expr, nlines, len(recs), len(expected), short(repr(recs[:4]), 120)))]
    for j, (r, e) in enumerate(zip(recs, expected)):
        try:
            got = canon(json.loads(r))
        except ValueError:
            return [({"clause": "filter-json-encoding", "filter": name}, "output line %d is not JSON: %r" % (j, short(r)))]
        if got != canon(e):
            return [({"clause": "filter-json-encoding" if name != "identity" else "filter-identity", "filter": name},
                     "expression %r: output line %d is %s, expected the JSON encoding of %s" % (expr, j, short(r, 100), short(repr(e), 100)))]
    return []


def check_filter_usage(argv):
    fs = FakeSys(argv, '{"a": 1}\n')
    try:
        rc = ef.main(fs)
    except Exception as e:
        return [({"clause": "filter-main", "part": "usage", "exc": type(e).__name__}, "main(argv=%r) raised %r" % (argv, e))]
    probs = []
    if rc != 1: probs.append(({"clause": "filter-main", "part": "usage"}, "main(argv=%r) returned %r, expected 1" % (argv, rc)))
    if fs.stdout.getvalue(): probs.append(({"clause": "filter-main", "part": "usage"}, "main(argv=%r) wrote output %r" % (argv, short(fs.stdout.getvalue()))))
    if "Usage" not in fs.stderr.getvalue(): probs.append(({"clause": "filter-main", "part": "usage"}, "main(argv=%r) printed no usage on stderr" % (argv,)))
    return probs


# ------------------------------------------------------------------------------------------------ real emission
RESERVED_KW = {"message_type", "action_type", "logger", "_serializers", "action_status", "task_uuid", "task_level", "timestamp", "self", "exc_info"}


class FakeClock(object):
    def __init__(self, times): self.times = list(times); self.n = 0
    def __call__(self):
        t = self.times[self.n % len(self.times)]; self.n += 1; return t


def emit(sc):
    """Have Eliot itself produce a causal tree into a FileDestination; returns the bytes written."""
    shape = sc["shape"]; fields = {k: v for k, v in sc["fields"].items() if k not in RESERVED_KW}; reason = sc.get("reason", "bad\nthing")
    buf = io.BytesIO(); dest = FileDestination(file=buf)
    clock = FakeClock([float(t) for t in sc["times"]])
    real_time = time.time; real_mtime = eliot._message.Message.__dict__.get("_time")
    add_destinations(dest)
    time.time = clock
    if real_mtime is not None: eliot._message.Message._time = staticmethod(clock)
    try:
        if shape == "message":
            log_message(message_type=sc.get("type", "my:message"), **fields)
        elif shape == "action-ok":
            with start_action(action_type=sc.get("type", "app:act"), **fields) as a:
                log_message(message_type="my:message", **fields)
                a.add_success_fields(**fields)
        elif shape == "action-fail":
            try:
                with start_action(action_type=sc.get("type", "app:act"), **fields):
                    raise ValueError(reason)
            except ValueError:
                pass
        elif shape == "traceback":
            with start_action(action_type="outer"):
                try:
                    raise KeyError(reason)
                except KeyError:
                    write_traceback()
        elif shape == "nested":
            with start_action(action_type="l1", **fields):
                with start_action(action_type="l2"):
                    for i in range(3):
                        with start_action(action_type="l3", i=i):
                            log_message(message_type="leaf", **fields)
                try:
                    with start_action(action_type="l2b"):
                        raise RuntimeError(reason)
                except RuntimeError:
                    pass
        else:
            raise SystemExit("unknown shape %r" % shape)
    finally:
        time.time = real_time
        if real_mtime is not None: eliot._message.Message._time = real_mtime
        remove_destination(dest)
    return buf.getvalue()


# ------------------------------------------------------------------------------------------------ scenarios
def run_scenario(sc):
    kind = sc["kind"]
    probs = []
    if kind == "fmt":
        m = sc["msg"]
        for local in (False, True):
            probs += check_pretty(m, local); probs += check_compact(m, local)
    elif kind == "emit":
        data = emit(sc)
        lines = split_lines(data)
        want = {"message": 1, "action-ok": 3, "action-fail": 2, "traceback": 3, "nested": 15}[sc["shape"]]
        if len(lines) != want:
            probs.append(({"clause": "driver-emission"}, "expected %d emitted messages, got %d" % (want, len(lines))))
        for ln in lines:
            cls, m = classify(ln)
            if cls != "eliot":
                probs.append(({"clause": "driver-emission"}, "emitted line classified %s: %r" % (cls, short(repr(ln))))); continue
            if m["timestamp"] not in [float(t) for t in sc["times"]]:
                probs.append(({"clause": "driver-emission"}, "emitted timestamp %r is not from the fake clock" % (m["timestamp"],)))
            for local in (False, True):
                probs += check_pretty(m, local); probs += check_compact(m, local)
        for argv in ([], ["-c"]):
            probs += check_cli(argv, data)
        o = io.StringIO()
        try:
            ef.EliotFilter("J", io.BytesIO(data), o).run()
            probs += compare_filter_output("identity", "J", o.getvalue(), [json.loads(l) for l in lines], len(lines))
        except Exception as e:
            probs.append(({"clause": "filter-every-line", "filter": "identity", "exc": type(e).__name__}, "eliot.filter J raised %r on emitted messages" % (e,)))
    elif kind == "cli":
        probs += check_cli(sc["argv"], stream_bytes(sc))
    elif kind == "filter":
        probs += check_filter(sc)
    elif kind == "filter-usage":
        probs += check_filter_usage(sc["argv"])
    elif kind == "subproc":
        probs += run_subproc(sc)
    else:
        raise SystemExit("unknown scenario kind %r" % (kind,))
    return probs


def run_subproc(sc):
    env = dict(os.environ); env["PYTHONIOENCODING"] = "utf-8"; env["PYTHONWARNINGS"] = "ignore"
    probs = []
    if sc["cmd"] == "prettyprint":
        data = stream_bytes(sc)
        p = subprocess.run([sys.executable, "-c", "from eliot.prettyprint import _main; _main()"] + sc["argv"], input=data, stdout=subprocess.PIPE,
                           stderr=subprocess.PIPE, env=env, cwd=tempfile.gettempdir(), timeout=120)
        if p.returncode != 0:
            tail = p.stderr.decode("utf-8", "replace").strip().split("\n")[-1]
            exc = tail.split(":")[0].split(".")[-1]
            out = p.stdout.decode("utf-8", "replace"); n = 0
            # which line killed it: the first line whose report is absent
            lines = split_lines(data); cls = "unknown"
            for i in range(len(lines), -1, -1):
                if not check_cli_output(sc["argv"], b"".join(lines[:i]), out):
                    cls = classify(lines[i])[0] if i < len(lines) else "no-line"; n = i; break
            sig = {"clause": "cli-no-abort", "line_class": cls}
            if cls not in ("deep-nesting", "ill-typed-required"): sig["exc"] = exc
            return [(sig, "real process eliot-prettyprint %s exited with %d at input line %d (%s): %s" % (sc["argv"], p.returncode, n, cls, short(tail, 120)))]
        probs += check_cli_output(sc["argv"], data, p.stdout.decode("utf-8"), what="real process eliot-prettyprint")
    else:
        name = sc["filter"]; sel = sc.get("sel", []); expr_t, oracle = FILTERS[name]; expr = expr_t % {"sel": repr(sorted(sel))}
        raw = [spec_bytes(s) for s in sc["lines"]]
        p = subprocess.run([sys.executable, "-m", "eliot.filter", expr], input=b"".join(b + b"\n" for b in raw), stdout=subprocess.PIPE,
                           stderr=subprocess.PIPE, env=env, cwd=tempfile.gettempdir(), timeout=120)
        if p.returncode != 0:
            return [({"clause": "filter-every-line", "filter": name, "part": "process"}, "python -m eliot.filter %r exited with %d: %s" % (expr, p.returncode, short(p.stderr.decode("utf-8", "replace")[-150:])))]
        expected = [r for r in (oracle(json.loads(b), set(sel)) for b in raw) if r is not SKIPPED]
        probs += compare_filter_output(name, expr, p.stdout.decode("utf-8"), expected, len(raw))
    return probs


ARGVS = [[], ["-c"], ["--compact"], ["-l"], ["-c", "-l"], ["--local-timezone"]]


def filter_lines(rng, name, n):
    """JSON input lines for eliot.filter: Eliot messages carrying an index i and a payload v, plus other JSON values"""
    falsy = [0, 0.0, False, None, "", [], {}]
    lines = []
    for i in range(n):
        if name not in NEEDS_DICT and rng.random() < 0.3:
            lines.append(L(json.dumps(rng.choice(falsy + [1, "s", [0], {"i": i}, [None], -2.5, "multi\nline \u00e9"])).encode("utf-8")))
            continue
        m = rand_message(rng, nfields=rng.randint(0, 3))
        m["i"] = i
        m["v"] = rng.choice(falsy) if rng.random() < 0.6 else rand_value(rng)
        if name == "usage-example" and rng.random() < 0.5: m["message_type"] = "my:message"
        lines.append(msg_line(m))
    return lines


def build_scenarios(tier, seed):
    rng = random.Random(seed)
    quick = tier == "quick"
    scs = []
    # --- formatter: small-scope exhaustive part
    for ts in TS_POOL:
        for lv in (LEVELS if ts in TS_POOL[:3] else LEVELS[:2]):
            scs.append({"kind": "fmt", "msg": base_message(timestamp=ts, task_level=lv, message_type="m", x=1)})
    firsts = [dict(zip(FIRST, c)) for c in itertools.product([None, "t"], [None, "m:t"], [None, "started"])]
    firsts = [{k: v for k, v in f.items() if v is not None} for f in firsts]
    for v in SCALARS + NESTED:
        for f in (firsts if quick is False or len(scs) % 3 == 0 else [firsts[0], firsts[2], firsts[5], firsts[7]]):
            scs.append({"kind": "fmt", "msg": base_message(v=v, **f)})
    scs.append({"kind": "fmt", "msg": base_message()})  # only the required fields
    for k in KEYS:
        for v in (1, "multi\nline", [1, {"a": "b"}]):
            scs.append({"kind": "fmt", "msg": base_message(action_type="a", action_status="succeeded", **{k: v, "other": None})})
    for a, b in itertools.combinations([k for k in KEYS if k != "a\nb"], 2):
        if quick and rng.random() < 0.8: continue
        scs.append({"kind": "fmt", "msg": base_message(message_type="m", **{a: "1", b: "2\n3"})})
    # --- formatter: seeded random part
    for _ in range(8000 if quick else 60000):
        scs.append({"kind": "fmt", "msg": rand_message(rng)})
    for _ in range(5000 if quick else 40000):  # timestamp-focused, light messages
        scs.append({"kind": "fmt", "msg": base_message(timestamp=rand_ts(rng), task_level=rng.choice(LEVELS), message_type="t")})
    # --- messages really emitted by Eliot
    shapes = ["message", "action-ok", "action-fail", "traceback", "nested"]
    for n in range(200 if quick else 1500):
        fields = {}
        for _ in range(rng.randint(0, 4)):
            k = rng.choice(KEYS)
            if k == "a\nb" and rng.random() < 0.8: k = "a b"
            fields[k] = rand_value(rng)
        scs.append({"kind": "emit", "shape": shapes[n % len(shapes)], "fields": json.loads(json.dumps(fields)), "times": [rand_ts(rng) for _ in range(rng.randint(1, 4))],
                    "reason": rng.choice(["bad\nthing", "plain", "", "tab\there \u00e9", "'quoted'"])})
    # --- eliot-prettyprint: every foreign line between Eliot lines, every option
    m1 = base_message(message_type="messagey", keys=[123, 456], text="multi\nline\tvalue")
    m2 = json.loads(json.dumps({"timestamp": 1443193958.0, "task_uuid": "8bc6ded2-446c-4b6d-abbc-4f21f1c9a7d8", "task_level": [2, 2, 2, 1], "action_type": "visited",
                                "action_status": "started", "place": {"name": "Statue #1", "tags": ["a", {"b": None}]}}))
    for i, f in enumerate(FOREIGN):
        for argv in (ARGVS if not quick else [ARGVS[i % 2], ARGVS[2 + i % 4]]):
            scs.append({"kind": "cli", "argv": argv, "lines": [msg_line(m1), f, msg_line(m2)]})
        scs.append({"kind": "cli", "argv": ARGVS[i % 2], "lines": [f]})
        scs.append({"kind": "cli", "argv": ARGVS[i % 2], "lines": [msg_line(m2), f], "final_newline": False})
    for f in DEEP + ILL_TYPED:
        for argv in ARGVS[:2]:
            scs.append({"kind": "cli", "argv": argv, "lines": [msg_line(m1), f, msg_line(m2)]})
    scs.append({"kind": "cli", "argv": [], "lines": []})
    bom_msg = "\xef\xbb\xbf" + msg_line(m1)
    utf16 = L(json.dumps({k: v for k, v in m2.items()}).encode("utf-16"))
    # --- eliot-prettyprint: seeded random streams
    for _ in range(1000 if quick else 6000):
        lines = []
        for _ in range(rng.randint(1, 12)):
            r = rng.random()
            if r < 0.45:
                lines.append(msg_line(rand_message(rng)))
            elif r < 0.75:
                lines.append(rng.choice(FOREIGN))
            elif r < 0.85:  # arbitrary bytes
                lines.append(L(bytes(rng.choice([c for c in range(256) if c != 10]) for _ in range(rng.randint(1, 30)))))
            elif r < 0.92:  # a torn write: an Eliot line cut short / with one byte damaged
                b = msg_line(rand_message(rng))
                if rng.random() < 0.5: b = b[:rng.randint(0, len(b) - 1)]
                else:
                    j = rng.randrange(len(b)); b = b[:j] + rng.choice(["\xff", "\x80", "\x00", "}", "\"", "\\"]) + b[j + 1:]
                lines.append(b)
            elif r < 0.96:
                lines.append(rng.choice([bom_msg, utf16 if "\n" not in utf16 else bom_msg, msg_line(m1) + "\r", " " + msg_line(m2) + " \t"]))
            else:
                m = rand_message(rng); miss = rng.choice(REQUIRED); del m[miss]; lines.append(msg_line(m))
        scs.append({"kind": "cli", "argv": rng.choice(ARGVS), "lines": lines, "final_newline": rng.random() < 0.85})
    # --- eliot.filter
    modes = ["bytes", "str", "file", "main"]
    for rep in range(4 if quick else 30):
        for name in sorted(FILTERS):
            for mode in modes:
                if quick and rep % 2 == 1 and mode in ("file",): continue
                n = rng.randint(1, 10)
                sel = sorted(rng.sample(range(n), rng.randint(0, n)))
                scs.append({"kind": "filter", "filter": name, "mode": mode, "sel": sel, "lines": filter_lines(rng, name, n)})
    for name in ("identity", "skip-all", "const-0"):
        scs.append({"kind": "filter", "filter": name, "mode": "bytes", "sel": [], "lines": []})
    for argv in (["eliot-filter"], ["eliot-filter", "J", "extra"], []):
        scs.append({"kind": "filter-usage", "argv": argv})
    # --- the real commands in a child process
    mixed = [msg_line(m1), "NOT JSON!!", "", "123", "null", '["task_uuid", "task_level", "timestamp"]', '{"task_uuid": "x", "task_level": [1]}', msg_line(m2),
             "caf\xe9 ol\xe9", '{"task_uuid": "abc\xc3', "\x80\x81\xfe\xff\x00\x01", msg_line(rand_message(rng)), msg_line(m1)]
    scs.append({"kind": "subproc", "cmd": "prettyprint", "argv": [], "lines": mixed})
    scs.append({"kind": "subproc", "cmd": "prettyprint", "argv": ["--compact"], "lines": mixed, "final_newline": False})
    scs.append({"kind": "subproc", "cmd": "filter", "filter": "identity", "sel": [], "lines": filter_lines(rng, "identity", 8)})
    if not quick:
        scs.append({"kind": "subproc", "cmd": "filter", "filter": "skip-selected", "sel": [1, 3, 4], "lines": filter_lines(rng, "skip-selected", 8)})
        scs.append({"kind": "subproc", "cmd": "filter", "filter": "field-v", "sel": [], "lines": filter_lines(rng, "field-v", 8)})
        for argv in ARGVS[3:]:
            scs.append({"kind": "subproc", "cmd": "prettyprint", "argv": argv, "lines": mixed})
        for _ in range(10):
            lines = [rng.choice(FOREIGN) if rng.random() < 0.5 else msg_line(rand_message(rng)) for _ in range(12)]
            scs.append({"kind": "subproc", "cmd": "prettyprint", "argv": rng.choice(ARGVS), "lines": lines})
    return scs


def main():
    if args.scenario:
        scs = [json.loads(args.scenario)]
    else:
        scs = build_scenarios(args.tier, args.seed)
    fails = {}; known = {}; cases = 0; seen = set()
    for sc in scs:
        cases += 1
        key = json.dumps(sc, sort_keys=True)
        seen.add(key)
        try:
            probs = run_scenario(sc)
        except Exception as e:  # the driver's own harness must not hide a crash
            probs = [({"clause": "driver-crash", "exc": type(e).__name__}, "scenario crashed the driver: %r" % (e,))]
        by_sig = {}
        for sig, obs in probs:
            by_sig.setdefault(json.dumps(sig, sort_keys=True), (sig, []))[1].append(obs)
        for skey, (sig, obs) in by_sig.items():
            bucket = known if sig in KNOWN_SIGNATURES else fails
            if skey not in bucket:
                small = sc if len(key) < 4000 else {"note": "scenario too large to inline; re-run with the same --tier/--seed", "kind": sc["kind"], "index": cases - 1}
                bucket[skey] = {"signature": sig, "scenario": small, "observed": obs[:3], "count": 0}
            bucket[skey]["count"] += 1
    def listing(b):
        out = []
        for v in list(b.values())[:5]:
            v = dict(v); v["observed"] = v["observed"] + ["(%d scenarios with this signature)" % v.pop("count")]; out.append(v)
        return out
    quick = args.tier == "quick"
    print(json.dumps({
        "cases": cases, "distinct": len(seen), "failures": listing(fails), "known": listing(known),
        "bound": ("%s tier, seed %d: messages with <= 6 extra fields drawn from %d field names x (%d scalar + %d nested pool values + random nesting depth <= 3), %d pooled and random timestamps in 1970..2100 "
                  "(incl. within 1us of a second/day/year boundary), task_level length <= 12; %d seeded-random messages; input streams of <= 12 lines over %d foreign line kinds + random bytes + torn Eliot lines; "
                  "%d filter expressions x 4 input modes; real child processes for both commands"
                  % (args.tier, args.seed, len(KEYS), len(SCALARS), len(NESTED), len(TS_POOL), 13000 if quick else 100000, len(FOREIGN) + len(DEEP) + len(ILL_TYPED), len(FILTERS))),
        "rule": "small-scope exhaustive (every pooled value x presence of type/status fields, every field name, every timestamp, every foreign line between two Eliot lines x every option) plus seeded-random messages, "
                "Eliot-emitted causal trees (fake clock, FileDestination), mixed streams and filter runs; oracle = own parser of the rendered text (header, UTC instant within half a microsecond, fields complete and ordered, "
                "each displayed value read back and compared type-strictly; compact parts decoded with json) and own per-line classification of streams; distinct = distinct scenario descriptions, each has >= 1 message or input line "
                "(except the 4 empty-stream cases)"}))


try:
    main()
finally:
    if _OLD_TZ is None: os.environ.pop("TZ", None)
    else: os.environ["TZ"] = _OLD_TZ
    time.tzset()
