"""print the seeded-change detection table for DESIGN.md from seeded/matrix.jsonl (last row per id wins)"""
import json, os
HERE = os.path.dirname(os.path.abspath(__file__))
rows = {}
for l in open(os.path.join(HERE, "seeded", "matrix.jsonl")):
    r = json.loads(l); rows[(r["id"], r["property"])] = r
print("| seeded change | what it does | check run | exit | deductive (first failed obligation) | undecided | bounded native driver |")
print("|---|---|---|---|---|---|---|")
for (id_, p), r in sorted(rows.items()):
    m = json.load(open(os.path.join(HERE, "seeded", id_, "meta.json")))
    try:
        first = open(os.path.join(HERE, "seeded", id_, "notes.md")).readline().strip().lstrip("# ")
        what = first.split(":", 1)[1].strip() if ":" in first else first.split("--", 1)[-1].strip()
    except OSError:
        what = ""
    what = what[:120].replace("|", "/")
    ob = r["refuted_obligations"][0].split("::", 1)[1][:110] if r["refuted_obligations"] else "-"
    more = " (+%d)" % (r["n_refuted"] - 1) if r["n_refuted"] > 1 else ""
    und = r["undecided"][0].split("::", 1)[-1][:70] if r["undecided"] else "-"
    print("| %s | %s | %s | %s | %s%s | %s | %s |" % (id_, what, p, r["exit"], ob.replace("|", "/"), more, und.replace("|", "/"), r["native_failures"] if r["native_failures"] else "-"))
