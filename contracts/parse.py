"""Contracts for eliot/parse.py and the Written* records it builds (properties C09, C01).

What is proved here is per call: which branch `Task.add` takes, what `_insert_action` / `_ensure_node_parents` do to the node map and to
the completed set (the completion rule), that `Parser.add` reports a task exactly when that call made its root complete and drops it,
that other tasks are untouched, and what `parse_stream` yields.  The whole-history statement of C09 (the final state is the same for every
arrival order) is NOT derived from these contracts; it is explored by the bounded driver (DESIGN 17)."""
from pyvc.spec import contract, fields, specfun, module_fact, axiom
from pyvc.pyrx import lvk_axioms

P = "eliot/parse.py::"
A = "eliot/_action.py::"
M = "eliot/_message.py::"

axiom("lvk-injective", lvk_axioms, "TaskLevel keys: lvk (level list -> dictionary key) is injective (TaskLevel.__hash__/__eq__ hash and compare the level list)")


# what ill-formed input may raise out of the parser (Eliot's own consistency errors, KeyError for a missing action_status, IndexError for an end message without a level); anything
# else -- AttributeError, TypeError, NameError ... -- escaping these functions is a failed obligation
PARSE_ERRORS = [{"cls": "WrongTask"}, {"cls": "WrongTaskLevel"}, {"cls": "WrongActionType"}, {"cls": "InvalidStatus"},
                {"cls": "InvalidStartMessage"}, {"cls": "KeyError"}, {"cls": "IndexError"}]

NODE = "WrittenAction|WrittenMessage"
MSGDICT = "dict[task_uuid=str;task_level=list[int];*=Any]"
fields("Parser", _tasks="pmap[str->Task]")
fields("Task", _nodes="pmap[%s]" % NODE, _completed="pset")
fields("WrittenMessage", _logged_dict="pmap[task_uuid=str;task_level=list[int];*=Any]")
fields("WrittenAction", start_message="Opt[WrittenMessage]", end_message="Opt[WrittenMessage]", task_level="TaskLevel", task_uuid="str",
       _children="pmap[%s]" % NODE)
module_fact("eliot/parse.py:Task._root_level", "len(level_of(X)) == 0")

specfun("nodes", ["t"], "dict_of(t._nodes)")
specfun("completed", ["t"], "dict_of(t._completed)")
specfun("task_complete", ["t"], "contains(dict_of(t._completed), lvk([]))")
specfun("tasks", ["p"], "dict_of(p._tasks)")

contract(P + "Task.is_complete", props=["C09"], returns="bool", modifies=[],
         ensures=[("root-level-in-completed", "result == task_complete(self)")])

contract(P + "Task.root", props=["C09", "C01"], returns=NODE, modifies=[],
         ensures=[("the-node-at-the-root-level", "box(result) == dget(nodes(self), lvk([]))")],
         raises=[{"cls": "KeyError", "iff": True, "when": "not contains(nodes(self), lvk([]))"}])

# ------------------------------------------------------------------------------------------------ Parser
specfun("tasks_ok", ["p"], "forall(lambda u: implies(contains(tasks(p), u), all_values(dict_of(typed(dget(tasks(p), u), 'Task')._nodes), 'WrittenAction')), 'val', pat=contains(tasks(p), u))")
contract(P + "Parser.add", props=["C09", "C01"], types={"message_dict": MSGDICT}, returns=("list[Task]", "Parser"), modifies=[],
         requires=[("task-level-of-the-message-is-not-empty", "len(seq(message_dict['task_level'])) >= 1")],
         assumes=[("class invariant of Parser (Parser values are built by Parser() and Parser.add only -- side check parser_check.py; Parser.add re-establishes it, "
                   "see its last postcondition): stored tasks hold only actions; a task consisting of one message outside any action is complete at once and never stored",
                   "tasks_ok(self)"),
                  ("E11 (no dangling references inside containers): the stored tasks and their node maps are existing objects",
                   "forall(lambda u: implies(contains(tasks(self), u), allocated(dget(tasks(self), u)) and allocated(ref_field(dget(tasks(self), u), '_nodes'))), 'val', pat=contains(tasks(self), u))")],
         ghosts={"T0": "Task", "T1": "Task"},
         after={"Task.add#0": [("T0", "self"), ("T1", "result")]},
         ensures=[("continues-the-stored-task-of-that-uuid-or-starts-an-empty-one",
                   "ite(contains(old(tasks(self)), message_dict['task_uuid']), box(T0) == dget(old(tasks(self)), message_dict['task_uuid']),"
                   " fresh(T0) and nodes(T0) == {} and completed(T0) == {})"),
                  ("reported-exactly-when-this-message-completed-the-task",
                   "seq(result[0]) == ([T1] if task_complete(T1) else [])"),
                  ("completed-task-dropped-incomplete-task-stored-other-tasks-untouched",
                   "tasks(result[1]) == (without(old(tasks(self)), message_dict['task_uuid']) if task_complete(T1) "
                   "else update(old(tasks(self)), {message_dict['task_uuid']: T1}))"),
                  ("receiver-unchanged", "tasks(self) == old(tasks(self))"),
                  ("stored-tasks-hold-only-actions", "tasks_ok(result[1])")],
         raises=PARSE_ERRORS)

contract(P + "Parser.incomplete_tasks", props=["C09"], returns="list[Task]", modifies=[],
         ensures=[("one-entry-per-stored-task", "len(seq(result)) == card(tasks(self))"),
                  ("every-entry-is-a-stored-task",
                   "forall(lambda v: implies(contains(seq(result), v), exists(lambda k: contains(tasks(self), k) and dget(tasks(self), k) == v, 'val')), 'val')"),
                  ("every-stored-task-is-an-entry",
                   "forall(lambda k: implies(contains(tasks(self), k), contains(seq(result), dget(tasks(self), k))), 'val')")])

# Task.add is specified further down (after the helpers it calls)

contract("iface::StreamConsumer.__call__", returns="Any", modifies=[],
         notes="whoever iterates over Parser.parse_stream between two yields: resumes with next()/send(x) or throw(e)/close(); assumed not to "
               "mutate the message dictionaries or the input list while the stream is being parsed (the yielded Task values are immutable)",
         raises=[{"cls": "BaseException"}])

contract(P + "Parser.parse_stream", props=["C09", "C01"], types={"cls": "cls", "iterable": "list[%s]" % MSGDICT}, returns="none",
         driver_role="StreamConsumer", modifies=[],
         requires=[("task-levels-of-the-messages-are-not-empty",
                    "forall(lambda m: implies(contains(seq(iterable), m), len(seq(dget(dict_of(m), 'task_level'))) >= 1), 'val', pat=contains(seq(iterable), m))")],
         ghosts={"YS": "seq", "OUT": "seq", "INC": "seq", "CUR": "Parser", "FIRST": "Parser", "FIN": "Parser", "THREADED": "bool", "PRE": "seq"},
         ghost_defaults={"YS": "[]", "OUT": "[]", "THREADED": "True"},
         ghost_yield=[("YS", "YS + [yielded]")],
         after={"Parser.add#0": [("THREADED", "THREADED and box(self) == box(CUR)"), ("CUR", "result[1]"), ("OUT", "OUT + seq(result[0])")],
                "Parser.incomplete_tasks#0": [("INC", "seq(result)"), ("FIN", "self")]},
         loops={0: {"locals": {"parser": "Parser", "YS": "seq", "OUT": "seq", "CUR": "Parser", "THREADED": "bool", "PRE": "seq"}, "ghost_init": [("FIRST", "parser"), ("CUR", "parser")],
                    "inv": [("everything-reported-so-far-has-been-yielded-in-order", "YS == OUT"),
                            ("one-parser-state-threaded-through-all-messages", "THREADED and box(parser) == box(CUR)"),
                            ("started-from-an-empty-parser", "tasks(FIRST) == {}")]},
                1: {"locals": {"YS": "seq"}, "ghost_init": [("PRE", "YS")],
                    "inv": [("yielding-the-reported-tasks-one-by-one", "YS == PRE + _done and OUT == PRE + _s"),
                            ("parser-kept", "THREADED and box(parser) == box(CUR) and tasks(FIRST) == {}")]},
                2: {"locals": {"YS": "seq"}, "inv": [("then-the-incomplete-tasks", "YS == OUT + _done and _s == INC and box(FIN) == box(CUR) and THREADED and tasks(FIRST) == {}")]}},
         ensures=[("yields-each-completed-task-when-reported-then-the-incomplete-ones", "YS == OUT + INC", ["C09"]),
                  ("incomplete-tasks-taken-from-the-final-parser-state", "box(FIN) == box(CUR) and THREADED and tasks(FIRST) == {}", ["C09"])],
         raises=[{"cls": "BaseException"}])

# ------------------------------------------------------------------------------------------------ Written* records (eliot/_action.py, _message.py)
specfun("logged", ["m"], "dict_of(m._logged_dict)")
specfun("mlevel", ["m"], "seq(dget(logged(m), 'task_level'))")
specfun("muuid", ["m"], "dget(logged(m), 'task_uuid')")
specfun("is_action", ["x"], "isinst(x, 'WrittenAction')")
specfun("nlevel", ["x"], "ite(is_action(x), level_of(x.task_level), mlevel(x))")
specfun("nuuid", ["x"], "ite(is_action(x), box(x.task_uuid), muuid(x))")
specfun("kids", ["a"], "dict_of(a._children)")
specfun("same_but_children", ["r", "a"], "r.start_message is a.start_message and r.end_message is a.end_message and r.task_level is a.task_level and r.task_uuid == a.task_uuid")
specfun("mstatus", ["m"], "dget(logged(m), 'action_status')")
specfun("mtype", ["m"], "dget(logged(m), 'action_type')")
specfun("atype_of", ["a"], "ite(a.start_message is not None, mtype(typed(a.start_message, 'WrittenMessage')), "
                           "ite(a.end_message is not None, mtype(typed(a.end_message, 'WrittenMessage')), None))")

contract(A + "WrittenAction.children", props=["C09", "C01"], returns="tuple[%s]" % NODE, modifies=[],
         ensures=[("one-entry-per-child", "len(seq(result)) == card(kids(self))"),
                  ("every-child-is-an-entry", "forall(lambda K: implies(contains(kids(self), K), contains(seq(result), dget(kids(self), K))), 'val', pat=contains(kids(self), K))"),
                  ("every-entry-is-a-child", "forall(lambda v: implies(contains(seq(result), v), exists(lambda K: contains(kids(self), K) and dget(kids(self), K) == v, 'val')), 'val', "
                                             "pat=contains(seq(result), v))")])

contract(A + "WrittenAction._validate_message", props=["C09"], types={"message": NODE}, returns="none", modifies=[],
         raises=[{"cls": "WrongTask", "iff": True, "when": "nuuid(message) != box(self.task_uuid)"},
                 {"cls": "WrongTaskLevel", "iff": True,
                  "when": "nuuid(message) == box(self.task_uuid) and not (len(nlevel(message)) > 0 and nlevel(message)[:-1] == level_of(self.task_level))"}])

contract(A + "WrittenAction._add_child", props=["C09", "C01"], types={"message": NODE}, returns="WrittenAction", modifies=[],
         ensures=[("child-stored-under-its-level-others-kept", "kids(result) == update(old(kids(self)), {lvk(nlevel(message)): message})"),
                  ("everything-else-copied", "same_but_children(result, self)"),
                  ("receiver-unchanged", "kids(self) == old(kids(self))")],
         raises=[{"cls": "WrongTask", "iff": True, "when": "nuuid(message) != box(self.task_uuid)"},
                 {"cls": "WrongTaskLevel", "iff": True,
                  "when": "nuuid(message) == box(self.task_uuid) and not (len(nlevel(message)) > 0 and nlevel(message)[:-1] == level_of(self.task_level))"}])

contract(A + "WrittenAction._start", props=["C09", "C01"], types={"start_message": "WrittenMessage"}, returns="WrittenAction", modifies=[],
         ensures=[("start-message-set", "result.start_message is start_message"),
                  ("everything-else-copied", "result.end_message is self.end_message and result.task_level is self.task_level and "
                                             "result.task_uuid == self.task_uuid and result._children is self._children")],
         raises=[{"cls": "InvalidStartMessage", "iff": True,
                  "when": "mstatus(start_message) != 'started' or len(mlevel(start_message)) == 0 or mlevel(start_message)[-1] != 1"},
                 {"cls": "IndexError", "when": "len(mlevel(start_message)) == 0"}])

specfun("type_readable", ["a"], "ite(a.start_message is not None, contains(logged(typed(a.start_message, 'WrittenMessage')), 'action_type'), "
                               "ite(a.end_message is not None, contains(logged(typed(a.end_message, 'WrittenMessage')), 'action_type'), True))")
specfun("end_type_ok", ["a", "m"], "type_readable(a) and (atype_of(a) is None or atype_of(a) == dget(logged(m), 'action_type'))")
specfun("child_of", ["a", "m"], "len(mlevel(m)) > 0 and mlevel(m)[:-1] == level_of(a.task_level)")
specfun("end_status_ok", ["m"], "mstatus(m) == 'failed' or mstatus(m) == 'succeeded'")
contract(A + "WrittenAction._end", props=["C09", "C01"], types={"end_message": "WrittenMessage"}, returns="WrittenAction", modifies=[],
         ensures=[("end-message-set", "result.end_message is end_message"),
                  ("everything-else-copied", "result.start_message is self.start_message and result.task_level is self.task_level and "
                                             "result.task_uuid == self.task_uuid and result._children is self._children")],
         raises=[{"cls": "KeyError", "iff": True, "when": "not type_readable(self)"},
                 {"cls": "WrongActionType", "iff": True, "when": "type_readable(self) and not end_type_ok(self, end_message)"},
                 {"cls": "WrongTask", "iff": True, "when": "end_type_ok(self, end_message) and muuid(end_message) != box(self.task_uuid)"},
                 {"cls": "WrongTaskLevel", "iff": True,
                  "when": "end_type_ok(self, end_message) and muuid(end_message) == box(self.task_uuid) and not child_of(self, end_message)"},
                 {"cls": "InvalidStatus", "iff": True,
                  "when": "end_type_ok(self, end_message) and muuid(end_message) == box(self.task_uuid) and child_of(self, end_message) and not end_status_ok(end_message)"}])

# ------------------------------------------------------------------------------------------------ Task: inserting nodes
specfun("node_at", ["t", "L"], "dget(nodes(t), lvk(L))")
specfun("has_node", ["t", "L"], "contains(nodes(t), lvk(L))")
specfun("done_at", ["t", "L"], "contains(completed(t), lvk(L))")
# every stored node is a WrittenAction (a task whose only content is one message outside any action stores that message at the root
# instead; such a task takes no further well-formed message)
specfun("actions_only", ["t"], "all_values(nodes(t), 'WrittenAction')")
# the completion rule as Task._insert_action states it: start and end message present, as many children as the end message's position
# says, and every child that is an action already recorded as completed (in the task the node is inserted into)
specfun("complete_here", ["t", "n"],
        "n.start_message is not None and n.end_message is not None and "
        "card(kids(n)) == ival(last(mlevel(typed(n.end_message, 'WrittenMessage')))) - 2 and "
        "forall(lambda K: implies(contains(kids(n), K) and isinst(dget(kids(n), K), 'WrittenAction', True), "
        "       contains(completed(t), lvk(level_of(typed(dget(kids(n), K), 'WrittenAction').task_level)))), 'val', pat=contains(kids(n), K))")
# set algebra instead of quantifiers: the node map / completed set agree outside the keys of the prefixes of L
specfun("nodes_same_outside", ["r", "t", "L"], "outside(nodes(r), prefkeys(L)) == outside(nodes(t), prefkeys(L))")
specfun("completed_grows_only_at", ["r", "t", "L"],
        "is_subset(dom(completed(t)), dom(completed(r))) and is_subset(setminus(completed(r), completed(t)), prefkeys(L))")

contract(P + "Task._insert_action", props=["C09", "C01"], shards=4, types={"node": "WrittenAction"}, returns="Task", modifies=[],
         cycle="insert", decreases="2 * len(level_of(node.task_level)) + 1",
         requires=[("only-actions-stored", "actions_only(self)")],
         assumes=[("E11 (no dangling references inside containers): the children stored in the node are existing objects",
                   "forall(lambda K: implies(contains(kids(node), K), allocated(dget(kids(node), K)) and "
                   "implies(isinst(dget(kids(node), K), 'WrittenAction', True), allocated(ref_field(dget(kids(node), K), 'task_level')) and "
                   "allocated(ref_field(ref_field(dget(kids(node), K), 'task_level'), '_level')))), 'val', pat=contains(kids(node), K))")],
         ghosts={"PAR": "WrittenAction", "RULE": "bool"}, ghost_defaults={"RULE": "complete_here(self, node)"},
         after={"Task._ensure_node_parents#0": [("PAR", "PAR")]},
         loops={0: {"locals": {"completed": "bool"}, "membership_fact": True,
                    "inv": [("still-complete-while-looping", "completed == True"),
                            ("every-action-child-seen-so-far-is-recorded-as-completed",
                             "forall(lambda K: implies(contains(kids(node), K) and contains(_done, dget(kids(node), K)) and isinst(dget(kids(node), K), 'WrittenAction', True), "
                             "contains(completed(self), lvk(level_of(typed(dget(kids(node), K), 'WrittenAction').task_level)))), 'val', pat=contains(kids(node), K))")]}},
         ensures=[("node-stored-at-its-level", "has_node(result, level_of(node.task_level)) and node_at(result, level_of(node.task_level)) == box(node)"),
                  ("parent-action-exists-and-links-the-node",
                   "implies(len(level_of(node.task_level)) > 0, has_node(result, level_of(node.task_level)[:-1]) and "
                   "node_at(result, level_of(node.task_level)[:-1]) == box(PAR) and dget(kids(PAR), lvk(level_of(node.task_level))) == box(node))"),
                  ("only-the-node-and-its-ancestors-change", "nodes_same_outside(result, self, level_of(node.task_level))"),
                  ("completion-rule", "done_at(result, level_of(node.task_level)) == (old(done_at(self, level_of(node.task_level))) or complete_here(self, node))"),
                  ("completion-rule-verdict (ghost RULE: the rule evaluated on the receiver and the node as they were at the call)",
                   "RULE == old(complete_here(self, node)) and done_at(result, level_of(node.task_level)) == (old(done_at(self, level_of(node.task_level))) or RULE)"),
                  ("completed-only-grows-and-only-at-the-node-or-its-ancestors", "completed_grows_only_at(result, self, level_of(node.task_level))"),
                  ("only-actions-stored", "actions_only(result)")],
         raises=PARSE_ERRORS)

specfun("oldpar", ["t", "L"], "typed(dget(nodes(t), lvk(L[:-1])), 'WrittenAction')")
contract(P + "Task._ensure_node_parents", props=["C09", "C01"], shards=4, types={"child": NODE}, returns="Task", modifies=[],
         cycle="insert", decreases="2 * len(nlevel(child))",
         requires=[("only-actions-stored", "actions_only(self)")],
         ghosts={"PAR": "WrittenAction"},
         after={"Task._insert_action#0": [("PAR", "node")]},
         ensures=[("root-has-no-parent", "implies(len(nlevel(child)) == 0, result is self)"),
                  ("parent-action-exists-and-links-the-child",
                   "implies(len(nlevel(child)) > 0, has_node(result, nlevel(child)[:-1]) and node_at(result, nlevel(child)[:-1]) == box(PAR) and "
                   "dget(kids(PAR), lvk(nlevel(child))) == box(child))"),
                  ("existing-parent-keeps-its-messages-and-other-children",
                   "implies(len(nlevel(child)) > 0 and old(has_node(self, nlevel(child)[:-1])), "
                   "  kids(PAR) == update(kids(oldpar(self, nlevel(child))), {lvk(nlevel(child)): child}) and "
                   "  PAR.start_message is oldpar(self, nlevel(child)).start_message and PAR.end_message is oldpar(self, nlevel(child)).end_message)"),
                  ("new-parent-has-only-this-child",
                   "implies(len(nlevel(child)) > 0 and not old(has_node(self, nlevel(child)[:-1])), "
                   "  kids(PAR) == {lvk(nlevel(child)): child} and PAR.start_message is None and PAR.end_message is None)"),
                  ("only-proper-ancestors-change", "implies(len(nlevel(child)) > 0, nodes_same_outside(result, self, nlevel(child)[:-1]))"),
                  ("completed-only-grows-and-only-at-proper-ancestors", "implies(len(nlevel(child)) > 0, completed_grows_only_at(result, self, nlevel(child)[:-1]))"),
                  ("only-actions-stored", "actions_only(result)")],
         raises=PARSE_ERRORS)

# ------------------------------------------------------------------------------------------------ Task.add
specfun("msg_level", ["d"], "seq(dget(dict_of(d), 'task_level'))")
specfun("is_action_message", ["d"], "dget(dict_of(d), 'action_type') is not None")
specfun("is_start_message", ["d"], "dget(dict_of(d), 'action_status') == 'started'")
contract(P + "Task.add", props=["C09", "C01"], shards=4, types={"message_dict": MSGDICT}, returns="Task", modifies=[],
         requires=[("only-actions-stored", "actions_only(self)"),
                   ("task-level-of-the-message-is-not-empty", "len(msg_level(message_dict)) >= 1")],
         ghosts={"ACT": "WrittenAction", "PAR": "WrittenAction", "GPAR": "WrittenAction", "RULE": "bool"},
         after={"Task._insert_action#0": [("ACT", "node"), ("GPAR", "PAR"), ("RULE", "RULE")], "Task._ensure_node_parents#0": [("PAR", "PAR")]},
         ensures=[("a-message-with-an-action-type-starts-or-ends-the-action-one-level-up",
                   "implies(is_action_message(message_dict), has_node(result, level_of(ACT.task_level)) and "
                   "node_at(result, level_of(ACT.task_level)) == box(ACT) and "
                   "ite(old(has_node(self, msg_level(message_dict)[:-1])), ACT.task_level is oldpar(self, msg_level(message_dict)).task_level, "
                   "    level_of(ACT.task_level) == msg_level(message_dict)[:-1]) and "
                   "ite(is_start_message(message_dict), "
                   "    ACT.start_message is not None and logged(typed(ACT.start_message, 'WrittenMessage')) == dict_of(message_dict), "
                   "    ACT.end_message is not None and logged(typed(ACT.end_message, 'WrittenMessage')) == dict_of(message_dict)))", ["C09", "C01", "C11"]),
                  ("the-action-keeps-what-was-already-known-about-it",
                   "implies(is_action_message(message_dict) and old(has_node(self, msg_level(message_dict)[:-1])), "
                   "kids(ACT) == kids(oldpar(self, msg_level(message_dict))) and "
                   "ite(is_start_message(message_dict), ACT.end_message is oldpar(self, msg_level(message_dict)).end_message, "
                   "    ACT.start_message is oldpar(self, msg_level(message_dict)).start_message))", ["C09", "C01"]),
                  ("a-new-action-starts-with-no-children",
                   "implies(is_action_message(message_dict) and not old(has_node(self, msg_level(message_dict)[:-1])), "
                   "kids(ACT) == {} and ite(is_start_message(message_dict), ACT.end_message is None, ACT.start_message is None))", ["C09", "C01"]),
                  ("completion-decided-by-the-rule-of-_insert_action-for-that-action (RULE: its verdict, see Task._insert_action)",
                   "implies(is_action_message(message_dict), done_at(result, level_of(ACT.task_level)) == "
                   "(contains(old(completed(self)), lvk(level_of(ACT.task_level))) or RULE))", ["C09"]),
                  ("a-plain-message-becomes-a-child-of-the-action-one-level-up",
                   "implies(not is_action_message(message_dict) and msg_level(message_dict) != [1], "
                   "has_node(result, msg_level(message_dict)[:-1]) and node_at(result, msg_level(message_dict)[:-1]) == box(PAR) and "
                   "isinst(dget(kids(PAR), lvk(msg_level(message_dict))), 'WrittenMessage', True) and "
                   "logged(typed(dget(kids(PAR), lvk(msg_level(message_dict))), 'WrittenMessage')) == dict_of(message_dict))", ["C09", "C01", "C11"]),
                  ("a-lone-message-at-level-1-is-the-whole-task",
                   "implies(not is_action_message(message_dict) and msg_level(message_dict) == [1], "
                   "has_node(result, []) and isinst(node_at(result, []), 'WrittenMessage', True) and "
                   "logged(typed(node_at(result, []), 'WrittenMessage')) == dict_of(message_dict) and done_at(result, []))", ["C09", "C01"]),
                  ("nothing-outside-the-path-to-the-root-changes",
                   "implies(not is_action_message(message_dict), nodes_same_outside(result, self, msg_level(message_dict)) and completed_grows_only_at(result, self, msg_level(message_dict))) and "
                   "implies(is_action_message(message_dict), nodes_same_outside(result, self, level_of(ACT.task_level)) and completed_grows_only_at(result, self, level_of(ACT.task_level)))", ["C09", "C01"]),
                  ("only-actions-stored", "implies(is_action_message(message_dict) or msg_level(message_dict) != [1], actions_only(result))")],
         raises=PARSE_ERRORS)
