"""Contracts for eliot/_output.py (CONTRACTS.md section B)."""
from pyvc.spec import contract, fields, specfun

O = "eliot/_output.py::"
LOGGING_FRAME = ["#LOG", "#OFFERS", "#CALLS", "#IO", "#NTOP", "field:_last_child"]

contract(O + "BufferingDestination.__call__", props=["C12"], types={"message": "Any"}, returns="none",
         modifies=["seq(self.messages)"],
         loops={0: {"inv": [("suffix-of-appended", "suffix_of(seq(self.messages), old(seq(self.messages)) + [message])"),
                            ("nothing-dropped-unless-over-cap", "len(seq(self.messages)) == len(old(seq(self.messages))) + 1 or len(seq(self.messages)) >= 1000")],
                    "modifies": ["seq(self.messages)"], "decreases": "len(seq(self.messages))"}},
         ensures=[("keeps-most-recent-1000-in-order",
                   "suffix_of(seq(self.messages), old(seq(self.messages)) + [message]) and "
                   "len(seq(self.messages)) == ite(len(old(seq(self.messages))) + 1 <= 1000, len(old(seq(self.messages))) + 1, 1000)", ["C12"])])

contract(O + "Destinations.addGlobalFields", props=["C12"], types={"fields": "dict"}, returns="none",
         modifies=["dict(self._globalFields)"],
         ensures=[("merged", "dict_of(self._globalFields) == update(old(dict_of(self._globalFields)), old(dict_of(fields)))", ["C12"])])

contract(O + "Destinations.remove", props=["C12"], types={"destination": "Any"}, returns="none",
         modifies=["seq(self._destinations)"],
         ghosts={"PRE": "seq", "SUF": "seq"},
         ensures=[("first-occurrence-removed", "old(seq(self._destinations)) == PRE + [destination] + SUF and not contains(PRE, destination) "
                   "and seq(self._destinations) == PRE + SUF", ["C12"])],
         raises=[{"cls": "ValueError", "when": "not contains(old(seq(self._destinations)), destination)", "iff": True,
                  "ensures": [("unchanged", "seq(self._destinations) == old(seq(self._destinations))")]}])

IS_REPORT_MSG = "dget(message, 'message_type') == 'eliot:destination_failure'"

contract(O + "Destinations.send", props=["C08", "C12", "C07", "C13"], shards=6,
         types={"message": "dict", "logger": "Opt[role:ILogger]"}, returns="none",
         aliases={"ERRS": 0},
         ghosts={"NEW": "seqe", "NREP": "int", "REP": "seqe", "MORE": "seqe", "REASON": "Any", "RENDER": "Any", "REASON_OF": "Any", "RENDER_OF": "Any"},
         ghost_defaults={"NEW": "empty_log()", "NREP": "0", "REP": "empty_log()", "MORE": "empty_log()"},
         after={"Dest.__call__#0": [("NEW", "NEW + [Ev('offer', self, message, False)]")],
                "safeunicode#0": [("REASON", "box(result)"), ("REASON_OF", "box(o)")],
                "_safe_unicode_dictionary#0": [("RENDER", "box(result)"), ("RENDER_OF", "box(dictionary)")],
                "log_message#0": [("NREP", "NREP + 1"), ("REP", "REP + [E] + R"), ("MORE", "MORE + DOFF")]},
         # what a failure report says (C08: exception class, its text, a rendering of the affected message; sent through the same logger)
         # (written over log_message's own parameters `message_type` / `fields` and over the error list, not over send's local names)
         call_tokens={"log_message#0": "message_type == 'eliot:destination_failure' and "
                                       "dget(fields, 'exception') == cls_module_name(seq(ERRS)[len(_done)]) and dget(fields, 'reason') == REASON and "
                                       "dget(fields, 'message') == RENDER and REASON_OF == seq(ERRS)[len(_done)] and RENDER_OF == box(message) and "
                                       "ite(logger is None, not contains(dict_of(fields), '__eliot_logger__'), dget(fields, '__eliot_logger__') == box(logger))"},
         after_raise={"Dest.__call__#0": [("NEW", "NEW + [Ev('offer', self, message, True, exc)]")]},
         requires=[("current-ok", "cur_ok()")],
         assumes=[("E12 ownership (checked syntactically by ownership_check.py): the message dict is neither the Destinations' _globalFields "
                   "dict nor an Action's _identification dict, which never escape their objects",
                   "ref(message) != ref(self._globalFields) and private_dict(message)")],
         modifies=LOGGING_FRAME + ["dict(message)", "field:$uuid_str"],
         loops={0: {"locals": {"NEW": "seqe", "ERRS": "list[sub:Exception]"},
                    "modifies": ["#OFFERS", "#IO", "#NTOP", "seq(ERRS)"],
                    "inv": [("offers-so-far", "OFFERS == old(OFFERS) + NEW and len(NEW) == _i"),
                            ("each-destination-once-in-order", "proj_a(NEW) == _done and all_b(NEW, message) and all_tag(NEW, 'offer')"),
                            ("current-ok", "cur_ok()"),
                            ("errors-are-the-failures-unless-report", "len(seq(ERRS)) == ite(%s, 0, count_failed(NEW))" % IS_REPORT_MSG),
                            ("errors-are-exceptions", "forall(lambda k: implies(0 <= k and k < len(seq(ERRS)), isinst(seq(ERRS)[k], 'Exception')), 'int')"),
                            ("message-stable", "dict_of(message) == update(old(dict_of(message)), old(dict_of(self._globalFields)))"),
                            ("log-untouched", "LOG == old(LOG) and only_changed('_last_child')")]},
                1: {"locals": {"NREP": "int", "REP": "seqe", "MORE": "seqe"},
                    "modifies": LOGGING_FRAME + ["field:$uuid_str"],
                    "inv": [("one-report-per-processed-failure", "NREP == _i and LOG == old(LOG) + REP and all_reports(REP)"),
                            ("offers-of-reports-follow", "OFFERS == old(OFFERS) + NEW + MORE"),
                            ("current-ok", "cur_ok()"),
                            ("positions", "only_changed('_last_child', curact())"),
                            ("message-stable", "dict_of(message) == update(old(dict_of(message)), old(dict_of(self._globalFields)))"),
                            ("destinations-stable", "seq(self._destinations) == old(seq(self._destinations))")]}},
         ensures=[("every-destination-offered-once-in-order",
                   "OFFERS == old(OFFERS) + NEW + MORE and proj_a(NEW) == old(seq(self._destinations)) and all_b(NEW, message) and all_tag(NEW, 'offer')", ["C08"]),
                  ("one-report-per-failure-none-for-reports", "NREP == ite(%s, 0, count_failed(NEW)) and LOG == old(LOG) + REP and all_reports(REP)" % IS_REPORT_MSG, ["C08"]),
                  ("global-fields-merged", "dict_of(message) == update(old(dict_of(message)), old(dict_of(self._globalFields)))", ["C12"]),
                  ("positions-only-in-current-action", "only_changed('_last_child', curact())"),
                  ("current-ok", "cur_ok()")])

contract(O + "_safe_unicode_dictionary", props=["C07", "C08", "C13"], types={"dictionary": "dict"}, returns="str",
         modifies=["#CALLS", "#NTOP"],
         ensures=[("calls-grow", "prefix_of(old(CALLS), CALLS)")],
         notes="total: returns a str whatever the dictionary holds (raises=None)")

contract(O + "Logger.write", props=["C13", "C07", "C08", "C02"],
         types={"dictionary": "dict", "serializer": "Opt[_MessageSerializer]"}, returns="none",
         ghost_entry=[("#LOG", "LOG + [write_ev(self, dictionary, serializer)]")],
         ghosts={"R": "seqe", "RPREV": "seqe", "SENT": "bool", "MSG": "Any", "NEWC": "seqe"}, ghost_defaults={"R": "empty_log()", "RPREV": "empty_log()", "SENT": "False", "NEWC": "empty_log()"},
         after={"Destinations.send#0": [("R", "REP"), ("SENT", "True"), ("MSG", "box(message)")],
                "_MessageSerializer.serialize#0": [("NEWC", "NEWC")],
                "write_traceback#0": [("RPREV", "R")],
                "log_message#0": [("R", "RPREV + [E] + R")]},
         requires=[("current-ok", "cur_ok()"),
                   ("caller-dictionary-is-not-eliot-internal", "ref(dictionary) != ref(self._destinations._globalFields)")],
         modifies=["#LOG", "#OFFERS", "#CALLS", "#IO", "#NTOP", "field:_last_child", "field:$uuid_str"],
         ensures=[("refines-ILogger.write: one-write-then-only-reports", "LOG == old(LOG) + [write_ev(self, dictionary, serializer)] + R and all_reports(R)", ["C13", "C07"]),
                  ("caller-dictionary-never-modified", "dict_of(dictionary) == old(dict_of(dictionary))", ["C13"]),
                  ("delivered-iff-serialization-succeeded",
                   "implies(SENT, fresh(MSG) and implies(serializer is not None, len(NEWC) == card(typed(serializer, '_MessageSerializer').fields)) "
                   "and implies(serializer is None, dict_of(MSG) == update(old(dict_of(dictionary)), old(dict_of(self._destinations._globalFields)))))", ["C13"]),
                  ("failure-is-reported-not-delivered", "implies(not SENT, len(R) >= 2 and serializer is not None)", ["C13"]),
                  ("positions-only-in-current-action", "only_changed('_last_child', curact())"),
                  ("current-ok", "cur_ok()")])

# ------------------------------------------------------------------------------------------------ Destinations.add (C12)
specfun("destinations_ok", ["d"],
        "implies(not d._any_added, len(seq(d._destinations)) == 1 and isinst(seq(d._destinations)[0], 'BufferingDestination', True) and "
        "forall(lambda k: implies(0 <= k and k < len(seq(typed(seq(d._destinations)[0], 'BufferingDestination').messages)), "
        "is_dict(seq(typed(seq(d._destinations)[0], 'BufferingDestination').messages)[k])), 'int'))")
contract(O + "Destinations.add", props=["C12"], types={"destinations": "tuple[role:Dest]"}, returns="none", shards=2,
         ghosts={"BUF": "seq", "NSENT": "int", "SENT": "seq"}, ghost_defaults={"NSENT": "0", "SENT": "seq(())"},
         after={"Destinations.send#0": [("NSENT", "NSENT + 1"), ("SENT", "SENT + [message]")]},
         aliases={"BUFFERED": 0},
         requires=[("current-ok", "cur_ok()"),

                   ("destinations-tuple-is-not-the-list", "ref(destinations) != ref(self._destinations)")],
         assumes=[("class invariant of Destinations at method entry (established by __init__: one BufferingDestination until the first add; "
                   "re-established by add, untouched by remove / send / addGlobalFields while buffering)", "destinations_ok(self)")],
         modifies=["#LOG", "#OFFERS", "#CALLS", "#IO", "#NTOP", "field:_last_child", "field:$uuid_str", "self._any_added", "self._destinations",
                   "seq(self._destinations)", "field:$dom", "field:$map"],
         loops={0: {"locals": {"NSENT": "int", "SENT": "seq"},
                    "modifies": ["#LOG", "#OFFERS", "#CALLS", "#IO", "#NTOP", "field:_last_child", "field:$uuid_str", "field:$dom", "field:$map"],
                    "inv": [("each-buffered-message-resent-once-in-order", "NSENT == _i and SENT == _done"),
                            ("registered-destinations-stable", "seq(self._destinations) == old(seq(destinations)) and self._any_added == True"),
                            ("current-ok", "cur_ok()")]}},
         ensures=[("later-adds-extend-the-list", "implies(old(self._any_added), seq(self._destinations) == old(seq(self._destinations)) + old(seq(destinations)) "
                   "and NSENT == 0 and OFFERS == old(OFFERS) and self._destinations is old(self._destinations))", ["C12"]),
                  ("first-add-installs-exactly-the-given-destinations", "implies(not old(self._any_added), seq(self._destinations) == old(seq(destinations)) and fresh(self._destinations))", ["C12"]),
                  ("marked-added", "self._any_added == True", ["C12"]),
                  ("first-add-resends-every-buffered-message-once-in-order",
                   "implies(not old(self._any_added), SENT == old(seq(typed(seq(self._destinations)[0], 'BufferingDestination').messages)) and NSENT == len(SENT))", ["C12"])])

# ------------------------------------------------------------------------------------------------ FileDestination (C10, C11, C16)
contract(O + "FileDestination.__call__", props=["C10", "C11", "C16"], types={"message": "dict"}, returns="none",
         ghosts={"LINE": "Any", "DUMPED": "Any", "DARGS": "seq", "DDEFAULT": "Any"},
         after={"Dumps.__call__#0": [("DUMPED", "box(result)"), ("DARGS", "LASTARGS"), ("DDEFAULT", "dget(LASTKW, 'default')")],
                "File.write#0": [("LINE", "box(data)")]},
         modifies=["#IO", "#CALLS", "#NTOP"],
         ensures=[("exactly-one-write-then-one-flush", "IO == old(IO) + [Ev('write', self.file, LINE), Ev('flush', self.file)]", ["C10", "C11", "C16"]),
                  ("the-line-is-dumps-of-the-message-plus-linebreak", "last(CALLS).tag == 'dumps' and last(CALLS).a == box(self._dumps) and DARGS == [message] "
                   "and DDEFAULT == box(self._json_default) and DUMPED == last(CALLS).d and is_concat(LINE, DUMPED, self._linebreak)", ["C10"]),
                  ("message-not-modified", "dict_of(message) == old(dict_of(message))", ["C13"])],
         raises=[{"cls": "Exception",
                  "ensures": [("no-partial-line: at most the single write happened", "IO == old(IO) or IO == old(IO) + [Ev('write', self.file, LINE)]", ["C10"])]}])

# ------------------------------------------------------------------------------------------------ MemoryLogger (C16, C14)
MONITOR_INV = "len(seq(self.messages)) == len(seq(self.serializers))"
ML_LISTS_SEPARATE = ("ref(self.messages) != ref(self.serializers) and ref(self.messages) != ref(self.tracebackMessages) and "
                     "ref(self.serializers) != ref(self.tracebackMessages) and ref(self._failed_validations) != ref(self.messages) and "
                     "ref(self._failed_validations) != ref(self.serializers) and ref(self._failed_validations) != ref(self.tracebackMessages)")

contract(O + "exclusively.exclusively_f", props=["C16"], types={"self": "MemoryLogger", "a": "tuple", "kw": "dict"},
         free={"f": "role:LockedBody"}, returns="Any", modifies=["*"],
         ensures=[("body-ran-holding-the-lock-and-released-it", "last(CALLS).tag == 'ret' and last(CALLS).e == True and result == last(CALLS).d and not held(old(self._lock))", ["C16"])],
         raises=[{"cls": "BaseException", "ensures": [("lock-released-on-exceptional-exit", "last(CALLS).tag == 'exc' and last(CALLS).e == True and not held(old(self._lock))", ["C16"])]}])

contract(O + "MemoryLogger.reset", props=["C16", "C14"], returns="none",
         modifies=["self.messages", "self.serializers", "self.tracebackMessages", "self._failed_validations"],
         ensures=[("four-fresh-empty-lists", "seq(self.messages) == [] and seq(self.serializers) == [] and seq(self.tracebackMessages) == [] and "
                   "seq(self._failed_validations) == [] and fresh(self.messages) and fresh(self.serializers) and fresh(self.tracebackMessages) and fresh(self._failed_validations)", ["C16"]),
                  ("monitor-invariant", MONITOR_INV + " and " + ML_LISTS_SEPARATE, ["C16"])])

contract(O + "MemoryLogger.flushTracebacks", props=["C16", "C14"], types={"exceptionType": "cls"}, returns="list[dict]",
         requires=[("monitor-invariant", MONITOR_INV + " and " + ML_LISTS_SEPARATE)],
         modifies=["self.tracebackMessages"],
         ghosts={"FL": "seq", "KP": "seq"}, ghost_defaults={"FL": "seq(())", "KP": "seq(())"},
         loops={0: {"locals": {"FL": "seq", "KP": "seq"}, "modifies": ["seq(RESULT)", "seq(REMAINING)"],
                    # the specification as a fold over the traceback messages: flushed = those whose reason is an instance of the type
                    "ghost_step": [("FL", "FL + ite(instance_of(dget(_x, 'reason'), exceptionType), [_x], [])"),
                                   ("KP", "KP + ite(instance_of(dget(_x, 'reason'), exceptionType), [], [_x])")],
                    "inv": [("partition-of-the-processed-prefix", "len(seq(RESULT)) + len(seq(REMAINING)) == _i"),
                            ("flushed-and-kept-so-far-are-exactly-the-matching-and-the-other-tracebacks-in-order", "seq(RESULT) == FL and seq(REMAINING) == KP"),
                            ("lists-untouched", "seq(self.messages) == old(seq(self.messages)) and seq(self.serializers) == old(seq(self.serializers))")]}},
         aliases={"RESULT": 0, "REMAINING": 1},
         ensures=[("every-traceback-flushed-or-kept", "len(seq(result)) + len(seq(self.tracebackMessages)) == len(old(seq(self.tracebackMessages)))", ["C16"]),
                  ("flushed-are-exactly-the-tracebacks-of-that-exception-type-the-others-stay-in-order", "seq(result) == FL and seq(self.tracebackMessages) == KP", ["C14", "C16"]),
                  ("messages-untouched", "seq(self.messages) == old(seq(self.messages)) and seq(self.serializers) == old(seq(self.serializers))", ["C16"]),
                  ("monitor-invariant", MONITOR_INV, ["C16"])])

contract(O + "MemoryLogger._validate_message", props=["C14", "C16"], types={"dictionary": "dict", "serializer": "Opt[_MessageSerializer]"}, returns="none",
         assumes=[("E12 ownership (ownership_check.py): a serializer's field table never escapes, so it is not the message dictionary",
                   "implies(serializer is not None, ref(dictionary) != ref(typed(serializer, '_MessageSerializer').fields))")],
         modifies=["dict(dictionary)", "#CALLS", "#NTOP"],
         loops={0: {"locals": {}, "modifies": ["#CALLS", "#NTOP"],
                    "inv": [("dictionary-untouched-by-key-check", "dict_of(dictionary) == old(dict_of(dictionary))"),
                            ("keys-so-far-are-text-or-bytes", "forall(lambda k: implies(contains(_done, k), is_str(k) or is_bytes(k)), 'val')")]}},
         ghosts={"NVALID": "int", "NSER": "int", "VARG": "Any", "SARG": "Any", "FROM": "Any"}, ghost_defaults={"NVALID": "0", "NSER": "0", "FROM": "None"},
         after={"_MessageSerializer.validate#0": [("NVALID", "NVALID + 1"), ("VARG", "box(message)")],
                "_MessageSerializer.serialize#0": [("NSER", "NSER + 1"), ("SARG", "box(message)")]},
         after_raise={"_MessageSerializer.validate#0": [("NVALID", "NVALID + 1"), ("VARG", "box(message)"), ("FROM", "box(exc)")],
                      "_MessageSerializer.serialize#0": [("NSER", "NSER + 1"), ("SARG", "box(message)"), ("FROM", "box(exc)")],
                      "Str.str#*": [("FROM", "box(exc)")], "Str.repr#*": [("FROM", "box(exc)")]},
         ensures=[("accepted-means-json-encodable", "last(CALLS).tag == 'dumps' and last(CALLS).a == box(dictionary)", ["C14"]),
                  ("with-a-serializer-the-message-is-validated-and-then-serialized-exactly-once-without-one-neither",
                   "ite(serializer is None, NVALID == 0 and NSER == 0, NVALID == 1 and NSER == 1 and VARG == box(dictionary) and SARG == box(dictionary))", ["C14"]),
                  ("accepted-means-every-field-name-is-text-or-utf8-bytes",
                   "forall(lambda k: implies(contains(old(dict_of(dictionary)), k), is_str(k) or is_bytes(k)), 'val')", ["C14"])],
         raises=[{"cls": "BaseException",
                  "ensures": [("only-a-TypeError-of-its-own-or-what-the-serializer-raised-escapes",
                               "isinst(exc, 'TypeError') or isinst(exc, 'UnicodeDecodeError') or box(exc) == FROM", ["C14"]),
                              ("the-serializer-if-any-was-consulted-first", "serializer is None or NVALID == 1", ["C14"])]}])

contract(O + "MemoryLogger.write", props=["C16", "C14", "C13"], types={"dictionary": "dict", "serializer": "Opt[_MessageSerializer]"}, returns="none",
         requires=[("monitor-invariant", MONITOR_INV + " and " + ML_LISTS_SEPARATE),
],
         assumes=[("E12 ownership (ownership_check.py): a serializer's field table never escapes, so it is not the message dictionary",
                   "implies(serializer is not None, ref(dictionary) != ref(typed(serializer, '_MessageSerializer').fields))")],
         modifies=["seq(self.messages)", "seq(self.serializers)", "seq(self.tracebackMessages)", "seq(self._failed_validations)", "#CALLS", "#NTOP"],
         loops={0: {"locals": {"frame": "tuple"}, "modifies": [], "inv": []}},
         ghosts={"NVAL": "int", "VFAILED": "bool", "VDICT": "Any", "VSER": "Any"}, ghost_defaults={"NVAL": "0", "VFAILED": "False"},
         after={"MemoryLogger._validate_message#0": [("NVAL", "NVAL + 1"), ("VDICT", "box(dictionary)"), ("VSER", "box(serializer)")]},
         after_raise={"MemoryLogger._validate_message#0": [("NVAL", "NVAL + 1"), ("VFAILED", "True"), ("VDICT", "box(dictionary)"), ("VSER", "box(serializer)")]},
         ensures=[("validated-exactly-once-on-a-private-copy-with-the-given-serializer",
                   "NVAL == 1 and VSER == box(serializer) and VDICT != box(dictionary) and fresh(VDICT)", ["C14", "C16"]),
                  ("a-failed-validation-is-recorded-for-the-test-to-report-and-only-then",
                   "len(seq(self._failed_validations)) == old(len(seq(self._failed_validations))) + ite(VFAILED, 1, 0)", ["C14"]),
                  ("message-recorded-with-its-own-serializer", "seq(self.messages) == old(seq(self.messages)) + [dictionary] and "
                   "seq(self.serializers) == old(seq(self.serializers)) + [serializer]", ["C16"]),
                  ("traceback-list-consistent", "seq(self.tracebackMessages) == ite(serializer is lookup_global('eliot/_traceback.py', 'TRACEBACK_MESSAGE')._serializer, "
                   "old(seq(self.tracebackMessages)) + [dictionary], old(seq(self.tracebackMessages)))", ["C16", "C14"]),
                  ("caller-dictionary-not-modified", "dict_of(dictionary) == old(dict_of(dictionary))", ["C13", "C14"]),
                  ("monitor-invariant", MONITOR_INV, ["C16"])],
         raises=[{"cls": "BaseException",
                  "ensures": [("known finding C07-F1/F2: only rendering the validation error can raise; the pairing is still intact",
                               MONITOR_INV + " and seq(self.messages) == old(seq(self.messages))", ["C16"])]}])

contract(O + "MemoryLogger.serialize", props=["C16"], returns="list[dict]",
         requires=[("monitor-invariant", MONITOR_INV + " and " + ML_LISTS_SEPARATE),
                   ("every-message-has-a-serializer", "forall(lambda k: implies(0 <= k and k < len(seq(self.serializers)), isinst(seq(self.serializers)[k], '_MessageSerializer', True)), 'int')")],
         modifies=["#CALLS", "#NTOP"],
         aliases={"RESULT": 0},
         ghosts={"SERD": "seq", "SERS": "seq"}, ghost_defaults={"SERD": "seq(())", "SERS": "seq(())"},
         after={"_MessageSerializer.serialize#0": [("SERD", "SERD + [message]"), ("SERS", "SERS + [self]")]},
         loops={0: {"locals": {"SERD": "seq", "SERS": "seq"}, "modifies": ["#CALLS", "#NTOP", "seq(RESULT)"],
                    "inv": [("one-copy-per-message", "len(seq(RESULT)) == _i"),
                            ("each-copy-went-through-the-serializer-recorded-with-its-message",
                             "seq(RESULT) == SERD and len(SERS) == _i and "
                             "forall(lambda v: implies(contains(SERD, v), fresh(v)), 'val')"),
                            ("stored-lists-untouched", "seq(self.messages) == old(seq(self.messages)) and seq(self.serializers) == old(seq(self.serializers))")]}},
         ensures=[("one-serialized-copy-per-message", "len(seq(result)) == len(old(seq(self.messages)))", ["C16"]),
                  ("every-result-is-a-private-copy-serialized-by-the-serializer-recorded-with-its-message",
                   "seq(result) == SERD and len(SERS) == len(old(seq(self.serializers))) and forall(lambda v: implies(contains(SERD, v), fresh(v)), 'val')", ["C16", "C13"]),
                  ("stored-lists-untouched", "seq(self.messages) == old(seq(self.messages)) and seq(self.serializers) == old(seq(self.serializers)) and " + MONITOR_INV, ["C16"])],
         raises=[{"cls": "BaseException", "ensures": [("monitor-invariant", MONITOR_INV + " and seq(self.messages) == old(seq(self.messages))", ["C16"])]}])

contract(O + "MemoryLogger.validate", props=["C16", "C14"], returns="none",
         requires=[("monitor-invariant", MONITOR_INV + " and " + ML_LISTS_SEPARATE),
                   ("serializers-are-serializers-or-none", "forall(lambda k: implies(0 <= k and k < len(seq(self.serializers)), seq(self.serializers)[k] is None or isinst(seq(self.serializers)[k], '_MessageSerializer', True)), 'int')")],
         modifies=["#CALLS", "#NTOP", "field:$dom", "field:$map"],
         ghosts={"NV": "int"}, ghost_defaults={"NV": "0"}, after={"MemoryLogger._validate_message#0": [("NV", "NV + 1")]},
         loops={0: {"locals": {"NV": "int"}, "modifies": ["#CALLS", "#NTOP", "field:$dom", "field:$map"],
                    "inv": [("every-message-so-far-validated-with-its-own-serializer", "NV == _i"),
                            ("stored-lists-untouched", "seq(self.messages) == old(seq(self.messages)) and seq(self.serializers) == old(seq(self.serializers)) and "
                             "seq(self._failed_validations) == old(seq(self._failed_validations))")]}},
         ensures=[("every-recorded-message-was-validated", "NV == len(old(seq(self.messages)))", ["C14"]),
                  ("stored-lists-untouched", "seq(self.messages) == old(seq(self.messages)) and seq(self.serializers) == old(seq(self.serializers)) and " + MONITOR_INV, ["C16"])],
         raises=[{"cls": "BaseException", "ensures": [("monitor-invariant", MONITOR_INV + " and seq(self.messages) == old(seq(self.messages)) and seq(self.serializers) == old(seq(self.serializers))", ["C16"])]}])
