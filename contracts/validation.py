"""Contracts for eliot/_validation.py (CONTRACTS.md section D)."""
from pyvc.spec import contract, fields, specfun

V = "eliot/_validation.py::"

contract(V + "Field.serialize", props=["C13"], types={"input": "Any"}, returns="Any",
         modifies=["#CALLS", "#NTOP"],
         ensures=[("serializer-applied-exactly-once-to-the-logged-value",
                   "CALLS == old(CALLS) + [Ev('ret', self._serializer, input, None, result)] and NTOP[self._serializer] == old(NTOP[self._serializer]) + 1", ["C13"])],
         raises=[{"cls": "BaseException", "ensures": [("recorded", "CALLS == old(CALLS) + [Ev('exc', self._serializer, input, None, exc)] and "
                                                                  "NTOP[self._serializer] == old(NTOP[self._serializer]) + 1")]}])

contract(V + "Field.validate", props=["C14"], types={"input": "Any"}, returns="none",
         ghosts={"C1": "seqe"},
         after={"Serializer.__call__#0": [("C1", "CALLS")]},
         modifies=["#CALLS", "#NTOP"],
         ensures=[("accepted-iff-serializer-and-extra-validator-return",
                   "implies(self._extraValidator is None, CALLS == old(CALLS) + [Ev('ret', self._serializer, input, None, last(CALLS).d)]) and "
                   "implies(self._extraValidator is not None, len(CALLS) == len(old(CALLS)) + 2 and last(CALLS).tag == 'ret' and last(CALLS).a == self._extraValidator and last(CALLS).b == input "
                   "and CALLS[len(old(CALLS))].tag == 'ret' and CALLS[len(old(CALLS))].a == box(self._serializer) and CALLS[len(old(CALLS))].b == input)", ["C14"])],
         raises=[{"cls": "BaseException",
                  "ensures": [("rejected-because-serializer-or-validator-raised",
                               "last(CALLS).tag == 'exc' and last(CALLS).d == box(exc) and last(CALLS).b == input and "
                               "(last(CALLS).a == box(self._serializer) or (self._extraValidator is not None and last(CALLS).a == self._extraValidator))", ["C14"])]}])

contract(V + "_MessageSerializer.serialize", props=["C13"], types={"message": "dict"}, returns="none",
         ghosts={"NEWC": "seqe"}, ghost_defaults={"NEWC": "empty_log()"},
         after={"Field.serialize#0": [("NEWC", "NEWC + [Ev('ret', self._serializer, input, None, result)]")]},
         assumes=[("E12 ownership (ownership_check.py): the field table never escapes, so it is not the message dictionary", "ref(message) != ref(self.fields)")],
         modifies=["dict(message)", "#CALLS", "#NTOP"],
         loops={0: {"locals": {"NEWC": "seqe"}, "modifies": ["dict(message)", "#CALLS", "#NTOP"],
                    "inv": [("one-serializer-call-per-processed-field", "CALLS == old(CALLS) + NEWC and len(NEWC) == _i and all_tag(NEWC, 'ret')"),
                            ("keys-unchanged", "dom(message) == old(dom(message))"),
                            ("undeclared-fields-untouched", "outside(message, self.fields) == old(outside(message, self.fields))"),
                            ("field-table-unchanged", "dict_of(self.fields) == old(dict_of(self.fields))")]}},
         ensures=[("each-declared-field-serialized-exactly-once", "CALLS == old(CALLS) + NEWC and all_tag(NEWC, 'ret') and len(NEWC) == card(self.fields)", ["C13"]),
                  ("undeclared-fields-untouched", "dom(message) == old(dom(message)) and "
                   "outside(message, self.fields) == old(outside(message, self.fields))", ["C13"])],
         raises=[{"cls": "BaseException",
                  "ensures": [("a-serializer-raised-or-a-declared-field-is-missing",
                               "(last(CALLS).tag == 'exc' and last(CALLS).d == box(exc)) or isinst(exc, 'KeyError')", ["C13"])]}])

contract(V + "_MessageSerializer.validate", props=["C14"], types={"message": "dict"}, returns="none",
         ghosts={"NV": "int", "KEYS": "seq"}, ghost_defaults={"NV": "0"},
         after={"Field.validate#0": [("NV", "NV + 1")]},
         modifies=["#CALLS", "#NTOP"],
         loops={0: {"locals": {"NV": "int"}, "modifies": ["#CALLS", "#NTOP"], "ghost_init": [("KEYS", "_s")],
                    "inv": [("declared-fields-so-far-present-and-accepted", "NV == _i and none_missing(_done, message) and KEYS == _s"),
                            ("message-untouched", "dict_of(message) == old(dict_of(message)) and dict_of(self.fields) == old(dict_of(self.fields))")]},
                1: {"locals": {}, "modifies": [],
                    "inv": [("no-undeclared-key-so-far", "forall(lambda k: implies(contains(_done, k), contains(dict_of(self.fields), k) or k == 'task_level' or k == 'task_uuid' or k == 'timestamp'), 'val')")]}},
         ensures=[("accepted-means-every-declared-field-present-and-validated", "NV == card(self.fields) and none_missing(KEYS, message) and len(KEYS) == card(self.fields) and "
                   "forall(lambda k: contains(KEYS, k) == contains(dict_of(self.fields), k), 'val')", ["C14"]),
                  ("accepted-means-no-undeclared-field-unless-allowed",
                   "self.allow_additional_fields or forall(lambda k: implies(contains(dict_of(message), k), contains(dict_of(self.fields), k) or k == 'task_level' or k == 'task_uuid' or k == 'timestamp'), 'val')", ["C14"]),
                  ("message-not-modified", "dict_of(message) == old(dict_of(message))", ["C14"])],
         raises=[{"cls": "ValidationError", "ensures": [("rejected-for-a-missing-or-undeclared-field-or-by-a-field-validator",
                   "not is_subset(dom(self.fields), dom(message)) or (not self.allow_additional_fields and "
                   "not is_subset(dom(message), union(dom(self.fields), setof('task_level', 'task_uuid', 'timestamp')))) or "
                   "(last(CALLS).tag == 'exc' and last(CALLS).d == box(exc))", ["C14"])]},
                 {"cls": "BaseException", "ensures": [("rejected-because-a-field-validator-raised", "last(CALLS).tag == 'exc' and last(CALLS).d == box(exc)", ["C14"])]}])
