"""Contracts for eliot/testing.py (CONTRACTS.md section F)."""
from pyvc.spec import contract, fields, specfun, global_hint

T = "eliot/testing.py::"

ML_OK = ("len(seq(logger.messages)) == len(seq(logger.serializers)) and ref(logger.messages) != ref(logger.serializers) and "
         "ref(logger.messages) != ref(logger.tracebackMessages) and ref(logger.serializers) != ref(logger.tracebackMessages) and "
         "ref(logger._failed_validations) != ref(logger.messages) and ref(logger._failed_validations) != ref(logger.serializers) and "
         "ref(logger._failed_validations) != ref(logger.tracebackMessages)")
contract(T + "check_for_errors", props=["C14"], types={"logger": "MemoryLogger"}, returns="none",
         requires=[("monitor-invariant", ML_OK),
                   ("serializers-are-serializers-or-none", "forall(lambda k: implies(0 <= k and k < len(seq(logger.serializers)), seq(logger.serializers)[k] is None or isinst(seq(logger.serializers)[k], '_MessageSerializer', True)), 'int')")],
         modifies=["*"],
         ghosts={"VALIDATED": "bool"}, ghost_defaults={"VALIDATED": "False"},
         after={"MemoryLogger.validate#0": [("VALIDATED", "True")]}, after_raise={"MemoryLogger.validate#0": [("VALIDATED", "True")]},
         ensures=[("passes-only-without-unflushed-tracebacks-and-after-validation", "len(old(seq(logger.tracebackMessages))) == 0 and VALIDATED", ["C14"])],
         raises=[{"cls": "BaseException",
                  "ensures": [("unflushed-tracebacks-always-fail-before-validation", "implies(len(old(seq(logger.tracebackMessages))) > 0, not VALIDATED and isinst(exc, 'UnflushedTracebacks'))", ["C14"]),
                              ("otherwise-only-validation-raises", "implies(len(old(seq(logger.tracebackMessages))) == 0, VALIDATED)", ["C14"])]}])

contract(T + "swap_logger", props=["C14"], types={"logger": "Any"}, returns="Any",
         modifies=["global:eliot/_output.py:_DEFAULT_LOGGER"],
         ensures=[("installs-the-logger-and-returns-the-previous-one",
                   "box(lookup_global('eliot/_output.py', '_DEFAULT_LOGGER')) == logger and box(result) == old(box(lookup_global('eliot/_output.py', '_DEFAULT_LOGGER')))", ["C14"])])

# ------------------------------------------------------------------------------------------------ capture_logging (C14)
contract("iface::TestCase.addCleanup", params=["self", "function"], star="args", returns="none", modifies=["#CALLS"],
         notes="unittest.TestCase.addCleanup(f, *args): registers f; unittest runs the registered functions after the test whatever its outcome (trusted)",
         ensures=[("recorded", "CALLS == old(CALLS) + [Ev('addCleanup', self)]")])
DEFLOG = "box(lookup_global('eliot/_output.py', '_DEFAULT_LOGGER'))"
contract(T + "capture_logging.decorator.wrapper.cleanup", props=["C14"], free={"previous_logger": "Any"}, returns="none",
         modifies=["global:eliot/_output.py:_DEFAULT_LOGGER"],
         ensures=[("the-cleanup-reinstalls-the-previous-default-logger", DEFLOG + " == previous_logger", ["C14"])])
contract(T + "capture_logging.decorator.wrapper", props=["C14"], types={"self": "role:TestCase", "args": "tuple", "kwargs": "dict"}, returns="Any",
         free={"function": "role:UserCode"},
         requires=[("validate_logging-supplied-the-logger", "'logger' in kwargs")],
         ghosts={"DURING": "Any", "NREG": "int", "REGBEFORE": "bool", "NCALLS": "int"}, ghost_defaults={"NREG": "0", "NCALLS": "0", "REGBEFORE": "False"},
         aliases={"PREVIOUS": 1},
         after={"TestCase.addCleanup#*": [("NREG", "NREG + 1")],
                "UserCode.__call__#*": [("DURING", "old(" + DEFLOG + ")"), ("REGBEFORE", "NREG == 1"), ("NCALLS", "NCALLS + 1")]},
         after_raise={"UserCode.__call__#*": [("DURING", "old(" + DEFLOG + ")"), ("REGBEFORE", "NREG == 1"), ("NCALLS", "NCALLS + 1")]},
         modifies=["*"],
         ensures=[("the-test-runs-once-with-the-captured-logger-installed-and-the-cleanup-already-registered",
                   "NCALLS == 1 and DURING == old(dget(kwargs, 'logger')) and REGBEFORE and NREG == 1", ["C14"]),
                  ("the-closure-restores-what-was-the-default-at-entry", "box(PREVIOUS) == old(" + DEFLOG + ")", ["C14"])],
         raises=[{"cls": "BaseException", "ensures": [
                  ("also-when-the-test-raises: it ran with the captured logger installed and the cleanup registered",
                   "NCALLS == 1 and DURING == old(dget(kwargs, 'logger')) and REGBEFORE and NREG == 1 and box(PREVIOUS) == old(" + DEFLOG + ")", ["C14"])]}])
