"""Contracts for eliot/testing.py (CONTRACTS.md section F)."""
from pyvc.spec import contract, fields, specfun, global_hint

T = "eliot/testing.py::"

ML_OK = ("len(seq(logger.messages)) == len(seq(logger.serializers)) and ref(logger.messages) != ref(logger.serializers) and "
         "ref(logger.messages) != ref(logger.tracebackMessages) and ref(logger.serializers) != ref(logger.tracebackMessages) and "
         "ref(logger._failed_validations) != ref(logger.messages) and ref(logger._failed_validations) != ref(logger.serializers) and "
         "ref(logger._failed_validations) != ref(logger.tracebackMessages)")
contract(T + "check_for_errors", props=["C14"], types={"logger": "MemoryLogger"}, returns="none",
         requires=[("monitor-invariant", ML_OK),
                   ("serializers-are-serializers-or-none", "forall(lambda k: implies(0 <= k and k < len(seq(logger.serializers)), seq(logger.serializers)[k] is None or isinst(seq(logger.serializers)[k], '_MessageSerializer', True)), 'int')")],
         modifies=["*"],
         ghosts={"VALIDATED": "bool"}, ghost_defaults={"VALIDATED": "False"},
         after={"MemoryLogger.validate#0": [("VALIDATED", "True")]}, after_raise={"MemoryLogger.validate#0": [("VALIDATED", "True")]},
         ensures=[("passes-only-without-unflushed-tracebacks-and-after-validation", "len(old(seq(logger.tracebackMessages))) == 0 and VALIDATED", ["C14"])],
         raises=[{"cls": "BaseException",
                  "ensures": [("unflushed-tracebacks-always-fail-before-validation", "implies(len(old(seq(logger.tracebackMessages))) > 0, not VALIDATED and isinst(exc, 'UnflushedTracebacks'))", ["C14"]),
                              ("otherwise-only-validation-raises", "implies(len(old(seq(logger.tracebackMessages))) == 0, VALIDATED)", ["C14"])]}])

contract(T + "swap_logger", props=["C14"], types={"logger": "Any"}, returns="Any",
         modifies=["global:eliot/_output.py:_DEFAULT_LOGGER"],
         ensures=[("installs-the-logger-and-returns-the-previous-one",
                   "box(lookup_global('eliot/_output.py', '_DEFAULT_LOGGER')) == logger and box(result) == old(box(lookup_global('eliot/_output.py', '_DEFAULT_LOGGER')))", ["C14"])])
