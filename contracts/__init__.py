"""Sidecar contracts for /repo/eliot (specifications only; no code of /repo is copied here)."""
import importlib

MODULES = ["common", "action"]


def load_all():
    for m in MODULES:
        importlib.import_module("contracts." + m)
MODULES += ["util", "errors"]
MODULES += ["output"]
MODULES += ["validation"]
MODULES += ["json_"]
MODULES += ["testing", "testing17"]
MODULES += ["lemmas"]
MODULES += ["generators"]
MODULES += ["logwriter"]
MODULES += ["readers"]
MODULES += ["parse"]
import os as _os
if _os.environ.get("PYVC_EXTRA"):
    MODULES += _os.environ["PYVC_EXTRA"].split(",")
