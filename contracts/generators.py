"""Contracts for eliot/_generators.py (C15)."""
from pyvc.spec import contract, fields, specfun

G = "eliot/_generators.py::"
specfun("cid", ["c"], "ival(c.ctx_id_)")

contract(G + "eliot_friendly_generator_function.wrapper", props=["C15"],
         types={"a": "tuple", "kw": "dict"}, free={"original": "role:GenFunc", "wrapper": "role:FuncObj"}, returns="Any",
         requires=[("debug-mode-off (the default; with it on the wrapper additionally logs a 'yielded' message in the generator's context)", "wrapper.debug == False")],
         nonterminating_ok=True,
         aliases={"OK": 0, "VALUE_IN": 1, "GEN": 2, "CONTEXT": 3},
         call_tokens={"Gen.send#0": "me == cid(typed(CONTEXT, 'Context'))", "Gen.throw#0": "me == cid(typed(CONTEXT, 'Context'))"},
         modifies=["*"],
         loops={0: {"locals": {"VALUE_IN": "Any", "OK": "bool"}, "modifies": ["*"],
                    "inv": [("context-copied-exactly-once-before-the-loop", "NCOPY == old(NCOPY) + 1 and isinst(CONTEXT, 'Context', True) and cid(typed(CONTEXT, 'Context')) != me"),
                            ("next-input-is-what-the-driver-supplied",
                             "implies(OK, VALUE_IN == _sent) and implies(not OK, is_tuple(VALUE_IN) and len(seq(VALUE_IN)) == 3 and seq(VALUE_IN)[1] == box(_thrown))"),
                            ("debug-mode-still-off", "wrapper.debug == False"),
                            ("driver-context-as-left-by-the-driver", "CTX[me] == _ctx_at_resume")]}},
         at_yield=[("yields-exactly-what-the-generator-produced", "last(CALLS).tag == 'ret' and yielded == last(CALLS).d and last(CALLS).a == GEN", ["C15"]),
                   ("the-body-ran-in-the-generator's-own-context", "last(CALLS).e == box(cid(typed(CONTEXT, 'Context')))", ["C15"]),
                   ("sent-value-or-thrown-exception-was-forwarded-unchanged",
                    "implies(_nyield > 0 and last(CALLS).b == 'send', last(CALLS).c == _sent) and implies(last(CALLS).b == 'throw', last(CALLS).c == box(_thrown))", ["C15"]),
                   ("resuming-did-not-change-the-driver's-current-action", "CTX[me] == _ctx_at_resume", ["C15"]),
                   ("context-copied-exactly-once", "NCOPY == old(NCOPY) + 1", ["C15"])],
         ensures=[("return-value-of-the-generator-is-passed-through", "last(CALLS).tag == 'stop' and result == last(CALLS).d and last(CALLS).a == GEN", ["C15"]),
                  ("driver-context-unchanged", "CTX[me] == _ctx_at_resume", ["C15"])],
         raises=[{"cls": "BaseException",
                  "ensures": [("only-the-generator's-own-exception-escapes-and-unchanged", "(last(CALLS).tag == 'exc' and last(CALLS).d == box(exc) and last(CALLS).a == GEN) or CALLS == old(CALLS)", ["C15"]),
                              ("driver-context-unchanged", "CTX[me] == _ctx_at_resume or CALLS == old(CALLS)", ["C15"])]}])
