"""Contracts for eliot/json.py (C10)."""
from pyvc.spec import contract, fields, specfun, global_hint

J = "eliot/json.py::"

contract("iface::ext.sys.modules.get", params=["name", "default"], defaults={"default": None}, returns="Any",
         notes="sys.modules.get(name, None): the optional third-party module or None (numpy/pydantic/pandas/polars are absent here; "
               "their branches are outside the documented rich types of the statement)", modifies=[],
         ensures=[("absent-in-this-sandbox", "result is None")])

contract(J + "json_default", props=["C10"], types={"o": "Any"}, returns="Any",
         modifies=["#CALLS", "#NTOP"],
         ensures=[("documented-encoding-in-branch-order",
                   "implies(isinst(o, 'Path'), last(CALLS).tag == 'ret' and LASTF == o and is_str(result)) and "
                   "implies(not isinst(o, 'Path') and (isinst(o, 'date') or isinst(o, 'time')), last(CALLS).tag == 'isoformat' and last(CALLS).a == o and result == last(CALLS).d)", ["C10"])],
         raises=[{"cls": "TypeError", "when": "not (isinst(o, 'Path') or isinst(o, 'date') or isinst(o, 'time') or isinst(o, 'set') or isinst(o, 'complex'))",
                  "ensures": []},
                 {"cls": "BaseException", "ensures": []}])
