"""Contracts for eliot/json.py (C10)."""
from pyvc.spec import contract, fields, specfun, global_hint

J = "eliot/json.py::"

contract("iface::ext.sys.modules.get", params=["name", "default"], defaults={"default": None}, returns="Any",
         notes="sys.modules.get(name, None): the optional third-party module or None (numpy/pydantic/pandas/polars are absent here; "
               "their branches are outside the documented rich types of the statement)", modifies=[],
         ensures=[("absent-in-this-sandbox", "result is None")])

specfun("is_documented_rich", ["o"], "isinst(o, 'Path') or isinst(o, 'date') or isinst(o, 'time') or isinst(o, 'set') or isinst(o, 'complex')")
contract(J + "json_default", props=["C10"], types={"o": "Any"}, returns="Any",
         modifies=["#CALLS", "#NTOP"],
         ensures=[("a-path-becomes-text", "implies(isinst(o, 'Path'), is_str(result))", ["C10"]),
                  ("dates-and-times-become-what-isoformat-returns",
                   "implies(not isinst(o, 'Path') and (isinst(o, 'date') or isinst(o, 'time')), last(CALLS).tag == 'ret' and box(result) == last(CALLS).d and len(CALLS) == len(old(CALLS)) + 1 "
                   "and last(CALLS).b is not None)", ["C10"]),
                  # (.b holds the argument tuple of a method call on the value -- o.isoformat() -- and is None for the str()/repr() protocol calls:
                  #  str(o) differs from isoformat() for datetime subclasses, seeded change C10-4)
                  ("a-set-becomes-a-list-of-exactly-its-elements",
                   "implies(not isinst(o, 'Path') and not isinst(o, 'date') and not isinst(o, 'time') and isinst(o, 'set'), "
                   "is_list(box(result)) and len(seq(box(result))) == card(dict_of(o)) and forall(lambda v: contains(seq(box(result)), v) == contains(dict_of(o), v), 'val') and CALLS == old(CALLS))", ["C10"]),
                  ("a-complex-number-becomes-its-two-parts",
                   "implies(not isinst(o, 'Path') and not isinst(o, 'date') and not isinst(o, 'time') and not isinst(o, 'set') and isinst(o, 'complex'), "
                   "dict_of(box(result)) == {'real': ref_field(o, 'real'), 'imag': ref_field(o, 'imag')} and CALLS == old(CALLS))", ["C10"])],
         raises=[{"cls": "TypeError", "iff": True, "exact": True, "when": "not is_documented_rich(o)",
                  "ensures": [("nothing-called", "CALLS == old(CALLS)")]},
                 {"cls": "BaseException", "when": "isinst(o, 'Path') or isinst(o, 'date') or isinst(o, 'time')",
                  "ensures": []}])
