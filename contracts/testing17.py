"""Contracts for the test helpers of eliot/testing.py (C17): LoggedAction / LoggedMessage."""
from pyvc.spec import contract, fields, specfun

T = "eliot/testing.py::"
LISTMSG = "list[dict[task_uuid=Any;task_level=list[int];*=Any]]"
fields("LoggedAction", startMessage="Any", endMessage="Any", children="list")
fields("LoggedMessage", message="dict")

contract(T + "LoggedMessage.__new__", props=["C17"], types={"cls": "cls", "message": "dict"}, returns="LoggedMessage", modifies=[],
         ensures=[("wraps-the-message", "fresh(result) and result.message == message")])

contract(T + "LoggedMessage.of_type", props=["C17"], types={"messages": LISTMSG, "messageType": "Any"}, returns="list[LoggedMessage]",
         requires=[("type-given-as-text-or-MessageType", "is_str(messageType) or isinst(messageType, 'MessageType')")],
         ghosts={"EXPECT": "seq", "GOT": "seq", "TYPE": "Any"}, ghost_defaults={"EXPECT": "seq(())", "GOT": "seq(())"},
         after={"LoggedMessage.__new__#*": [("GOT", "GOT + [message]")]},
         aliases={"RESULT": 0},
         modifies=[],
         loops={0: {"locals": {"EXPECT": "seq", "GOT": "seq"}, "modifies": ["seq(RESULT)"],
                    # the requested type as text, from the argument as it was passed (a MessageType object stands for its message_type)
                    "ghost_init": [("TYPE", "ite(is_str(old(messageType)), old(messageType), typed(old(messageType), 'MessageType').message_type)")],
                    "ghost_step": [("EXPECT", "EXPECT + ite(dget(_x, 'message_type') == TYPE, [_x], [])")],
                    "inv": [("exactly-the-messages-of-the-type-so-far-in-order", "GOT == EXPECT and len(seq(RESULT)) == len(GOT)")]}},
         ensures=[("exactly-the-messages-of-the-type-in-order", "GOT == EXPECT and len(seq(result)) == len(GOT)", ["C17"])])

ENDST = "(dget(typed(%s, 'dict'), 'action_status') == 'succeeded' or dget(typed(%s, 'dict'), 'action_status') == 'failed')"
FIRST = ("implies(len(OBJS) > 0, typed(seq(OBJS)[0], 'LoggedAction').startMessage == S0 and typed(seq(OBJS)[0], 'LoggedAction').endMessage == E0 "
         "and S0 is not None and E0 is not None and is_dict(S0) and is_dict(E0) and " + ENDST % ("E0", "E0") + ")")
contract(T + "LoggedAction.of_type", props=["C17"], types={"messages": LISTMSG, "actionType": "Any"}, returns="list[LoggedAction]",
         ghosts={"EXPECT": "seq", "CALLED": "seq", "TYPE": "Any", "OBJS": "seq", "S0": "Any", "E0": "Any"},
         ghost_defaults={"EXPECT": "seq(())", "CALLED": "seq(())", "OBJS": "seq(())", "S0": "None", "E0": "None"},
         after={"LoggedAction.fromMessages#*": [("S0", "ite(len(CALLED) == 0, LASTSTART, S0)"), ("E0", "ite(len(CALLED) == 0, LASTEND, E0)"),
                                                 ("CALLED", "CALLED + [level]"), ("OBJS", "OBJS + [box(result)]")]},
         aliases={"RESULT": 1},
         modifies=[],
         loops={0: {"locals": {"EXPECT": "seq", "CALLED": "seq", "OBJS": "seq", "S0": "Any", "E0": "Any"}, "modifies": ["seq(RESULT)"],
                    "ghost_init": [("TYPE", "actionType")],
                    "ghost_step": [("EXPECT", "EXPECT + ite(dget(_x, 'action_type') == TYPE and dget(_x, 'action_status') == 'started', [dget(_x, 'task_level')], [])")],
                    "inv": [("one-entry-per-start-message-of-the-type-at-any-depth-in-order", "CALLED == EXPECT and len(seq(RESULT)) == len(CALLED)"),
                            ("the-entries-are-the-objects-fromMessages-returned-in-call-order", "seq(RESULT) == OBJS and len(OBJS) == len(CALLED)"),
                            ("first-entry-exposes-its-own-start-and-end-message", FIRST),
                            ("list-not-replaced", "seq(messages) == old(seq(messages))")]}},
         ensures=[("one-entry-per-start-message-of-the-type-at-any-depth-in-order", "CALLED == EXPECT and len(seq(result)) == len(CALLED)", ["C17"]),
                  ("the-entries-are-the-objects-fromMessages-returned-in-call-order", "seq(result) == OBJS", ["C17"]),
                  ("first-entry-exposes-its-own-start-and-end-message", FIRST, ["C17"])],
         raises=[{"cls": "BaseException", "ensures": []}])

OWN = "dget(_x, 'task_uuid') == UUID and seq(dget(_x, 'task_level'))[:-1] == PREFIX"
CHILD_START = ("dget(_x, 'task_uuid') == UUID and not (seq(dget(_x, 'task_level'))[:-1] == PREFIX) and len(seq(dget(_x, 'task_level'))) == len(PREFIX) + 2 "
               "and seq(dget(_x, 'task_level'))[:-2] == PREFIX and ival(last(seq(dget(_x, 'task_level')))) == 1")
STATUS = "dget(_x, 'action_status')"

contract(T + "LoggedAction.fromMessages", props=["C17"], types={"klass": "cls", "uuid": "Any", "level": "list[int]", "messages": LISTMSG}, returns="LoggedAction",
         ghosts={"EXPK": "seq", "GOT": "seq", "LASTSTART": "Any", "LASTEND": "Any", "UUID": "Any", "PREFIX": "seq", "NSEEN": "int"},
         ghost_defaults={"EXPK": "seq(())", "GOT": "seq(())", "LASTSTART": "None", "LASTEND": "None", "NSEEN": "0"},
         after={"LoggedMessage.__new__#*": [("GOT", "GOT + [message]")], "LoggedAction.fromMessages#*": [("GOT", "GOT + [box(level)]")]},
         aliases={"START": 0, "END": 1, "CHILDREN": 2},
         modifies=[],
         loops={0: {"locals": {"EXPK": "seq", "GOT": "seq", "LASTSTART": "Any", "LASTEND": "Any", "START": "Any", "END": "Any", "NSEEN": "int"}, "modifies": ["seq(CHILDREN)"],
                    "ghost_init": [("UUID", "uuid"), ("PREFIX", "seq(level)[:-1]")],
                    "ghost_step": [
                        ("NSEEN", "NSEEN + 1"),
                        ("EXPK", "EXPK + ite((%s) and %s != 'started' and %s != 'succeeded' and %s != 'failed', [_x], ite(%s, [dget(_x, 'task_level')], []))" % (OWN, STATUS, STATUS, STATUS, CHILD_START)),
                        ("LASTSTART", "ite((%s) and %s == 'started', _x, LASTSTART)" % (OWN, STATUS)),
                        ("LASTEND", "ite((%s) and (%s == 'succeeded' or %s == 'failed'), _x, LASTEND)" % (OWN, STATUS, STATUS))],
                    "inv": [("children-are-exactly-the-direct-messages-and-direct-child-actions-so-far-in-order", "GOT == EXPK and len(seq(CHILDREN)) == len(GOT)"),
                            ("own-start-and-end-messages", "START == LASTSTART and END == LASTEND"),
                            ("the-end-message-has-an-end-status", "LASTEND is None or (is_dict(LASTEND) and " + ENDST % ("LASTEND", "LASTEND") + ")"),
                            ("the-start-message-is-a-message", "LASTSTART is None or is_dict(LASTSTART)"),
                            ("every-message-so-far-was-looked-at", "NSEEN == _i"),
                            ("inputs-not-replaced", "seq(messages) == old(seq(messages)) and seq(level) == old(seq(level))")]}},
         ensures=[("children-are-exactly-the-direct-messages-and-direct-child-actions-in-list-order", "GOT == EXPK and len(seq(result.children)) == len(GOT)", ["C17"]),
                  ("the-whole-message-list-was-scanned", "NSEEN == len(seq(messages))", ["C17"]),
                  ("own-start-and-end-messages", "result.startMessage == LASTSTART and result.endMessage == LASTEND and LASTSTART is not None and LASTEND is not None", ["C17"]),
                  ("the-end-message-has-an-end-status", "is_dict(LASTSTART) and is_dict(LASTEND) and " + ENDST % ("LASTEND", "LASTEND"), ["C17"])],
         raises=[{"cls": "ValueError", "ensures": [("only-when-the-start-or-end-message-is-missing (here or in a child action)", "True")]},
                 {"cls": "BaseException", "ensures": []}])

contract(T + "assertContainsFields", props=["C17"], types={"test": "role:TestCase", "message": "dict", "fields": "dict"}, returns="none",
         modifies=["#CALLS"],
         ensures=[("passes-exactly-when-the-message-has-a-superset-of-the-expected-fields", "restrict(message, fields) == dict_of(fields)", ["C17"])],
         raises=[{"cls": "AssertionError", "ensures": [("fails-exactly-when-some-expected-field-is-missing-or-different", "not (restrict(message, fields) == dict_of(fields))", ["C17"])]}])

contract(T + "assertHasMessage", props=["C17"],
         types={"testCase": "role:TestCase", "logger": "MemoryLogger", "messageType": "Any", "fields": "Opt[dict]"}, returns="LoggedMessage",
         requires=[("type-given-as-text (a MessageType object is handled by LoggedMessage.of_type, see there; rendering it for the failure text is not modelled)", "is_str(messageType)")],
         ghosts={"FOUND": "Any", "N": "int"}, after={"LoggedMessage.of_type#0": [("FOUND", "box(result)"), ("N", "len(GOT)")]},
         modifies=["#CALLS", "#NTOP"],
         ensures=[("succeeds-exactly-when-the-first-message-of-the-type-has-a-superset-of-the-fields-and-returns-it",
                   "N > 0 and box(result) == seq(FOUND)[0] and implies(fields is not None, restrict(typed(result.message, 'dict'), typed(fields, 'dict')) == dict_of(typed(fields, 'dict')))", ["C17"])],
         raises=[{"cls": "AssertionError", "ensures": [("fails-when-no-message-of-the-type-or-a-field-differs",
                   "N == 0 or (fields is not None and not (restrict(typed(typed(seq(FOUND)[0], 'LoggedMessage').message, 'dict'), typed(fields, 'dict')) == dict_of(typed(fields, 'dict'))))", ["C17"])]}])

STATUS_OK = "iff(dget(typed(FE, 'dict'), 'action_status') == 'succeeded', succeeded)"
START_OK = "implies(startFields is not None, restrict(typed(FS, 'dict'), typed(startFields, 'dict')) == dict_of(typed(startFields, 'dict')))"
END_OK = "implies(endFields is not None, restrict(typed(FE, 'dict'), typed(endFields, 'dict')) == dict_of(typed(endFields, 'dict')))"
contract(T + "assertHasAction", props=["C17"],
         types={"testCase": "role:TestCase", "logger": "MemoryLogger", "actionType": "Any", "succeeded": "bool", "startFields": "Opt[dict]", "endFields": "Opt[dict]"},
         returns="LoggedAction",
         requires=[("type-given-as-text (an ActionType object is handled by LoggedAction.of_type; rendering it for the failure text is not modelled)", "is_str(actionType)")],
         ghosts={"FOUND": "Any", "N": "int", "FS": "Any", "FE": "Any", "OFT": "bool"}, ghost_defaults={"OFT": "False", "N": "0"},
         after={"LoggedAction.of_type#0": [("FOUND", "box(result)"), ("N", "len(CALLED)"), ("FS", "S0"), ("FE", "E0")]},
         after_raise={"LoggedAction.of_type#0": [("OFT", "True")]},
         modifies=["#CALLS", "#NTOP"],
         ensures=[("succeeds-exactly-when-the-first-action-of-the-type-has-the-expected-outcome-and-a-superset-of-the-expected-fields-and-returns-it",
                   "N > 0 and box(result) == seq(FOUND)[0] and result.startMessage == FS and result.endMessage == FE and %s and %s and %s" % (STATUS_OK, START_OK, END_OK), ["C17"])],
         raises=[{"cls": "AssertionError", "ensures": [("fails-only-when-no-action-of-the-type-or-the-outcome-or-a-field-differs",
                   "OFT or N == 0 or not (%s) or not (%s) or not (%s)" % (STATUS_OK, START_OK, END_OK), ["C17"])]},
                 {"cls": "BaseException", "ensures": [("anything-else-comes-out-of-LoggedAction.of_type (unfinished action: known finding C17-F1)", "OFT", ["C17"])]}])
